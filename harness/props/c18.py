# C18 -- no state leaks between runs; results deterministic; inputs never modified.
# Model: coq/Model/Global.v; theorems: coq/Props/C18.v
#
# fn 1: pybtex.utils.memoize(f, capacity) over a table function (every capacity, raising f)
# fn 2: histories of API calls (readers, LowLevelParser, the memoised format.name$ path, reporting
#       modes) from the initial process state, each self-contained call also re-run in a fresh
#       state; model: Global.run
# extra: real end-to-end histories (all parsers, writers, both engines, > capacity fresh
#       format.name$ calls, failing runs) with a probe repeated at every position and compared
#       with a fresh interpreter under another hash seed; snapshots before/after format and write.
import itertools, random, io, os, sys, collections, tempfile, shutil, hashlib, json, subprocess
from core import *

ID = 'C18'

# the twelve predefined month macros (BibTeX's standard styles; written here independently of pybtex)
MONTHS = {'jan': 'January', 'feb': 'February', 'mar': 'March', 'apr': 'April', 'may': 'May', 'jun': 'June',
          'jul': 'July', 'aug': 'August', 'sep': 'September', 'oct': 'October', 'nov': 'November', 'dec': 'December'}

# ----------------------------------------------------------------------------------------
# access to the process-wide cells (no hooks in /repo: module attributes and closure cells)
_PRISTINE = {}

def _memo_cells(f):
    """(memory dict, history deque, capacity cell) of a function wrapped by utils.memoize, found by
    type so that renaming the locals of memoize is harmless; None when f is not such a closure"""
    cl = getattr(f, '__closure__', None) or ()
    mem = hist = capc = None
    for c in cl:
        try:
            v = c.cell_contents
        except ValueError:
            continue
        if isinstance(v, dict) and mem is None:
            mem = v
        elif isinstance(v, collections.deque) and hist is None:
            hist = v
        elif isinstance(v, int) and not isinstance(v, bool) and capc is None:
            capc = c
    if mem is None or hist is None:
        return None
    return mem, hist, capc

def _live_capacity():
    from pybtex.bibtex import builtins as B
    out = []
    for f in (B._format_name, B._split_names):
        c = _memo_cells(f)
        out.append(c[2].cell_contents if c and c[2] is not None else None)
    return out

def _reset(cap=None):
    """put the process back into the state of a fresh interpreter (the cells C18 names)"""
    import pybtex.errors as E, pybtex.io
    from pybtex.database.input import bibtex as bt
    from pybtex.bibtex import builtins as B
    if 'months' not in _PRISTINE:
        _PRISTINE['months'] = dict(bt.month_names)
        _PRISTINE['caps'] = _live_capacity()
        _PRISTINE['stderr'] = pybtex.io.stderr
    bt.month_names.clear(); bt.month_names.update(_PRISTINE['months'])
    for f, c0 in zip((B._format_name, B._split_names), _PRISTINE['caps']):
        c = _memo_cells(f)
        if c:
            c[0].clear(); c[1].clear()
            if c[2] is not None:
                c[2].cell_contents = cap if cap else c0
    E.strict = True; E.error_code = 0; E.captured_errors = None

ERRCODES = None
def _errcode(e):
    from pybtex.database import InvalidNameString, BibliographyDataError
    from pybtex.database.input.bibtex import UndefinedMacro, DuplicateField
    from pybtex.scanner import PybtexSyntaxError
    from pybtex.bibtex.exceptions import BibTeXError
    if isinstance(e, InvalidNameString): return 24
    if isinstance(e, UndefinedMacro): return 21
    if isinstance(e, DuplicateField): return 22
    if isinstance(e, BibliographyDataError): return 23
    if isinstance(e, PybtexSyntaxError): return 20
    if isinstance(e, BibTeXError): return 10
    return 30

# ----------------------------------------------------------------------------------------
# rendering of tokenised commands to .bib text (the generator's side of the abstraction)
def _lit(s):
    if s.isdigit() and len(s) % 2 == 1:
        return s
    if len(s) % 3 == 0:
        return '"' + s + '"'
    return '{' + s + '}'

def _value(v):
    if not v:
        v = [[0, []]]
    return ' # '.join(_lit(S(p[1])) if p[0] == 0 else S(p[1]) for p in v)

def render(file, keyless=False):
    out = []
    for c in file:
        t = c[0]
        if t == 0:
            out.append('@string{%s = %s}' % (S(c[1]), _value(c[2])))
        elif t == 1:
            out.append('@preamble{%s}' % _value(c[1]))
        elif t == 2:
            body = ''.join(',\n  %s = %s' % (S(f[0]), _value(f[1])) for f in c[3])
            if keyless:       # keyless_entries=True: no key is read, the body starts with the first field
                out.append('@%s{%s\n}' % (S(c[1]), body[1:]))
            else:
                out.append('@%s{%s%s\n}' % (S(c[1]), S(c[2]), body))
        elif t == 3:
            out.append('@comment{ignored, text = 1}')
        else:
            out.append('@=oops')
    return '\n'.join(out) + '\n'

def fix_arg(fn, arg):
    """normal form of a generated/shrunk argument: a value has at least one part"""
    if fn != 2:
        return arg
    def fv(v): return v if v else [[0, []]]
    def fc(c):
        if not c: return [3]
        if c[0] == 0 and len(c) >= 3: return [0, c[1], fv(c[2])]
        if c[0] == 1 and len(c) >= 2: return [1, fv(c[1])]
        if c[0] == 2 and len(c) >= 4: return [2, c[1], c[2], [[f[0], fv(f[1])] for f in c[3]]]
        return [c[0]]
    ops = []
    for o in arg[1]:
        t = o[1]
        if t == 1: o = [o[0], 1, o[2], [fc(c) for c in o[3]]] + list(o[4:5])
        elif t == 2: o = [o[0], 2, o[2], [[fc(c) for c in f] for f in o[3]]] + list(o[4:8])
        elif t == 3: o = [o[0], 3, o[2], [fc(c) for c in o[3]]]
        ops.append(o)
    return [arg[0], ops]

# ----------------------------------------------------------------------------------------
# fn 1
def impl_memo(arg):
    from pybtex.utils import memoize
    from pybtex.exceptions import PybtexError
    cap, table, keys = arg
    tab = {k: r for k, r in table}
    calls = [0]
    def f(k):
        calls[0] += 1
        r = tab.get(k, [0, 0])
        if r[0] == 0:
            return r[1]
        if r[0] == 1:
            raise PybtexError('table says so')
        raise ZeroDivisionError('table says so')
    mf = memoize(f, capacity=cap)
    results = [call_impl(mf, k) for k in keys]
    cells = _memo_cells(mf)
    if cells:
        mem = [[k[0], v] for k, v in cells[0].items()]; hist = [k[0] for k in cells[1]]
    else:
        mem = hist = 'NA'
    return [results, mem, hist, calls[0]]

# ----------------------------------------------------------------------------------------
# fn 2
def _person(p):
    return [p.first_names, p.middle_names, p.prelast_names, p.last_names, p.lineage_names]

def _snap(parser):
    d = parser.data
    ents = []
    for key, e in d.entries.items():
        ents.append([key, e.type, [[k, v] for k, v in e.fields.items()],
                     [[role, [_person(p) for p in ps]] for role, ps in e.persons.items()]])
    return [2, ents, list(d.preamble_list), [[k.lower(), v] for k, v in parser.macros.items()]]

def _items(items):
    out = []
    for it in items:
        cmd = it[0].lower()
        if cmd == 'string':
            out.append([0, it[1][0], list(it[1][1])])
        elif cmd == 'preamble':
            out.append([1, list(it[1][0])])
        else:
            out.append([2, it[0], [] if it[1][0] is None else [it[1][0]], [[n, list(v)] for n, v in it[1][1]]])
    return out

def _macros_kw(m):
    return {} if not m else {'macros': [(S(k), S(v)) for k, v in m[0]]}

def _opts(o):
    """(keyless, constructor kwargs) of a reader-creating op: tag 0 = [c, 0, macros, keyless, person_fields, container],
    tag 2 = [c, 2, macros, files, entry point, keyless, person_fields, container]; container: how the macro table is
    handed over (0 list of pairs, 1 dict, 2 CaseInsensitiveDict; absent: chosen from the op's text) -- not part of the
    computation, the model ignores it"""
    kl_i, pf_i = (3, 4) if o[1] == 0 else (5, 6)
    kw = _macros_kw(o[2])
    if 'macros' in kw:
        ck = o[pf_i + 1] if len(o) > pf_i + 1 and isinstance(o[pf_i + 1], int) else len(sx(o)) % 3
        pairs = kw['macros']
        if ck % 3 and len(set(k.lower() for k, _ in pairs)) == len(pairs):   # (a dict would merge repeated keys before pybtex sees them)
            if ck % 3 == 1:
                kw['macros'] = dict(pairs)
            else:
                from pybtex.utils import CaseInsensitiveDict
                kw['macros'] = CaseInsensitiveDict(pairs)
    kl = bool(o[kl_i]) if len(o) > kl_i and not isinstance(o[kl_i], list) else False
    if kl:
        kw['keyless_entries'] = True
    if len(o) > pf_i and o[pf_i]:
        kw['person_fields'] = [S(x) for x in o[pf_i][0]]
    return kl, kw

class Ctx(list):
    """per-history context: the live readers (list items) and, lazily, a long-lived database"""
    env = None
    def __init__(self):
        list.__init__(self)
        self.kl = []
        self.tmpdir = None
        self.nfiles = 0
    def tmp(self):
        """one temporary directory per history (directory operations are the slowest thing the wrapper does)"""
        if self.tmpdir is None:
            self.tmpdir = tempfile.mkdtemp(prefix='c18_')
        self.nfiles += 1
        d = os.path.join(self.tmpdir, 'd%d' % self.nfiles)
        os.mkdir(d)
        return d
    def close(self):
        if self.tmpdir:
            shutil.rmtree(self.tmpdir, ignore_errors=True)
        if self.env is not None:
            self.env.close()

_REC = {}
def _rec_parser():
    """a subclass of the BibTeX Parser that remembers its instances, so that the macro table of a reader
    created inside pybtex.database.parse_string/parse_file/parse_bytes can be observed"""
    from pybtex.database.input import bibtex as bt
    if _REC.get('base') is not bt.Parser:
        class Rec(bt.Parser):
            made = []
            def __init__(self, *a, **k):
                bt.Parser.__init__(self, *a, **k)
                Rec.made.append(self)
        _REC['base'] = bt.Parser; _REC['cls'] = Rec
    return _REC['cls']

def _implicit_ep(o, n):
    if len(o) > 4 and isinstance(o[4], int) and o[4] >= 0:
        return o[4] % n
    h = len(sx(o))
    return h % n if h % 3 == 0 else 0

def _feed(p, text, ep, tmp):
    """one file into the live reader p through entry point ep"""
    if ep == 0:
        p.parse_string(text)
    elif ep == 3:
        p.parse_bytes(text.encode('utf-8'))
    else:
        n = os.path.join(tmp(), 'f%d.bib' % len(os.listdir(tmp())))
        with open(n, 'w', encoding='utf-8') as fh:
            fh.write(text)
        if ep == 1:
            p.parse_file(n)
        else:
            p.parse_files([n])

ENTRY_POINTS = ['Parser.parse_string', 'Parser.parse_file', 'Parser.parse_files', 'Parser.parse_bytes',
                'pybtex.database.parse_string', 'pybtex.database.parse_file', 'pybtex.database.parse_bytes']
OPAQUE_NAMES = ['db.to_string(bibtex)', 'db.to_string(yaml)', 'db.to_string(bibtexml)', 'parse_string(yaml)', 'parse_string(bibtexml)',
                'format_from_string(unsrt, latex)', 'format_from_string(plain, text)', 'alpha.format_bibliography(db) + html back end',
                'pybtex.database.parse_string(text, bibtex)']

def _opaque(ctx, k):
    import pybtex
    from pybtex.database import parse_string
    if ctx.env is None:
        ctx.env = _Env(light=True)
    env = ctx.env
    n0 = len(env.modified)
    k = k % len(OPAQUE_NAMES)
    if k <= 2:
        f = ('bibtex', 'yaml', 'bibtexml')[k]
        r = env.db.to_string(f); env.guard('to_string(%r)' % f)
    elif k <= 4:
        f = ('yaml', 'bibtexml')[k - 3]
        r = _db_snapshot(parse_string(env.texts[f], f))
    elif k == 5:
        r = pybtex.format_from_string(R_BIB, style='unsrt', output_backend='latex')
    elif k == 6:
        r = pybtex.format_from_string(R_BIB, style='plain', output_backend='text')
    elif k == 7:
        r = _r_format_py_db(env)
    else:
        r = _db_snapshot(parse_string(R_BIB, 'bibtex'))
    return [7, _dg(r), 1 if len(env.modified) > n0 else 0]

def _exec(readers, o, use_files):
    import pybtex.errors as E, pybtex.database as D
    from pybtex.database.input import bibtex as bt
    from pybtex.bibtex import builtins as B
    t = o[1]
    tmpd = []
    def tmp():
        if not tmpd:
            tmpd.append(readers.tmp())
        return tmpd[0]
    try:
        if t == 0:
            kl, kw = _opts(o)
            readers.append(bt.Parser(**kw)); readers.kl.append(kl)
            return [1, len(readers) - 1]
        if t == 1:
            p = readers[o[2]]
            _feed(p, render(o[3], readers.kl[o[2]]), _implicit_ep(o, 4), tmp)
            return _snap(p)
        if t == 2:
            ep = _implicit_ep(o, 7)
            kl, kw = _opts(o)
            texts = [render(f, kl) for f in o[3]]
            if ep >= 4 and texts:
                # the first file through the module-level function (which builds the reader), the rest into that reader
                Rec = _rec_parser()
                del Rec.made[:]
                try:
                    if ep == 4:
                        D.parse_string(texts[0], Rec, **kw)
                    elif ep == 6:
                        D.parse_bytes(texts[0].encode('utf-8'), Rec, **kw)
                    else:
                        n = os.path.join(tmp(), 'first.bib')
                        with open(n, 'w', encoding='utf-8') as fh:
                            fh.write(texts[0])
                        D.parse_file(n, Rec, **kw)
                finally:
                    p = Rec.made[-1] if Rec.made else None
                for x in texts[1:]:
                    p.parse_string(x)
            elif ep == 2 and texts:
                p = bt.Parser(**kw)
                names = []
                for i, x in enumerate(texts):
                    n = os.path.join(tmp(), 'g%d.bib' % i)
                    with open(n, 'w', encoding='utf-8') as fh:
                        fh.write(x)
                    names.append(n)
                p.parse_files(names)
            else:
                p = bt.Parser(**kw)
                for x in texts:
                    _feed(p, x, ep if ep < 4 else 0, tmp)
            return _snap(p)
        if t == 3:
            kw = {} if not o[2] else {'macros': readers[o[2][0]].macros}
            return [3, _items(list(bt.LowLevelParser(render(o[3]), **kw)))]
        if t == 4:
            return [4, B._format_name(S(o[2]), o[3], S(o[4]))]
        if t == 5:
            from pybtex.bibtex.interpreter import Interpreter
            it = Interpreter(None, None)
            outs = []
            for k in o[2]:
                it.push(S(k[0])); it.push(k[1]); it.push(S(k[2]))
                it.vars['format.name$'].execute(it)
                outs.append(it.pop())
            return [5, outs]
        if t == 6:
            E.set_strict_mode(bool(o[2]))
            return [0]
        return _opaque(readers, o[2])
    finally:
        pass          # the history's directory is removed when the history is over (Ctx.close)

def _step(readers, o, use_files):
    """one call, optionally inside errors.capture(); -> [value-or-exception, n warnings printed, captured]"""
    import pybtex.errors as E, pybtex.io
    buf = io.StringIO()
    old = pybtex.io.stderr
    pybtex.io.stderr = buf
    try:
        if o[0]:
            # an exception leaves the with block (call_impl is outside it), as in user code
            box = []
            def body():
                with E.capture() as captured:
                    box.append(captured)
                    return _exec(readers, o, use_files)
            v = call_impl(body)
            cap = [[[_errcode(e), []] for e in (box[0] if box else [])]]
        else:
            v = call_impl(_exec, readers, o, use_files)
            cap = []
    finally:
        pybtex.io.stderr = old
    return [v, buf.getvalue().count('WARNING: '), cap]

def _self_contained(o):
    """computations with explicit arguments only: a fresh reader, a LowLevelParser without a macros
    argument, format.name$ calls, opaque calls (writers, other readers, Python engine)"""
    return o[1] in (2, 4, 5, 7) or (o[1] == 3 and not o[2])
def _final():
    import pybtex.errors as E
    from pybtex.database.input import bibtex as bt
    from pybtex.bibtex import builtins as B
    cf, cs = _memo_cells(B._format_name), _memo_cells(B._split_names)
    return [[[k, v] for k, v in bt.month_names.items()],
            [list(k) for k in cf[0].keys()] if cf else 'NA', [list(k) for k in cf[1]] if cf else 'NA',
            [k[0] for k in cs[0].keys()] if cs else 'NA', [k[0] for k in cs[1]] if cs else 'NA',
            bool(E.strict), E.error_code, E.captured_errors is None]

def impl_history(arg):
    ctxs = []
    try:
        return _impl_history(arg, ctxs)          # (non-termination is core.hang_guard's business)
    finally:
        for c in ctxs:
            c.close()

def _impl_history(arg, ctxs):
    import pybtex.errors as E
    arg = fix_arg(2, arg)
    cap, ops = arg[0], arg[1]
    use_files = (len(sx(ops)) % 16 == 0)
    _reset(cap)
    readers = Ctx()
    ctxs.append(readers)
    outs, modes = [], []
    for o in ops:
        modes.append(bool(E.strict))
        outs.append(_step(readers, o, use_files))
    fin = _final()
    # every self-contained call once more, alone, in the state of a fresh interpreter
    base = []
    memo = {}
    for o, strict in zip(ops, modes):
        if _self_contained(o):
            key = (sx(o), strict)
            if key not in memo:
                _reset(cap)
                E.set_strict_mode(strict)
                ctxs.append(Ctx())
                memo[key] = _step(ctxs[-1], o, use_files)
            base.append([memo[key]])
        else:
            base.append([])
    _reset(None)
    return norm([outs, fin, base, _live_capacity()[0] or 0])

_SPLIT_CACHE, _FMT_CACHE = {}, {}
def model_arg(fn, arg):
    """what the model is given: fn 2 gets the capacity actually in force and the table of the
    un-memoised name formatter (pybtex.bibtex.names.format_bibtex_name -- C11's subject -- run by the
    real code inside errors.capture()) for the (name, format) pairs the history can reach"""
    if fn != 2:
        return arg
    import pybtex.errors as E
    from pybtex.bibtex.utils import split_name_list
    from pybtex.bibtex.names import format_name as format_bibtex_name
    arg = fix_arg(2, arg)
    cap = arg[0] or (_live_capacity()[0] or 1024)
    keys = []
    for o in arg[1]:
        if o[1] == 4: keys.append((S(o[2]), o[3], S(o[4])))
        if o[1] == 5: keys.extend((S(k[0]), k[1], S(k[2])) for k in o[2])
    table, seen = [], set()
    saved = (E.strict, E.captured_errors)
    for names, n, fmt in keys:
        if names not in _SPLIT_CACHE:
            try:
                _SPLIT_CACHE[names] = split_name_list(names)
            except Exception:
                _SPLIT_CACHE[names] = None
        parts = _SPLIT_CACHE[names]
        if parts is None or not 1 <= n <= len(parts):
            continue
        name = parts[n - 1]
        if (name, fmt) in seen:
            continue
        seen.add((name, fmt))
        if (name, fmt) not in _FMT_CACHE:
            with E.capture() as captured:
                r = call_impl(format_bibtex_name, name, fmt)
            _FMT_CACHE[(name, fmt)] = [name, fmt, [[_errcode(e), []] for e in captured], r]
        table.append(_FMT_CACHE[(name, fmt)])
    E.strict, E.captured_errors = saved
    return [cap, table, arg[1]]

FUNCS = {
    1: ('pybtex.utils.memoize', impl_memo, ('T', 'N', ('L', ('T', 'N', 'X')), ('L', 'N'))),
    2: ('history of API calls (Parser, LowLevelParser, format.name$, errors.*)', impl_history,
        ('T', 'N', ('L', 'X'))),
}

# ----------------------------------------------------------------------------------------
def _c_res(r):
    if isinstance(r, list) and r and r[0] == 1:
        return [1]
    if isinstance(r, list) and len(r) == 2 and r[0] == 0 and isinstance(r[1], list) and r[1][:1] == [7]:
        return [0, [0]]          # an opaque call: the model says "returns, touches nothing"; the digest is for the oracle
    return r

def _c_out(o):
    # value/exception class; number of printed warnings; captured problems by class
    st = o[1] if isinstance(o[1], int) else len(o[1])
    cap = [[[e[0] for e in o[2][0]]]] if o[2] else []
    return [_c_res(o[0]), st, cap]

def canon(fn, out):
    if fn == 1:
        res, mem, hist, n = out
        if not _introspect():
            mem = hist = 'NA'
        return [[_c_res(r) for r in res], mem, hist, n]
    outs, fin, base = out[0], list(out[1]), out[2]
    if not _introspect():
        fin[1:5] = ['NA'] * 4
    return [[_c_out(o) for o in outs], fin, [[_c_out(b[0])] if b else [] for b in base]]

_INTRO = []
def _introspect():
    if not _INTRO:
        from pybtex.utils import memoize
        from pybtex.bibtex import builtins as B
        _INTRO.append(bool(_memo_cells(memoize(lambda x: x)) and _memo_cells(B._format_name) and _memo_cells(B._split_names)))
    return _INTRO[0]

# ----------------------------------------------------------------------------------------
# the property itself, on the implementation's outputs
def _many_commas(names):
    from_parts = [p for p in S(names).split(' and ')]
    return any(p.count(',') >= 3 for p in from_parts)


def oracle_all(fn, arg, out):
    """list of (kind, message)"""
    fails = []
    if fn == 1:
        cap, table, keys = arg
        tab = {k: r for k, r in table}
        res, mem, hist, n = out
        if cap == 0:
            return fails          # memoize(f, capacity=0) cannot store anything (it raises IndexError); pybtex never builds one
        for k, r in zip(keys, res):
            want = tab.get(k, [0, 0])
            if _c_res(r) != _c_res(want):
                fails.append(('memo-transparent', 'memoised call on key %d returned %r, the function gives %r' % (k, r, want)))
        if cap >= 1 and mem != 'NA':
            if [m[0] for m in mem] != hist:
                fails.append(('memo-inv', 'memory keys %r differ from history %r' % ([m[0] for m in mem], hist)))
            if len(hist) > cap:
                fails.append(('memo-inv', 'cache holds %d entries, capacity is %d' % (len(hist), cap)))
        return fails
    arg = fix_arg(2, arg)
    ops = arg[1]
    outs, fin, base = out[0], out[1], out[2]
    strict = True
    seen = {}
    for i, (o, r) in enumerate(zip(ops, outs)):
        if _self_contained(o):
            key = (sx(o[:4] + o[5:7] if o[1] == 2 else o), strict)     # the entry point used is not part of the computation
            # F19: the deviating call is a _format_name / format.name$ call on a name that reports
            # 'Too many commas'.  Whether the report happens depends on whether the call is served from
            # the cache: same value with fewer/more reports (capture, non-strict), or -- in strict mode,
            # where the report IS the exception -- raising on a miss and returning on a hit, in either
            # order (miss->hit after a captured/non-strict run; hit->miss after an eviction).
            f19 = (o[1] in (4, 5)) and any(_many_commas(k[0]) for k in ([o[2:5]] if o[1] == 4 else o[2]))
            def diff(a, b):
                ca, cb = _c_out(a), _c_out(b)
                if ca == cb:
                    return None
                if f19 and (ca[0] == cb[0] or ca[0] == [1] or cb[0] == [1]):
                    return 'F19'
                return 'other'
            if key in seen:
                d = diff(outs[seen[key]], r)
                if d:
                    fails.append(('repeat-reports' if d == 'F19' else 'repeat',
                                  'call %d repeats call %d in the same reporting mode but gives %r instead of %r' % (i, seen[key], _c_out(r), _c_out(outs[seen[key]]))))
            else:
                seen[key] = i
            if base[i]:
                d = diff(base[i][0], r)
                if d:
                    fails.append(('fresh-reports' if d == 'F19' else 'fresh',
                                  'call %d gives %r, in a fresh state it gives %r' % (i, _c_out(r), _c_out(base[i][0]))))
            if o[1] == 7:      # opaque calls: the digest of the result must repeat, the long-lived database must be untouched
                v = r[0]
                if v[:1] == [0] and len(v[1]) >= 3 and v[1][2]:
                    fails.append(('db-modified', 'call %d (%s) modified the database it was given' % (i, OPAQUE_NAMES[o[2]])))
                for ref, what in (((outs[seen[key]] if seen[key] != i else None), 'call %d' % seen[key]), ((base[i][0] if base[i] else None), 'a fresh state')):
                    if ref is not None and ref[0] != v:
                        fails.append(('opaque-repeat', 'call %d (%s) gives another result than %s' % (i, OPAQUE_NAMES[o[2]], what)))
        if o[1] == 6:
            strict = bool(o[2])
    fails.extend(_accumulation(ops, outs))
    months = {S(k): S(v) for k, v in fin[0]}
    if months != MONTHS:
        changed = sorted(set(months.items()) ^ set(MONTHS.items()))
        fails.append(('months', 'the predefined month macros were altered: %r' % (changed[:4],)))
    if not fin[7]:
        fails.append(('capture', 'errors.captured_errors is still set after every capture() block was left'))
    if fin[1] != 'NA' and isinstance(fin[1], list):
        capv = arg[0] or out[3]
        if fin[1] != fin[2] or fin[3] != fin[4]:
            fails.append(('memo-inv', 'cache memory keys differ from its history'))
        if capv and (len(fin[2]) > capv or len(fin[4]) > capv):
            fails.append(('memo-inv', 'a name cache holds more than its capacity %d' % capv))
    return fails

class _SimReader(object):
    """what the property text fixes about one reader's macro table, written without looking at pybtex: it starts
    as the given table (the twelve months when none is given), names are case-insensitive, every @string read by
    this reader -- in any of its files -- adds or replaces a definition, nothing else does"""
    def __init__(self, o):
        kl, kw = _opts(o)
        self.keyless = kl
        self.roles = set(x.lower() for x in kw.get('person_fields', ['author', 'editor']))
        self.known = {}
        pairs = [(S(k), S(v)) for k, v in o[2][0]] if o[2] else list(MONTHS.items())
        for k, v in pairs:
            self.known[k.lower()] = v
        self.maybe = set()
        self.keys = set()
    def harmless(self, file):
        """no source of a report other than an undefined macro: no malformed command, person field, duplicate field,
        repeated key, keyless naming"""
        if self.keyless:
            return False
        for c in file:
            if c[0] == 4:
                return False
            if c[0] == 2:
                names = [S(f[0]).lower() for f in c[3]]
                if len(set(names)) != len(names) or set(names) & self.roles or S(c[2]).lower() in self.keys:
                    return False
        return len(set(S(c[2]).lower() for c in file if c[0] == 2)) == len([c for c in file if c[0] == 2])
    def all_defined(self, file):
        known = set(self.known)
        for c in file:
            parts = c[2] if c[0] == 0 else c[1] if c[0] == 1 else [p for f in c[3] for p in f[1]] if c[0] == 2 else []
            if any(p[0] == 1 and S(p[1]).lower() not in known for p in parts):
                return False
            if c[0] == 0:
                known.add(S(c[1]).lower())
        return True
    def value(self, parts):
        out = []
        for p in parts:
            if p[0] == 0:
                out.append(S(p[1]))
            else:
                n = S(p[1]).lower()
                if n in self.known:
                    out.append(self.known[n])
                else:
                    return None, (None if n in self.maybe else S(p[1]))
        return ''.join(out), None
    def feed(self, file, clean, snapshot, where, fails, raised=None):
        if raised is not None and not clean and self.harmless(file) and self.all_defined(file):
            fails.append(('accumulate', '%s reported a problem (%s) although every macro it uses was given to this reader or defined by an @string it has read' % (where, raised)))
        for c in file:
            if c[0] == 2:
                self.keys.add(S(c[2]).lower())
        for c in file:
            if c[0] == 0:
                n = S(c[1]).lower()
                v, phantom = self.value(c[2]) if clean else (None, None)
                if phantom is not None:
                    fails.append(('phantom-macro', '%s read macro %r, which this reader never defined and was not given, without reporting anything' % (where, phantom)))
                if v is None:
                    self.known.pop(n, None); self.maybe.add(n)
                else:
                    self.known[n] = v
            elif c[0] == 2 and clean:
                ent = None
                if not self.keyless:
                    ent = [e for e in snapshot if S(e[0]) == S(c[2])]
                for f in c[3]:
                    v, phantom = self.value(f[1])
                    if phantom is not None:
                        fails.append(('phantom-macro', '%s read macro %r, which this reader never defined and was not given, without reporting anything' % (where, phantom)))
                    if v is None or S(f[0]).lower() in self.roles or not ent:
                        continue
                    got = [S(x[1]) for x in ent[0][2] if S(x[0]).lower() == S(f[0]).lower()]
                    want = ' '.join(v.split())
                    if got and got[0] != want:
                        fails.append(('accumulate', '%s: field %s of entry %s is %r; with the @string definitions this reader has read so far it must be %r' % (where, S(f[0]), S(c[2]), got[0], want)))

def _accumulation(ops, outs):
    """'@string macros accumulate across the files of one reader' and 'a table without months stays without
    months', checked on every reader of the history"""
    fails = []
    sims = []
    for i, (o, r) in enumerate(zip(ops, outs)):
        v = r[0]
        clean = v[:1] == [0] and r[1] == 0 and (not r[2] or not r[2][0])
        if o[1] == 0:
            sims.append(_SimReader(o))
        elif o[1] == 1 and o[2] < len(sims):
            snap = v[1][1] if clean and v[1][:1] == [2] else []
            sims[o[2]].feed(o[3], clean, snap, 'call %d (file %d+ of reader %d)' % (i, 1, o[2]), fails, raised=_c_out(r))
        elif o[1] == 2:
            sim = _SimReader(o)
            snap = v[1][1] if clean and v[1][:1] == [2] else []
            ok_all = True
            for f in o[3]:      # (only when the whole call is free of other report sources)
                ok_all = ok_all and sim.harmless(f) and sim.all_defined(f)
                for c in f:
                    if c[0] == 0: sim.known.setdefault(S(c[1]).lower(), None)
                    if c[0] == 2: sim.keys.add(S(c[2]).lower())
            sim = _SimReader(o)
            if not clean and ok_all:
                fails.append(('accumulate', 'call %d (a fresh reader, %d files) reported a problem (%s) although every macro it uses was given to it or defined by an @string in its files' % (i, len(o[3]), _c_out(r))))
            for j, f in enumerate(o[3]):
                sim.feed(f, clean, snap, 'call %d (file %d of a fresh reader)' % (i, j + 1), fails)
        elif o[1] == 3 and o[2] and o[2][0] < len(sims):
            sims[o[2][0]].feed(o[3], False, [], '', fails)      # a LowLevelParser sharing the reader's table: definitions become 'maybe'
    return fails[:3]

KNOWN_KINDS = {'repeat-reports': 'F19', 'fresh-reports': 'F19'}

def oracle(fn, arg, out):
    fails = oracle_all(fn, arg, out)
    if not fails:
        return None
    fails.sort(key=lambda f: f[0] in KNOWN_KINDS)        # unlisted kinds first
    return '%s: %s' % fails[0]

def _sig(fid):
    def pred(kind, fn, arg, detail):
        if kind != 'oracle' or fn != 2 or not isinstance(detail, str):
            return False
        k = detail.split(':', 1)[0]
        if KNOWN_KINDS.get(k) != fid:
            return False
        ops = fix_arg(2, arg)[1]
        # a format.name$ call on a name with more than two commas (the kinds above are only produced when
        # the DEVIATING call itself is such a call and the deviation is in the reports / raise-vs-return)
        return any(o[1] in (4, 5) and any(_many_commas(k[0]) for k in ([o[2:5]] if o[1] == 4 else o[2])) for o in ops)
    return pred
KNOWN_SIGNATURES = {'F19': _sig('F19')}

def replay_known(finding):
    p = finding.get('pinned')
    if not p:
        return None
    out = FUNCS[p['fn']][1](norm(p['arg']))
    fails = [f for f in oracle_all(p['fn'], norm(p['arg']), out) if KNOWN_KINDS.get(f[0]) == finding['id']]
    return ('pinned input still fails: %s: %s' % fails[0]) if fails else None

# ----------------------------------------------------------------------------------------
def describe(fn, arg):
    if fn == 1:
        return {'capacity': arg[0], 'f': {k: r for k, r in arg[1]}, 'calls': arg[2]}
    arg = fix_arg(2, arg)
    names = ['Parser(macros)', 'readers[r].parse_string', 'Parser(macros).parse_files', 'list(LowLevelParser(text[, macros=readers[r].macros]))',
             '_format_name(names, n, format)', 'Interpreter + format.name$ calls', 'errors.set_strict_mode', 'opaque call']
    ops = []
    kls = []
    for o in arg[1]:
        d = {'call': names[min(o[1], 7)], 'inside_capture': bool(o[0])}
        if o[1] == 0: kls.append(_opts(o)[0])
        t = o[1]
        if t in (0, 2): d['options'] = {k: v for k, v in _opts(o)[1].items() if k != 'macros'}
        if t == 0: d['macros'] = [(S(k), S(v)) for k, v in o[2][0]] if o[2] else 'default'
        elif t == 1: d['reader'] = o[2]; d['text'] = render(o[3], o[2] < len(kls) and kls[o[2]]); d['entry_point'] = ENTRY_POINTS[_implicit_ep(o, 4)]
        elif t == 2: d['macros'] = [(S(k), S(v)) for k, v in o[2][0]] if o[2] else 'default'; d['files'] = [render(f, _opts(o)[0]) for f in o[3]]; d['entry_point'] = ENTRY_POINTS[_implicit_ep(o, 7)]
        elif t == 3: d['macros_of_reader'] = o[2][0] if o[2] else 'default (month_names)'; d['text'] = render(o[3])
        elif t == 4: d['args'] = [S(o[2]), o[3], S(o[4])]
        elif t == 5: d['calls'] = [[S(k[0]), k[1], S(k[2])] for k in o[2]]
        elif t == 6: d['strict'] = bool(o[2])
        else: d['what'] = OPAQUE_NAMES[o[2] % len(OPAQUE_NAMES)]
        ops.append(d)
    return {'name_cache_capacity': arg[0] or 'as shipped', 'history': ops}

def nontrivial(fn, arg, out):
    if fn == 1:
        return len(set(arg[2])) > arg[0] >= 1        # more distinct keys than the cache holds
    kinds = set(o[1] for o in arg[1])
    return len(kinds) >= 2

# ----------------------------------------------------------------------------------------
# generators
def L_(s): return [0, s]
def M_(s): return [1, s]
def ENT(typ, key, *fields): return [2, typ, key, [[n, list(v)] for n, v in fields]]
def STR(name, *v): return [0, name, list(v)]
def PRE(*v): return [1, list(v)]
COMMENT, BAD = [3], [4]
def NEWR(macros=None, c=0, keyless=0, pf=None, container=None): return [c, 0, [] if macros is None else [macros], keyless, [] if pf is None else [pf]] + ([] if container is None else [container])
def FEED(r, file, c=0, ep=None): return [c, 1, r, file] + ([] if ep is None else [ep])
def PARSE(files, macros=None, c=0, ep=None, keyless=0, pf=None, container=None):
    return [c, 2, [] if macros is None else [macros], files, -1 if ep is None else ep, keyless, [] if pf is None else [pf]] + ([] if container is None else [container])
def OPAQUE(k, c=0): return [c, 7, k]
def LOWL(file, r=None, c=0): return [c, 3, [] if r is None else [r], file]
def FNAME(names, n, fmt, c=0): return [c, 4, names, n, fmt]
def BST(calls, c=0): return [c, 5, [list(k) for k in calls]]
def STRICT(b): return [0, 6, 1 if b else 0]

def menu():
    m = []
    # probe A: own macro and a month, well formed
    m.append(PARSE([[STR('m', L_('V')), PRE(L_('pre'), M_('m')), ENT('Article', 'k', ('title', [M_('m'), L_(' t')]), ('month', [M_('jan')]))]]))
    # uses a macro it never defined: fails (strict) unless some other reader's @string leaked
    m.append(PARSE([[ENT('misc', 'k', ('note', [M_('m')]), ('year', [M_('foo')]))]]))
    # two files of one reader: the second sees the first's macros; a month redefined inside the reader
    m.append(PARSE([[STR('jan', L_('X')), STR('M', L_('W'))], [ENT('misc', 'k', ('month', [M_('JAN')]), ('note', [M_('m')]))]]))
    m.append(NEWR())
    m.append(FEED(0, [STR('m', L_('W')), PRE(L_('p'), M_('m')), ENT('a', 'k', ('note', [M_('m')]))]))
    m.append(FEED(0, [ENT('b', 'K', ('note', [M_('m')])), ENT('b', 'k2', ('author', [L_('a, b, c, d and E F')]), ('Author', [L_('x')]))]))
    m.append(LOWL([STR('jan', L_('X')), STR('foo', L_('bar'))]))
    m.append(LOWL([STR('q', L_('Z')), ENT('a', 'k', ('n', [M_('q')]))], r=0))
    m.append(FNAME('a, b, c, d and E F', 1, '{ll}'))
    m.append(FNAME('A B and C D', 2, '{ff }{ll}'))
    m.append(FNAME('A B', 2, '{ll}'))
    m.append(BST([('N1 L1', 1, '{ll}'), ('N2 L2', 1, '{ll}'), ('N3 L3 and a, b, c, d', 2, '{ll}')]))
    m.append(OPAQUE(0)); m.append(OPAQUE(7))
    # keyless readers: entries are named unnamed-1, unnamed-2 from a per-reader counter that restarts at every parse
    m.append(PARSE([KFILE], keyless=1))
    m.append(PARSE([KFILE_BAD], keyless=1))                 # fails after its first entry has taken unnamed-1
    m.append(NEWR(keyless=1, pf=['Translator']))
    # person_fields is per reader: a custom one, and the default on the same text
    m.append(PARSE([PFILE], pf=['Translator']))
    m.append(PARSE([PFILE]))
    m.append(PARSE([[ENT('misc', 'k', ('note', [M_('m')])), BAD, COMMENT, ENT('misc', 'k', ('note', [L_('again')]))]], macros=[['M', 'given'], ['m', 'twice']]))
    return m

KFILE = [ENT('misc', 'x', ('title', [L_('T')])), ENT('book', 'y'), COMMENT, ENT('misc', 'z', ('author', [L_('Ann Lee')]))]
KFILE_BAD = [ENT('misc', 'x'), ENT('misc', 'y', ('note', [M_('nosuchmacro')])), ENT('misc', 'z')]
PFILE = [ENT('misc', 'k', ('translator', [L_('Ann Lee and a, b, c, d')]), ('Author', [L_('X Y')]), ('note', [L_('n')]))]

def with_capture(o):
    o = list(o); o[0] = 1
    return o

def rand_value(rng, macros):
    v = []
    for _ in range(rng.choice([1, 1, 1, 2, 3])):
        if rng.random() < 0.45:
            v.append(M_(rng.choice(macros)))
        else:
            v.append(L_(rng.choice(['A', 'b c', '  d \t e ', '1999', '12', '', 'X, Y, Z, W', 'v.w', 'Knuth, Donald and a, b, c, d', 'Ann Lee'])))
    return v

MACS = ['jan', 'JAN', 'Feb', 'dec', 'm', 'M', 'x', 'foo']
def rand_file(rng, allow_bad=True):
    f = []
    for _ in range(rng.randint(0, 4)):
        r = rng.random()
        if r < 0.3:
            f.append(STR(rng.choice(MACS), *rand_value(rng, MACS)))
        elif r < 0.4:
            f.append(PRE(*rand_value(rng, MACS)))
        elif r < 0.85:
            fields = [(rng.choice(['title', 'Title', 'author', 'Editor', 'month', 'note', 'year', 'translator']), rand_value(rng, MACS)) for _ in range(rng.randint(0, 3))]
            f.append(ENT(rng.choice(['article', 'Book', 'misc']), rng.choice(['k', 'K', 'k2', 'key3']), *fields))
        elif r < 0.92:
            f.append(COMMENT)
        elif allow_bad:
            f.append(BAD)
    return f

NAMEPOOL = ['A B', 'Ann Lee and Bob Ray', 'a, b, c, d', 'von Last, Jr, First and a, b, c, d, e', 'Knuth, Donald', 'X Y and  Z', '{A B} C', 'Q']
FMTS = ['{ll}', '{ff }{vv~}{ll}{, jj}', '{f.}', '{ll']
def rand_nkey(rng, fresh):
    if rng.random() < 0.4:
        return ('N%d L%d' % (next(fresh), rng.randint(0, 3)), 1, rng.choice(FMTS[:2]))
    return (rng.choice(NAMEPOOL), rng.choice([1, 1, 1, 2, 0, 3]), rng.choice(FMTS))

def rand_pf(rng):
    return None if rng.random() < 0.8 else rng.choice([['Translator'], ['AUTHOR', 'note'], []])

def rand_history(rng, n):
    ops = []
    nreaders = 0
    fresh = itertools.count()
    for _ in range(n):
        r = rng.random()
        c = 1 if rng.random() < 0.4 else 0
        if r < 0.22:
            ops.append(PARSE([rand_file(rng) for _ in range(rng.choice([1, 1, 2, 3]))],
                             macros=None if rng.random() < 0.7 else [[rng.choice(MACS), rng.choice(['g', 'h'])] for _ in range(rng.randint(0, 3))], c=c,
                             keyless=int(rng.random() < 0.25), pf=rand_pf(rng)))
        elif r < 0.30:
            ops.append(NEWR(None if rng.random() < 0.6 else [[rng.choice(MACS), 'r']], c=c, keyless=int(rng.random() < 0.25), pf=rand_pf(rng))); nreaders += 1
        elif r < 0.45 and nreaders:
            ops.append(FEED(rng.randrange(nreaders), rand_file(rng), c=c))
        elif r < 0.52:
            ops.append(LOWL(rand_file(rng), r=(rng.randrange(nreaders) if nreaders and rng.random() < 0.7 else None), c=c))
        elif r < 0.75:
            ops.append(FNAME(*rand_nkey(rng, fresh), c=c))
        elif r < 0.87:
            ops.append(BST([rand_nkey(rng, fresh) for _ in range(rng.randint(1, 5))], c=c))
        elif r < 0.93:
            ops.append(STRICT(rng.random() < 0.5))
        elif r < 0.97:
            ops.append(OPAQUE(rng.randrange(9), c=c))
        elif ops:
            ops.append(rng.choice(ops))       # an exact repetition
    return ops

PIN_F19 = [0, [FNAME('a, b, c, d', 1, '{ll}', c=1), FNAME('a, b, c, d', 1, '{ll}', c=1)]]
PIN_F28 = [0, [LOWL([STR('jan', L_('X'))])]]

def gen(tier, rng):
    # ---- fn 1: exhaustive key sequences over 3 keys (one of which raises, one crashes), capacities 0..3
    table = [[0, [0, 7]], [1, [0, 8]], [2, [1]], [3, [2]]]
    maxlen = 6 if tier == 'quick' else 7
    for cap in range(0, 4):
        for n in range(0, maxlen + 1):
            for ks in itertools.product(range(4 if n <= maxlen - 1 else 3), repeat=n):
                yield ('memo_exhaustive', 1, [cap, table, list(ks)])
    for i in range(300 if tier == 'quick' else 3000):
        cap = rng.choice([1, 2, 3, 5, 8, 16, 1024])
        nk = rng.choice([cap, cap + 1, cap + 3, 2 * cap + 1, 4])
        tab = [[k, rng.choice([[0, rng.randint(0, 9)], [0, rng.randint(0, 9)], [0, rng.randint(0, 9)], [1], [2]])] for k in range(nk)]
        n = rng.choice([nk, 2 * nk, 3 * nk + 5]) if cap < 100 else rng.choice([1030, 1100, 2100])
        mode = rng.random()
        ks = [rng.randrange(nk) if mode < 0.5 else (j % nk if mode < 0.8 else min(nk - 1, int(rng.expovariate(0.5)))) for j in range(n)]
        yield ('memo_random', 1, [cap, tab, ks])
    # ---- fn 2: pinned inputs (every defect input of this property)
    yield ('pinned', 2, PIN_F19)
    yield ('pinned', 2, PIN_F28)
    yield ('pinned', 2, [0, [PARSE([KFILE], keyless=1), PARSE([KFILE_BAD], keyless=1), PARSE([KFILE], keyless=1)]])   # seeded: class-level unnamed counter
    yield ('pinned', 2, [0, [FNAME('a, b, c, d', 1, '{ll}'), FNAME('a, b, c, d', 1, '{ll}', c=1), STRICT(False), FNAME('a, b, c, d', 1, '{ll}')]])
    yield ('pinned', 2, [2, [LOWL([STR('jan', L_('X')), STR('foo', L_('bar'))]), PARSE([[ENT('a', 'k', ('month', [M_('jan')]), ('note', [M_('foo')]))]], c=1)]])
    # more fresh format.name$ calls than the shipped caches hold, a probe before, between and after
    probe = FNAME('Ann Lee and Bob Ray', 2, '{ff }{ll}')
    many = [('N%d L' % i, 1, '{ll}') for i in range(1100)]
    yield ('beyond_capacity', 2, [0, [probe, BST(many[:600]), probe, BST(many[600:]), probe, FNAME('N0 L', 1, '{ll}'), BST(many[:30], c=1), probe]])
    # ---- fn 2: every history of menu calls up to the length bound, small caches (capacity 2)
    m = menu()
    full = []
    for o in m:
        full.append(o)
        if o[1] not in (0, 6):
            full.append(with_capture(o))
    full += [STRICT(False), STRICT(True)]
    # a smaller pool for the longest histories: the calls that write some cell, and the probes that read it
    core_pool = [o for o in full if not o[0] and o[1] != 7]
    if tier == 'quick':
        plan = [(1, full, 1), (2, full, 1), (3, core_pool, 2)]
    else:
        plan = [(1, full, 1), (2, full, 1), (3, full, 1), (4, core_pool, 7)]
    for n, pool, stride in plan:
        for j, h in enumerate(itertools.product(range(len(pool)), repeat=n)):
            if j % stride == 0:
                yield ('history_exhaustive', 2, [2, [pool[i] for i in h]])
    # ---- fn 2: an EARLIER reader defines / redefines macros through every entry point, then an independent
    #      probe parse (through every entry point) that uses a month, an upper-case month and the defined name
    definers = [[STR('m', L_('V'))], [STR('jan', L_('X')), STR('m', M_('jan'))], [STR('JAN', L_('Y')), STR('Feb', L_('Z')), PRE(M_('feb'))]]
    def probes(ep):
        return [PARSE([[ENT('misc', 'k', ('month', [M_('jan')]), ('note', [M_('FEB'), L_(' '), M_('dec')]))]], ep=ep),
                PARSE([[ENT('misc', 'k', ('note', [M_('m')]))]], ep=ep, c=1)]
    for di, d in enumerate(definers):
        for ep_p in range(7):
            for ep_d in range(7):
                yield ('entry_points', 2, [2, [PARSE([d], ep=ep_d, c=(ep_d + di) % 2)] + probes(ep_p)])
                yield ('entry_points', 2, [2, [PARSE([d, d], ep=ep_d, macros=[['dec', 'D']])] + probes(ep_p)])
            for ep_d in range(4):
                yield ('entry_points', 2, [2, [NEWR(), FEED(0, d, ep=ep_d, c=(ep_d + di) % 2)] + probes(ep_p) + [FEED(0, d, ep=ep_d)]])
            yield ('entry_points', 2, [2, [LOWL(d)] + probes(ep_p) + [LOWL(d, c=1)]])
            yield ('entry_points', 2, [2, [NEWR(), LOWL(d, r=0)] + probes(ep_p)])
    # ---- the same for keyless readers: earlier keyless parses (also failing ones, also several files) through
    #      every entry point, then an independent keyless probe; and for person_fields
    for di, d in enumerate([[KFILE], [KFILE_BAD], [KFILE, KFILE]]):
        for ep_p in range(7):
            kprobe = [PARSE([KFILE], keyless=1, ep=ep_p), PARSE([KFILE_BAD], keyless=1, ep=ep_p, c=1), PARSE([PFILE], ep=ep_p)]
            for ep_d in range(7):
                yield ('two_readers', 2, [2, [PARSE(d, keyless=1, ep=ep_d, c=(ep_d + di) % 2, pf=['translator'])] + kprobe])
            for ep_d in range(4):
                yield ('two_readers', 2, [2, [NEWR(keyless=1, pf=['note']), FEED(0, d[0], ep=ep_d, c=di % 2)] + kprobe + [FEED(0, d[0], ep=ep_d, c=1)]])
    # two live readers interleaved: each one's macros, entries, preamble, counter and options are its own
    for ep_a in range(4):
        for ep_b in range(4):
            yield ('two_readers', 2, [2, [NEWR(keyless=1), NEWR(pf=['Translator']), FEED(0, KFILE, ep=ep_a), FEED(1, [STR('m', L_('B')), PRE(M_('m'))] + PFILE, ep=ep_b),
                                          FEED(0, KFILE_BAD, ep=ep_a, c=1), FEED(1, [ENT('misc', 'k2', ('note', [M_('m')]))], ep=ep_b), FEED(0, KFILE, ep=ep_b, c=1),
                                          LOWL([ENT('a', 'k', ('n', [M_('m')]))], r=1), PARSE([PFILE]), PARSE([KFILE], keyless=1)]])
    # ---- '@string macros accumulate across the files of one reader', for readers created with an EMPTY table, a small
    #      custom one, each handed over as list / dict / CaseInsensitiveDict, through every entry point; an empty table
    #      stays empty of months (what the BibTeX engine builds for a style without MACRO commands)
    F1 = [STR('acc', L_('First')), STR('Two', M_('acc'), L_(' 2'))]
    F2 = [ENT('misc', 'k', ('note', [M_('acc'), L_(' and '), M_('TWO')]), ('title', [M_('ACC')]))]
    F3 = [ENT('misc', 'k2', ('month', [M_('jan')]))]
    for table in ([], [['x', 'X']], [['acc', 'given'], ['Y', 'y']]):
        for container in range(3):
            for ep in range(4):
                yield ('accumulate', 2, [2, [NEWR(table, container=container), FEED(0, F1, ep=ep), FEED(0, F2, ep=(ep + 1) % 4), FEED(0, F2[:0] + [ENT('misc', 'k3', ('note', [M_('two')]))], ep=ep, c=1), FEED(0, F3, c=1)]])
            for ep in range(7):
                yield ('accumulate', 2, [2, [PARSE([F1, F2], macros=table, container=container, ep=ep), PARSE([F1, [COMMENT], F2], macros=table, container=container, ep=ep, c=1),
                                             PARSE([F3], macros=table, container=container, ep=ep, c=1), PARSE([F2], macros=table, container=container, ep=ep, c=1)]])
    # ---- fn 2: random histories
    for i in range(500 if tier == 'quick' else 6000):
        cap = rng.choice([1, 2, 3, 4, 8, 0])
        yield ('history_random', 2, [cap, rand_history(rng, rng.choice([3, 5, 8, 12, 16] if tier == 'quick' else [3, 6, 10, 20, 40]))])

RULE = ('fn 1 (memoize): every key sequence up to the length bound over 4 keys (two returning, one raising a pybtex error, one raising a foreign exception) x capacities 0..3, plus random runs up to capacity 1024 with more distinct keys than the capacity; '
        'fn 2 (API histories): pinned defect inputs, a history with 1100 fresh format.name$ calls at the shipped capacity, every history of length <= 2 over a menu of 20 calls (keyless and person_fields readers included) (incl. two opaque writer/engine calls; each also inside errors.capture(), plus set_strict_mode on/off; 41 in all) and every second one of length 3 (thorough: all, and every seventh one of length 4) over the 20 of them that are neither capture() variants nor opaque, cache capacity 2 (thorough: length 3 over all 41), a stream where an earlier reader defines/redefines macros through each of the 7 parse entry points (and a live reader, and LowLevelParser) before independent probe parses through each entry point, and random histories up to length 16 (thorough: 40); every self-contained call is also re-run alone in a reset process state. '
        'fn 3 (real engines as ordinary cases): 220 calls = generated .bst styles (same name in another working directory, file rewritten between runs, other bst_encoding), object histories (one parsed database object through add_extra_citations / format_bibliography / writers / lower / pickle, each result compared with a freshly parsed copy), and Python engine x {unsrt, plain, alpha, unsrtalpha} x 5 option sets (back ends latex/html/text/markdown, abbreviate_names, name/label/sorting styles) x 4 databases (duplicate alpha labels; one entry type with different editor/author/field patterns; cross-references; missing required fields = failing runs), also inside capture(); BibTeX engine x the 7 shipped .bst; writers 3 formats x {str, utf-8, latin-1, ascii}; readers; each selected call twice, after the same style on another database, and in mixed histories (quick: a rotating selection, thorough: all); every result compared with the same call in its own forked child of a pristine interpreter under another hash seed. '
        'distinct = distinct (function, argument); non-trivial = more distinct keys than the capacity (fn 1) / at least two kinds of call (fn 2)')
EXHAUSTIVE = {'quick': 'memoize: all key sequences of length <= 6 over 4 keys x capacities 0..3; API histories: all sequences of length <= 2 over the 41-call menu, all of length 3 over its 20-call core (the calls outside capture())',
              'thorough': 'memoize: all key sequences of length <= 7 over 4 keys x capacities 0..3; API histories: all sequences of length <= 3 over the 41-call menu, every seventh one of length 4 over its 20-call core (the calls outside capture())'}
TRUSTED_BASE = ['modelled (not verified) code: pybtex/utils.py memoize; pybtex/errors.py; pybtex/bibtex/builtins.py _split_names/_format_name/format.name$; pybtex/database/input/bibtex.py month_names, LowLevelParser command level, Parser; pybtex/database/input/__init__.py BaseParser; BibliographyData.add_entry',
                'the lexical level of .bib files is not modelled: the harness renders tokenised commands to text (harness/props/c18.py render)',
                'format_bibtex_name (C11) enters the model as a table measured from the real function for the pairs each history reaches']
ASSUMPTIONS = ['format_bibtex_name(name, format) is a function of its two arguments plus a list of reports (sampled: computed twice per run for every pair used)']
PARTIAL = ['"formatting or writing a database never modifies it" and determinism across fresh interpreters / hash seeds are checked by the oracle only (extra check real_api_histories), not proved',
           'the .bib lexer, the BST interpreter beyond format.name$, the Python engine and the writers are outside the model: their freedom from global state is tested end to end, not proved']

# ----------------------------------------------------------------------------------------
# extra check: end-to-end histories on the real public API (oracle only; no model)
R_BIB = '''@string{m = "Mac"}
@preamble{"\\\\newcommand{\\\\noop}[1]{}"}
@article{k1, author = {Ann Lee and Bob von Ray, Jr}, title = {A Title of Things}, year = 1999, month = jan, journal = m}
@book{k2, author = {Knuth, Donald E.}, editor = {Ed Itor}, title = {The {Art}}, publisher = {AW}, year = 1968, crossref = {k1}}
@misc{k3, author = {Q R}, title = {Odd}, note = m # " x"}
'''
R_BIB2 = '''@string{m = "Other"}
@string{jan = "Janvier"}
@preamble{"P2"}
@article{k1, author = {Zed Zed}, title = {Second}, month = jan, note = m}
'''
R_BIB_COMMAS = '@misc{kc, author = {a, b, c, d}, title = {Commas}}\n'
R_BST = r'''ENTRY { author title year month } { } { label }
STRINGS { s t }
INTEGERS { nameptr numnames }
FUNCTION {format.names}
{ 's :=
  #1 'nameptr :=
  s num.names$ 'numnames :=
  "" 't :=
  { nameptr numnames #1 + < }
  { t s nameptr "{ff~}{vv~}{ll}{, jj}" format.name$ * "; " * 't :=
    nameptr #1 + 'nameptr := }
  while$
  t
}
FUNCTION {default.type}
{ "\bibitem{" cite$ * "}" * write$ newline$
  author format.names write$ newline$
  title "t" change.case$ month * write$ newline$ }
FUNCTION {article} { default.type }
FUNCTION {book} { default.type }
FUNCTION {misc} { default.type }
MACRO {jan} {"January"}
READ
ITERATE {call.type$}
'''
R_BST_BAD = 'ENTRY { author } { } { label }\nFUNCTION {misc} { undefined.function }\nFUNCTION {article} { undefined.function }\nFUNCTION {book} { undefined.function }\nREAD\nITERATE {call.type$}\n'

def _db_snapshot(db):
    ents = []
    for key, e in db.entries.items():
        ents.append((key, e.key, e.type, getattr(e, 'original_type', None), tuple(e.fields.items()),
                     tuple((r, tuple(tuple(tuple(x) for x in _person(p)) for p in ps)) for r, ps in e.persons.items())))
    w = getattr(db, 'wanted_entries', None)
    return repr((ents, list(db.preamble_list), sorted(w) if w is not None else None, sorted(db.citations), db.min_crossrefs))

class _LazyTexts(dict):
    def __init__(self, env):
        self.env = env
    def __missing__(self, f):
        self[f] = self.env.db.to_string(f); self.env.guard('to_string(%r)' % f)
        return self[f]

class _Env(object):
    def __init__(self, light=False):
        from pybtex.database import parse_string
        self.dir = None
        self.db = parse_string(R_BIB, 'bibtex')
        self.snap0 = _db_snapshot(self.db)
        self.modified = []
        self.texts = _LazyTexts(self)
        self.fresh = 0
        if light:
            return
        for f in ('bibtex', 'yaml', 'bibtexml'):
            self.texts[f]
        self.dir = tempfile.mkdtemp(prefix='c18_real_')
        for name, src in (('small', R_BST), ('bad', R_BST_BAD), ('nomacro', R_BST.replace('MACRO {jan} {"January"}\n', ''))):
            with open(os.path.join(self.dir, name + '.bst'), 'w') as f:
                f.write(src)
        self.bst = os.path.join(self.dir, 'small')
        self.badbst = os.path.join(self.dir, 'bad')
        self.nomacro = os.path.join(self.dir, 'nomacro')
        d = os.path.join(REPO, 'tests', 'data')
        self.unsrt = os.path.join(d, 'unsrt') if os.path.exists(os.path.join(d, 'unsrt.bst')) else None
    def close(self):
        if self.dir:
            shutil.rmtree(self.dir, ignore_errors=True)
    def guard(self, what):
        if _db_snapshot(self.db) != self.snap0:
            self.modified.append(what)
            self.snap0 = _db_snapshot(self.db)

def _dg(v):
    return hashlib.sha1(repr(v).encode('utf-8', 'replace')).hexdigest()[:16]

def _r_parse(fmt, text=None):
    def f(env):
        from pybtex.database import parse_string
        return _dg(_db_snapshot(parse_string(text if text is not None else env.texts[fmt], fmt)))
    return f
def _r_write(fmt):
    def f(env):
        s = env.db.to_string(fmt); env.guard('to_string(%r)' % fmt)
        return _dg(s)
    return f
def _r_format_py(style, backend, **kw):
    def f(env):
        import pybtex
        return _dg(pybtex.format_from_string(R_BIB, style=style, output_backend=backend, **kw))
    return f
def _r_format_py_db(env):
    from pybtex.plugin import find_plugin
    style = find_plugin('pybtex.style.formatting', 'alpha')()
    fb = style.format_bibliography(env.db); env.guard('format_bibliography')
    out = io.StringIO()
    find_plugin('pybtex.backends', 'html')().write_to_stream(fb, out); env.guard('backend.write_to_stream')
    return _dg(out.getvalue())
def _r_format_bst(bib, which='bst', capture=False):
    def f(env):
        import pybtex.bibtex, pybtex.errors as E
        style = getattr(env, which)
        if capture:
            with E.capture() as errs:      # a failing run raises through the with block
                r = pybtex.bibtex.format_from_string(bib, style=style)
            return _dg((r, [type(e).__name__ for e in errs]))
        return _dg(pybtex.bibtex.format_from_string(bib, style=style))
    return f
def _r_fresh_names(n):
    def f(env):
        from pybtex.bibtex.interpreter import Interpreter
        it = Interpreter(None, None)
        out = []
        for i in range(n):
            env.fresh += 1
            it.push('First%d Last%d' % (env.fresh, env.fresh)); it.push(1); it.push('{ll}, {f.}')
            it.vars['format.name$'].execute(it)
            out.append(it.pop())
        return _dg(len(out))
    return f
def _r_name_probe(env):
    from pybtex.bibtex.interpreter import Interpreter
    it = Interpreter(None, None)
    it.push('Ann Lee and Bob von Ray, Jr'); it.push(2); it.push('{vv~}{ll}{, jj}{, f.}')
    it.vars['format.name$'].execute(it)
    return _dg(it.pop())
def _r_fail_captured(env):
    import pybtex.errors as E
    from pybtex.database import parse_string
    with E.capture() as errs:
        db = parse_string('@article{k, title = }\n@book{k, author = {a, b, c, d}, x = undefinedmacro}', 'bibtex')
    return _dg((_db_snapshot(db), [type(e).__name__ for e in errs]))
def _r_strict(b):
    def f(env):
        import pybtex.errors as E
        E.set_strict_mode(b)
        return 'ok'
    return f
def _r_parser_opts(text, **kw):
    def f(env):
        from pybtex.database.input import bibtex as bt
        p = bt.Parser(**kw)
        return _dg(_db_snapshot(p.parse_string(text)))
    return f
R_BIB_KEYLESS = '@misc{title = {One}}\n@book{author = {Ann Lee}, title = {Two}}\n'
R_BIB_KEYLESS_BAD = '@misc{title = {One}}\n@misc{note = nosuchmacro}\n'
R_BIB_ROLES = '@misc{k, translator = {Ann Lee and Bob Ray}, author = {X Y}, note = {n}}\n'
def _r_lowlevel_interleaved(env):
    """two LowLevelParser iterators advanced alternately must yield what each yields alone"""
    from pybtex.database.input import bibtex as bt
    t1 = '@a{k1, x = {1}, y = "2"}\n@string{s = "S"}\n@b{k2, z = s}\n'
    t2 = '@preamble{"P"}\n@c{k3, u = {3}}\n@d{k4, v = jan # "4", w = 5}\n'
    alone = [list(bt.LowLevelParser(t1)), list(bt.LowLevelParser(t2))]
    its = [iter(bt.LowLevelParser(t1)), iter(bt.LowLevelParser(t2))]
    got = [[], []]
    live = [0, 1]
    while live:
        for i in list(live):
            try:
                got[i].append(next(its[i]))
            except StopIteration:
                live.remove(i)
    return 'consistent' if repr(got) == repr(alone) else 'INTERLEAVED READERS DIFFER: %r' % (got,)
def _r_readers_interleaved(env):
    """two Parser objects fed alternately must end up with what each gets alone"""
    from pybtex.database.input import bibtex as bt
    a = ['@string{m = "A"}\n@preamble{"pa"}\n@misc{title = m}\n', '@string{n = "N"}\n@preamble{"pa2" # n # m}\n']   # (a second keyless file would restart at unnamed-1 and collide)
    b = ['@string{m = "B"}\n@preamble{"pb"}\n@misc{k, translator = {T One}, note = m}\n', '@misc{k2, note = m, month = jan}\n']
    def run(order):
        pa, pb = bt.Parser(keyless_entries=True, wanted_entries=None), bt.Parser(person_fields=['translator'])
        for who, i in order:
            (pa if who == 'a' else pb).parse_string((a if who == 'a' else b)[i])
        return _db_snapshot(pa.data), _db_snapshot(pb.data), sorted(pa.macros.items()), sorted(pb.macros.items())
    alone = run([('a', 0), ('a', 1), ('b', 0), ('b', 1)])
    mixed = run([('a', 0), ('b', 0), ('a', 1), ('b', 1)])
    return 'consistent' if alone == mixed else 'INTERLEAVED READERS DIFFER'

def _r_lowlevel(env):
    from pybtex.database.input import bibtex as bt
    p = bt.Parser()
    return _dg(list(bt.LowLevelParser('@string{jan = "X"} @a{k, t = jan}', macros=p.macros)))

REAL_CALLS = collections.OrderedDict([
    ('parse_bibtex', _r_parse('bibtex', R_BIB)), ('parse_bibtex_other', _r_parse('bibtex', R_BIB2)),
    ('parse_yaml', _r_parse('yaml')), ('parse_bibtexml', _r_parse('bibtexml')),
    ('write_bibtex', _r_write('bibtex')), ('write_yaml', _r_write('yaml')), ('write_bibtexml', _r_write('bibtexml')),
    ('format_py_unsrt_latex', _r_format_py('unsrt', 'latex')), ('format_py_plain_text', _r_format_py('plain', 'text')),
    ('format_py_alpha_markdown', _r_format_py('alpha', 'markdown', abbreviate_names=True)),
    ('format_py_db_alpha_html', _r_format_py_db),
    ('format_bst_small', _r_format_bst(R_BIB)), ('format_bst_small_captured', _r_format_bst(R_BIB, capture=True)),
    ('format_bst_other', _r_format_bst(R_BIB2)), ('format_bst_commas_captured', _r_format_bst(R_BIB_COMMAS, capture=True)),
    ('format_bst_unsrt', _r_format_bst(R_BIB, which='unsrt')),
    ('format_bst_nomacro', _r_format_bst(R_BIB, which='nomacro')),   # the style defines no month macros: 'jan' is undefined, the run fails

    ('fresh_names_1100', _r_fresh_names(1100)), ('fresh_names_5', _r_fresh_names(5)), ('name_probe', _r_name_probe),
    ('fail_parse', _r_parse('bibtex', '@article{k, title = }')), ('fail_parse_undefined_macro', _r_parse('bibtex', '@a{k, t = nosuchmacro}')),
    ('fail_parse_captured', _r_fail_captured), ('fail_style', _r_format_py('nosuchstyle', 'latex')),
    ('fail_bst', _r_format_bst(R_BIB, which='badbst')), ('fail_bst_captured', _r_format_bst(R_BIB, which='badbst', capture=True)), ('fail_yaml', _r_parse('yaml', 'entries: [: : :')),
    ('nonstrict', _r_strict(False)), ('strict', _r_strict(True)), ('lowlevel_with_reader_macros', _r_lowlevel),
    # per-reader attributes a refactoring could hoist to class / module level: unnamed counter, person_fields,
    # wanted_entries / citations (a crossref adds to wanted_entries), data / preamble, parser cursors
    ('parse_keyless', _r_parser_opts(R_BIB_KEYLESS, keyless_entries=True)),
    ('fail_parse_keyless', _r_parser_opts(R_BIB_KEYLESS_BAD, keyless_entries=True)),
    ('parse_roles_custom', _r_parser_opts(R_BIB_ROLES, person_fields=['translator'])),
    ('parse_roles_default', _r_parser_opts(R_BIB_ROLES)),
    ('parse_wanted_k2', _r_parser_opts(R_BIB, wanted_entries=['K2'])),        # k2 cross-references k1: k1 becomes wanted too
    ('parse_wanted_k3', _r_parser_opts(R_BIB, wanted_entries=['k3'], min_crossrefs=1)),
    ('lowlevel_interleaved', _r_lowlevel_interleaved), ('readers_interleaved', _r_readers_interleaved),
])
REAL_PROBES = ['parse_bibtex', 'parse_yaml', 'write_bibtex', 'write_bibtexml', 'format_py_unsrt_latex', 'format_py_db_alpha_html',
               'format_bst_small', 'format_bst_small_captured', 'format_bst_nomacro', 'name_probe', 'fail_parse_captured',
               'parse_keyless', 'parse_roles_default', 'parse_roles_custom', 'parse_wanted_k2', 'parse_wanted_k3', 'lowlevel_interleaved', 'readers_interleaved']

def _r_call(env, name):
    import pybtex.io
    from pybtex.exceptions import PybtexError
    f = REAL_CALLS[name]
    if name == 'format_bst_unsrt' and not env.unsrt:
        return 'skipped'
    buf = io.StringIO(); old = pybtex.io.stderr; pybtex.io.stderr = buf
    try:
        try:
            r = f(env)
        except PybtexError as e:
            r = 'PybtexError:' + type(e).__name__
        except Exception as e:
            r = 'Exception:' + type(e).__name__
    finally:
        pybtex.io.stderr = old
    return (r, buf.getvalue().count('WARNING: '))

def _fresh_main():
    """run in a fresh interpreter (another hash seed): every probe once, printed as JSON"""
    env = _Env()
    try:
        print(json.dumps({p: _r_call(env, p) for p in REAL_PROBES}))
    finally:
        env.close()

def _run_real(history, probe):
    """-> list of failure strings"""
    import pybtex.errors as E
    from pybtex.database.input import bibtex as bt
    from pybtex.bibtex import builtins as B
    _reset(None)
    env = _Env()
    fails = []
    try:
        def probe_value():
            # the probe is a fixed computation, reporting mode included (the mode is a documented
            # setting that histories may switch): evaluate it in strict mode, then put the mode back
            saved = E.strict
            E.set_strict_mode(True)
            try:
                return _r_call(env, probe)
            finally:
                E.set_strict_mode(saved)
        vals = [probe_value()]
        for name in history:
            _r_call(env, name)
            vals.append(probe_value())
        if probe.endswith('_interleaved') and vals[0][0] != 'consistent':
            fails.append('probe %s: %s' % (probe, str(vals[0][0])[:200]))
        for i, v in enumerate(vals[1:]):
            if v != vals[0]:
                fails.append('probe %s gives %r after call %d (%s), %r at the start' % (probe, v, i, history[i], vals[0]))
                break
        if dict(bt.month_names) != MONTHS:
            fails.append('the predefined month macros were altered: %r' % sorted(set(bt.month_names.items()) ^ set(MONTHS.items()))[:4])
        if E.captured_errors is not None:
            fails.append('errors.captured_errors still set')
        if env.modified:
            fails.append('a database was modified by %s' % env.modified[0])
        for f in (B._format_name, B._split_names):
            c = _memo_cells(f)
            if c and (list(c[0].keys()) != list(c[1]) or (c[2] is not None and len(c[1]) > c[2].cell_contents)):
                fails.append('name cache out of shape: %d keys, %d in history' % (len(c[0]), len(c[1])))
        return fails, vals[0]
    finally:
        env.close()
        _reset(None)

class _Timeout(BaseException):
    """not an Exception: nothing between the guard and the guarded code may swallow it (core.call_impl
    catches Exception and would turn it into an ordinary 'crash' outcome of the call it interrupted)"""

class _Watchdog(object):
    """raise _Timeout in this process after `seconds` of its own CPU time (ITIMER_VIRTUAL / SIGVTALRM -- never wall
    clock: on a busy machine wall-clock limits fire on healthy code; SIGPROF is core.hang_guard's).  Only used
    around the end-to-end histories of extra_checks, which core's guard does not cover; the fn/arg wrappers rely on
    core.hang_guard.  A defect that makes shared state grow without bound must end in a report, not in a check
    that never returns."""
    def __init__(self, seconds):
        self.seconds = seconds
    def __enter__(self):
        import signal
        def handler(signum, frame):
            raise _Timeout('no result within %d s of CPU time' % self.seconds)
        self.old = signal.signal(signal.SIGVTALRM, handler)
        signal.setitimer(signal.ITIMER_VIRTUAL, self.seconds)
    def __exit__(self, *a):
        import signal
        signal.setitimer(signal.ITIMER_VIRTUAL, 0)
        signal.signal(signal.SIGVTALRM, self.old)
        return False

def _real_worker(job):
    try:
        with _Watchdog(90):
            return _real_worker_(job)
    except _Timeout as e:
        return (job[0], job[1], ['history followed by probe %s: %s (state growing without bound?)' % (job[1], e)], None)
    except BaseException as e:
        return (job[0], job[1], ['harness error %r %s' % (e, traceback.format_exc()[-600:])], None)

def _real_worker_(job):
    try:
        fails, v0 = _run_real(job[0], job[1])
        if fails:      # shrink: drop calls while it still fails
            h = list(job[0])
            i = 0
            while i < len(h):
                h2 = h[:i] + h[i + 1:]
                f2, _ = _run_real(h2, job[1])
                if f2:
                    h = h2; fails = f2
                else:
                    i += 1
            return (h, job[1], fails, v0)
        return (job[0], job[1], [], v0)
    except _Timeout:
        raise
    except BaseException as e:
        return (job[0], job[1], ['harness error %r %s' % (e, traceback.format_exc()[-600:])], None)

def extra_checks(ck, tier, rng):
    # 1. purity of the un-memoised name formatter (the model's assumption), sampled
    import pybtex.errors as E
    from pybtex.bibtex.names import format_name as fbn
    n = 0; fails = []
    for name in NAMEPOOL + ['a, b, c, d', 'N1 L1']:
        for fmt in FMTS:
            rs = []
            for _ in range(2):
                with E.capture() as errs:
                    r = call_impl(fbn, name, fmt)
                rs.append((r, [_errcode(e) for e in errs]))
            n += 1
            if rs[0] != rs[1]:
                fails.append(('format_bibtex_name(%r, %r)' % (name, fmt), 'two calls differ: %r' % (rs,), True))
    yield {'name': 'name_formatter_is_a_function', 'evaluations': n, 'failures': fails, 'info': 'assumption of the model (fmt table)'}
    # 2. end-to-end histories
    names = list(REAL_CALLS)
    jobs = []
    for pi, p in enumerate(REAL_PROBES):      # every call followed by every probe (quick: every second pair); every ordered pair before a probe (thorough)
        for ai, a in enumerate(names):
            if tier == 'thorough' or (pi + ai) % 3 == 0:
                jobs.append(([a], p))
    if tier == 'thorough':
        for p in REAL_PROBES[::2]:
            for a in names:
                for b in names:
                    if 'fresh_names_1100' not in (a, b):
                        jobs.append(([a, b], p))
    for i in range(60 if tier == 'quick' else 1500):
        h = [rng.choice(names) for _ in range(rng.choice([3, 5, 8]))]
        while h.count('fresh_names_1100') > 1:
            h.remove('fresh_names_1100')
        jobs.append((h, rng.choice(REAL_PROBES)))
    ctx = mp.get_context('fork')
    res = []
    pool = ctx.Pool(min(NPROC, 16))
    deadline = time.time() + (1800 if tier == 'quick' else 7200)     # wall clock: only against a real hang
    try:
        it = pool.imap_unordered(_real_worker, jobs)
        for _ in range(len(jobs)):
            try:
                res.append(it.next(timeout=max(1.0, deadline - time.time())))
            except mp.TimeoutError:
                res.append(([], 'all', ['%d of %d end-to-end histories did not finish within the time budget' % (len(jobs) - len(res), len(jobs))], None))
                break
    finally:
        pool.terminate(); pool.join()
    fails = []
    base = {}
    for h, p, fl, v0 in res:
        if v0 is not None:
            base.setdefault(p, set()).add(json.dumps(v0))
        for f in fl[:1]:
            fails.append(('history %r then probe %s' % (h, p), f, True))
    # 3. the same probes in a fresh interpreter under another hash seed
    env = dict(os.environ); env['PYTHONHASHSEED'] = '4242'
    pr = subprocess.run([sys.executable, '-B', '-c', 'import props.c18 as m; m._fresh_main()'], capture_output=True, text=True, env=env, timeout=1800)
    nfresh = 0
    try:
        fresh = json.loads(pr.stdout.strip().splitlines()[-1])
        for p, v in fresh.items():
            nfresh += 1
            got = base.get(p, set())
            if got and got != {json.dumps(v)}:
                fails.append(('probe %s in a fresh interpreter (PYTHONHASHSEED=4242)' % p, 'gives %r, in this process %r' % (v, sorted(got)[:2]), True))
    except Exception as e:
        fails.append(('fresh interpreter run', 'failed: %r %s' % (e, pr.stderr[-400:]), False))
    yield {'name': 'real_api_histories', 'evaluations': len(jobs) + nfresh, 'failures': fails[:6],
           'info': 'calls: %s; probes: %s; each probe repeated after every call of the history and compared with its first value and with a fresh interpreter under another hash seed; month_names, captured_errors, cache shape and a long-lived database snapshot checked after every history' % (', '.join(names), ', '.join(REAL_PROBES))}
    # 3b. the BibTeX engine with a style that has no MACRO command (its reader gets an EMPTY macro table): the @string
    #     definitions of the first .bib file must be visible in the second one (one \\bibdata, one reader), and no month
    #     macro may appear from nowhere
    import pybtex.bibtex
    _reset(None)
    env3 = _Env()
    efails = []
    nev = 0
    try:
        bib_a = '@string{acc = "Accumulated"}\n@misc{k0, author = {Q R}, title = "zero"}\n'
        bib_b = '@misc{k1, author = {Ann Lee}, title = acc # " title"}\n'
        bib_m = '@misc{k2, author = {Ann Lee}, title = {t}, month = jan}\n'
        for nm, txt in (('a', bib_a), ('b', bib_b), ('m', bib_m)):
            with open(os.path.join(env3.dir, nm + '.bib'), 'w') as f:
                f.write(txt)
        def via_aux(names):
            aux = os.path.join(env3.dir, 'doc.aux')
            with open(aux, 'w') as f:
                f.write('\\relax\n\\citation{*}\n\\bibstyle{%s}\n\\bibdata{%s}\n' % (env3.nomacro, ','.join(os.path.join(env3.dir, n) for n in names)))
            pybtex.bibtex.make_bibliography(aux)
            return open(os.path.join(env3.dir, 'doc.bbl')).read()
        runs = [('make_bibliography(\\bibdata{a,b})', lambda: via_aux(['a', 'b'])),
                ('format_from_strings([a, b])', lambda: pybtex.bibtex.format_from_strings([bib_a, bib_b], style=env3.nomacro)),
                ('format_from_files([a.bib, b.bib])', lambda: pybtex.bibtex.format_from_files([os.path.join(env3.dir, 'a.bib'), os.path.join(env3.dir, 'b.bib')], style=env3.nomacro))]
        for rep_ in range(2):
            for what, f in runs:
                nev += 1
                r = call_impl(f)
                if r[0] != 0 or 'Accumulated title' not in S(r[1]):
                    efails.append(('BibTeX engine, style without MACRO, %s (run %d)' % (what, rep_ + 1),
                                   'the @string of the first .bib file is not visible in the second: %s' % (S(r[1])[:160] if r[0] == 0 else 'raised'), True))
        nev += 1
        r = call_impl(lambda: pybtex.bibtex.format_from_strings([bib_a, bib_m], style=env3.nomacro))
        if r[0] == 0:
            efails.append(('BibTeX engine, style without MACRO, month = jan', 'the month macro was expanded although the style defines none: %s' % S(r[1])[:160], True))
    except Exception as e:
        efails.append(('engine_macros_accumulate', 'harness error %r' % (e,), False))
    finally:
        env3.close(); _reset(None)
    yield {'name': 'engine_macros_accumulate', 'evaluations': nev, 'failures': efails[:3],
           'info': 'two .bib files under one \\bibdata / format_from_strings / format_from_files with a .bst that has no MACRO command'}
    # 4. F19 through the public API (known finding): the same BibTeX-engine run twice inside capture()
    import pybtex.bibtex
    _reset(None)
    env2 = _Env()
    counts = []
    try:
        for _ in range(2):
            with E.capture() as errs:
                pybtex.bibtex.format_from_string(R_BIB_COMMAS, style=env2.bst)
            counts.append(len(errs))
    except Exception as e:
        counts = [repr(e), None]       # reported by real_api_histories where it matters
    finally:
        env2.close(); _reset(None)
    f19 = [('pybtex.bibtex.format_from_string(%r, style=<small .bst>) twice inside errors.capture()' % R_BIB_COMMAS,
            'F19-shape: reported problems %r' % counts, True)] if counts[0] != counts[1] and counts[1] is not None else []
    yield {'name': 'f19_public_api', 'evaluations': 2, 'failures': f19, 'info': 'reported problems per run: %r' % counts}

_old_sig = KNOWN_SIGNATURES['F19']
def _sig_f19(kind, fn, arg, detail):
    if kind == 'extra':
        return fn == 'f19_public_api' and isinstance(detail, str) and detail.startswith('F19-shape')
    return _old_sig(kind, fn, arg, detail)
KNOWN_SIGNATURES['F19'] = _sig_f19

# ========================================================================================
# fn 3: the real engines as ordinary cases.  arg = a list of call ids (indices into ENGINE_CALLS); the wrapper runs
# them in order in the worker's process and returns [id, digest of (output or exception, reports, warnings)] each.
# The property: a repeated call gives byte-identical output and identical reports, in this process, whatever ran
# before, and in a fresh interpreter (one forked child of a pristine interpreter per call, another hash seed).
E_DUP = r'''@article{knuth84a, author = {Donald E. Knuth}, title = {Literate Programming}, journal = {The Computer Journal}, year = 1984, volume = 27, number = 2, pages = {97--111}}
@book{knuth84b, author = {Knuth, Donald E.}, title = {The {\TeX}book}, publisher = {Addison-Wesley}, year = 1984}
@misc{knuth84c, author = {D. E. Knuth}, title = {A torture test for {\TeX}}, year = 1984, note = {Stanford report}}
@article{lamport86, author = {Leslie Lamport and Ann Lee}, title = {Document Production}, journal = {TUGboat}, year = 1986}
@article{knuth84d, author = {Donald E. Knuth}, title = {The complexity of songs}, journal = {Commun. ACM}, year = 1984, month = apr}
'''
E_PAT = r'''@book{two-eds, editor = {Ann Lee and Bob Ray}, title = {Edited by Two}, publisher = {P}, year = 2001}
@book{one-ed, editor = {Carl Moe}, title = {Edited by One}, publisher = {P}, year = 2002, volume = 3, series = {S}}
@book{authored, author = {Dora Noe}, title = {Authored}, publisher = {Q}, year = 2003, edition = {Second}}
@proceedings{proc-ed, editor = {Ed Itor}, title = {Proceedings With Editor}, year = 2004, publisher = {ACM}}
@proceedings{proc-noed, title = {Proceedings Without Editor}, year = 2005, organization = {Org}}
@article{art-full, author = {Fay Poe and Gus Roe and Hal Soe}, title = {Full Article}, journal = {J}, year = 2006, volume = 1, number = 2, pages = {3--4}, month = jan}
@article{art-min, author = {Ida Toe}, title = {Minimal article}, journal = {J}, year = 2007}
@inbook{inb, author = {Jo Voe}, title = {In a Book}, chapter = 5, publisher = {R}, year = 2008, pages = 10}
@techreport{tr, author = {Kay Woe}, title = {A Report}, institution = {Inst}, year = 2009, number = 7}
@phdthesis{phd, author = {Lou Xoe}, title = {A Thesis}, school = {Univ}, year = 2010, url = {http://example.org/x}}
'''
E_XREF = r'''@inproceedings{ip1, author = {Mia Yoe}, title = {First Paper}, crossref = {conf}, pages = {1--2}}
@inproceedings{ip2, author = {Ned Zoe and Mia Yoe}, title = {Second Paper}, crossref = {conf}, pages = {3--4}}
@proceedings{conf, editor = {Ola Abe}, title = {The Conference}, booktitle = {Proc. of the Conference}, year = 2011, publisher = {ACM}}
@incollection{ic, author = {Pia Bee}, title = {A Chapter}, crossref = {coll}}
@book{coll, editor = {Quin Cee and Ria Dee}, title = {The Collection}, booktitle = {The Collection}, publisher = {S}, year = 2012}
'''
E_MISSING = r'''@article{nojournal, author = {Sam Eee}, title = {No journal}, year = 2013}
@book{nopublisher, author = {Tia Fee}, title = {No publisher}, year = 2014}
@proceedings{noyear, title = {No year}}
@misc{empty}
'''
ENGINE_DBS = [('dup', E_DUP), ('patterns', E_PAT), ('xref', E_XREF), ('missing', E_MISSING)]
PY_STYLES = ['unsrt', 'plain', 'alpha', 'unsrtalpha']
PY_VARIANTS = [('latex', {}), ('html', {'abbreviate_names': True}), ('text', {'name_style': 'lastfirst', 'sorting_style': 'none'}),
               ('markdown', {'label_style': 'alpha', 'sorting_style': 'author_year_title'}), ('latex', {'label_style': 'number', 'name_style': 'plain'})]
BSTS = ['plain', 'unsrt', 'alpha', 'unsrt_mixed', 'IEEEtran', 'apacite', 'jurabib']

def _bst_dir():
    for d in (os.path.join(REPO, 'tests', 'data'), '/repo/tests/data'):
        if os.path.exists(os.path.join(d, 'plain.bst')):
            return d
    return None

def _engine_calls():
    calls = []
    for dn, _ in ENGINE_DBS:
        for st in PY_STYLES:
            for vi, (be, kw) in enumerate(PY_VARIANTS):
                calls.append(('py', dn, st, vi, 0))
        for st in PY_STYLES:
            calls.append(('py', dn, st, 0, 1))              # the same inside errors.capture(): reports are part of the result
    for dn, _ in ENGINE_DBS:
        for b in BSTS:
            calls.append(('bst', dn, b, 0, 1))
        calls.append(('bst', dn, 'plain', 0, 0))
    for dn, _ in ENGINE_DBS:
        for fmt in ('bibtex', 'yaml', 'bibtexml'):
            calls.append(('write', dn, fmt, None, 0))
            for enc in ('utf-8', 'latin-1', 'ascii'):
                calls.append(('write', dn, fmt, enc, 0))
            calls.append(('read', dn, fmt, None, 0))
    return calls

# ---- generated .bst files (a style is identified by what its file says NOW, under the encoding asked for, in the
#      directory it is resolved in) and object histories (one parsed database object used for several calls)
GEN_BST = """ENTRY { title } { } { label }
FUNCTION {misc} { "%s " title * write$ newline$ }
READ
ITERATE {call.type$}
"""
GEN_BIB = '@misc{k, title = {T}}\n'
O_BIB = r'''@inproceedings{a, author = {Ann Lee}, title = {Paper A}, crossref = {conf}, pages = {1--2}}
@inproceedings{b, author = {Bob Ray}, title = {Paper B}, crossref = {conf}, pages = {3--4}}
@inproceedings{c, author = {Cy Moe}, title = {Paper C}, crossref = {conf2}}
@InProceedings{D, author = {Di Noe}, title = {Paper D}, crossref = {conf2}}
@proceedings{conf, editor = {Ed Itor}, title = {Conference One}, booktitle = {Proc. One}, year = 2001, publisher = {P}}
@proceedings{conf2, editor = {Flo Poe}, title = {Conference Two}, booktitle = {Proc. Two}, year = 2002, publisher = {P}}
@article{e, author = {Gus Roe}, title = {Alone}, journal = {J}, year = 2003}
'''
def _obj_subcalls():
    subs = []
    for cits in (['a'], ['b'], ['a', 'b'], ['c'], ['c', 'D'], ['a', 'c', 'e'], ['*']):
        for mc in (1, 2, 3):
            subs.append(('extra', cits, mc))
    for st in ('unsrt', 'alpha'):
        for cits in (['a'], ['b'], ['a', 'b'], ['c', 'e'], None):
            for mc in (1, 2):
                subs.append(('format', st, cits, mc))
    for fmt in ('bibtex', 'yaml', 'bibtexml'):
        subs.append(('write', fmt, None)); subs.append(('write', fmt, 'utf-8'))
    subs += [('lower',), ('pickle',), ('eq',), ('repr',)]
    return subs
OBJ_SUBCALLS = _obj_subcalls()
def _obj_histories():
    r = random.Random(18)
    ex = [i for i, c in enumerate(OBJ_SUBCALLS) if c[0] == 'extra']
    fm = [i for i, c in enumerate(OBJ_SUBCALLS) if c[0] == 'format']
    idx = lambda c: OBJ_SUBCALLS.index(c)
    hs = [[idx(('extra', ['a'], 2)), idx(('extra', ['b'], 2))],
          [idx(('format', 'unsrt', ['a'], 2)), idx(('format', 'unsrt', ['b'], 2))],
          [idx(('extra', ['c'], 2)), idx(('format', 'alpha', ['a'], 2)), idx(('extra', ['c', 'D'], 3)), idx(('extra', ['c'], 2))],
          [idx(('format', 'unsrt', None, 2)), idx(('write', 'bibtex', None)), idx(('lower',)), idx(('pickle',)), idx(('extra', ['a'], 2))]]
    for k in range(20):
        hs.append([r.choice(ex + fm) if r.random() < 0.7 else r.randrange(len(OBJ_SUBCALLS)) for _ in range(r.choice([2, 3, 4, 6]))])
    return hs
OBJ_HISTORIES = _obj_histories()
# ---- file-based operations whose format is guessed from the file name (one suffix, several plugin groups) and
#      .aux-driven runs over several documents whose citation keys overlap up to letter case
FILE_SUFFIXES = [('.bib', 'bibtex'), ('.yaml', 'yaml'), ('.bibyaml', 'yaml'), ('.xml', 'bibtexml'), ('.bibtexml', 'bibtexml')]
FILE_CALLS = [('parse', s_) for s_, _ in FILE_SUFFIXES] + [('write', s_) for s_, _ in FILE_SUFFIXES] + \
             [('convert', (s1, s2)) for s1, _ in FILE_SUFFIXES for s2, _ in FILE_SUFFIXES if s1 != s2]
AUX_DOCS = [['knuth84a', 'lamport86'], ['KNUTH84A,Lamport86', 'knuth84b'], ['Knuth84a', 'knuth84c', 'Knuth84a'], ['*'],
            ['knuth84a', 'Knuth84A'], ['LAMPORT86', 'knuth84d,KNUTH84B']]
AUX_CALLS = [(k, d) for k in ('parse', 'bibtex', 'python') for d in range(len(AUX_DOCS))]

_CASE_TMP = [None, 0]
def _mk_tmp(prefix):
    """a directory for one call: inside the case's own temporary directory when there is one"""
    if _CASE_TMP[0] is None:
        return tempfile.mkdtemp(prefix=prefix)
    _CASE_TMP[1] += 1
    d = os.path.join(_CASE_TMP[0], '%s%d' % (prefix, _CASE_TMP[1]))
    os.mkdir(d)
    return d

def _run_file(op, suf):
    import pybtex.database as D
    from pybtex.database.convert import convert
    fmt = dict(FILE_SUFFIXES)
    d = _mk_tmp('c18_file_')
    try:
        db = D.parse_string(E_DUP, 'bibtex')
        if op == 'write':
            n = os.path.join(d, 'out' + suf)
            db.to_file(n)                                   # bib_format=None: guessed from the name
            return open(n, 'rb').read()
        src_suf = suf if op == 'parse' else suf[0]
        src = os.path.join(d, 'in' + src_suf)
        with open(src, 'w', encoding='utf-8') as f:
            f.write(db.to_string(fmt[src_suf]))
        if op == 'parse':
            return _db_snapshot(D.parse_file(src))            # bib_format=None
        dst = os.path.join(d, 'out' + suf[1])
        convert(src, dst)
        return open(dst, 'rb').read()
    finally:
        shutil.rmtree(d, ignore_errors=True)

def _run_aux(kind, doc):
    import pybtex, pybtex.bibtex
    from pybtex import auxfile
    d = _mk_tmp('c18_aux_')
    try:
        with open(os.path.join(d, 'refs.bib'), 'w') as f:
            f.write(E_DUP)
        bd = _bst_dir()
        style = 'unsrt' if kind == 'python' or bd is None else os.path.join(bd, 'plain')
        aux = os.path.join(d, 'doc%d.aux' % doc)
        with open(aux, 'w') as f:
            f.write('\\relax\n' + ''.join('\\citation{%s}\n' % c for c in AUX_DOCS[doc]) + '\\bibstyle{%s}\n\\bibdata{%s}\n' % (style, os.path.join(d, 'refs')))
        if kind == 'parse':
            a = auxfile.parse_file(aux)
            return repr((a.citations, a.style, [os.path.basename(x) for x in a.data]))
        (pybtex.bibtex if kind == 'bibtex' and bd is not None else pybtex).make_bibliography(aux)
        return open(os.path.join(d, 'doc%d.bbl' % doc)).read()
    finally:
        shutil.rmtree(d, ignore_errors=True)

GEN_SCENARIOS = [('cwd', 0), ('cwd', 1), ('cwd', 2), ('rewrite', 0), ('rewrite', 1), ('encoding', 'latin-1'), ('encoding', 'cp1251'), ('encoding', 'cp437')]
ENGINE_CALLS = _engine_calls() + [('genbst', sc, v, None, 0) for sc, v in GEN_SCENARIOS] + [('obj', 'O', k, None, 0) for k in range(len(OBJ_HISTORIES))] + \
               [('file', op, suf, None, 0) for op, suf in FILE_CALLS] + [('aux', k, d, None, c) for k, d in AUX_CALLS for c in (0, 1) if c == 0 or d in (1, 4)]

def _obj_apply(db, sub):
    """one call on a database object -> a printable result"""
    import pickle
    from pybtex.plugin import find_plugin
    from pybtex.database import parse_string
    k = sub[0]
    if k == 'extra':
        return list(db.add_extra_citations(list(sub[1]), sub[2]))
    if k == 'format':
        style = find_plugin('pybtex.style.formatting', sub[1])(min_crossrefs=sub[3])
        fb = style.format_bibliography(db, None if sub[2] is None else list(sub[2]))
        out = io.StringIO()
        find_plugin('pybtex.backends', 'text')().write_to_stream(fb, out)
        return out.getvalue()
    if k == 'write':
        return db.to_string(sub[1]) if sub[2] is None else db.to_bytes(sub[1], encoding=sub[2])
    if k == 'lower':
        return _db_snapshot(db.lower())
    if k == 'pickle':
        return _db_snapshot(pickle.loads(pickle.dumps(db)))
    if k == 'eq':
        return db == parse_string(O_BIB, 'bibtex')
    return repr(db)

def _run_obj(hist):
    """ONE parsed database object through the calls of the history; each result must be what the same call gives on a
    freshly parsed copy of the source (the object was used, not modified -- also not invisibly)"""
    from pybtex.database import parse_string
    db = parse_string(O_BIB, 'bibtex')
    res = []
    for pos, si in enumerate(hist):
        sub = OBJ_SUBCALLS[si]
        got = call_impl(_obj_apply, db, sub)
        want = call_impl(_obj_apply, parse_string(O_BIB, 'bibtex'), sub)
        if got != want:
            return 'BAD call %d of the object history, %r: on the used object it gives %s, on a freshly parsed copy %s' % (
                pos, sub, S(got[1])[:120] if got[0] == 0 and isinstance(got[1], list) else got, S(want[1])[:120] if want[0] == 0 and isinstance(want[1], list) else want)
        res.append(got)
    return res

def _run_genbst(scenario, v):
    import pybtex.bibtex
    d = _mk_tmp('c18_bst_')
    cwd = os.getcwd()
    try:
        os.chdir(d)
        if scenario == 'cwd':          # 'house.bst' resolved in the working directory: every call has its own directory and text
            with open('house.bst', 'w') as f:
                f.write(GEN_BST % ('variant%d' % v))
            out = pybtex.bibtex.format_from_string(GEN_BIB, style='house')
            return out if 'variant%d T' % v in out else 'BAD the style in this directory writes variant%d, the run printed %r' % (v, out)
        if scenario == 'rewrite':      # the same path, rewritten between two runs
            outs = []
            for k in (v, v + 5, v):
                with open('rw.bst', 'w') as f:
                    f.write(GEN_BST % ('text%d' % k))
                outs.append(pybtex.bibtex.format_from_string(GEN_BIB, style=os.path.join(d, 'rw')))
                if 'text%d T' % k not in outs[-1]:
                    return 'BAD the style file was rewritten to print text%d, the run printed %r' % (k, outs[-1])
            return outs
        # the same bytes read under the encoding asked for
        with open('enc.bst', 'wb') as f:
            f.write((GEN_BST % 'X@X').encode('ascii').replace(b'@', b'\xe9'))
        out = pybtex.bibtex.format_from_string(GEN_BIB, style='enc', bst_encoding=v)
        want = b'\xe9'.decode(v)
        return out if 'X%sX T' % want in out else 'BAD read with bst_encoding=%s the literal is X%sX, the run printed %r' % (v, want, out)
    finally:
        os.chdir(cwd)
        shutil.rmtree(d, ignore_errors=True)

def _engine_run(cid):
    import pybtex, pybtex.bibtex, pybtex.errors as E, pybtex.io
    from pybtex.database import parse_string
    kind, dn, a, b, cap = ENGINE_CALLS[cid % len(ENGINE_CALLS)]
    text = dict(ENGINE_DBS).get(dn)
    def body():
        if kind == 'genbst':
            return _run_genbst(dn, a)
        if kind == 'file':
            return _run_file(dn, a)
        if kind == 'aux':
            return _run_aux(dn, a)
        if kind == 'obj':
            return _run_obj(OBJ_HISTORIES[a])
        if kind == 'py':
            be, kw = PY_VARIANTS[b]
            return pybtex.format_from_string(text, style=a, output_backend=be, **kw)
        if kind == 'bst':
            d = _bst_dir()
            if d is None:
                return 'no .bst files available'
            return pybtex.bibtex.format_from_string(text, style=os.path.join(d, a))
        db = parse_string(text, 'bibtex')
        if kind == 'write':
            return db.to_string(a) if b is None else db.to_bytes(a, encoding=b)
        return _db_snapshot(parse_string(db.to_string(a), a))
    buf = io.StringIO(); old = pybtex.io.stderr; pybtex.io.stderr = buf
    obuf = io.StringIO(); oldo = pybtex.io.stdout; pybtex.io.stdout = obuf
    reports = []
    try:
        try:
            if cap:
                with E.capture() as errs:
                    reports = errs
                    r = ('ok', body())
            else:
                r = ('ok', body())
        except Exception as e:
            r = ('raised', type(e).__name__, str(e)[:300])
    finally:
        pybtex.io.stderr = old; pybtex.io.stdout = oldo
    if r[0] == 'ok' and isinstance(r[1], str) and r[1].startswith('BAD '):
        return r[1][:400]
    return _dg((r, [(type(e).__name__, str(e)[:200]) for e in reports], buf.getvalue(), obuf.getvalue()))

_ENGINE_LOG = []
_HIST_CACHE = {}
def impl_engines(arg):
    if True:
        _reset(None)
        out = []
        _CASE_TMP[0] = tempfile.mkdtemp(prefix='c18_case_') if any(ENGINE_CALLS[c % len(ENGINE_CALLS)][0] in ('file', 'aux', 'genbst') for c in arg) else None
        try:
            for cid in arg:
                out.append([cid, _engine_run(cid)])
                if cid not in _ENGINE_LOG[-40:]:
                    _ENGINE_LOG.append(cid)
        finally:
            if _CASE_TMP[0]:
                shutil.rmtree(_CASE_TMP[0], ignore_errors=True)
            _CASE_TMP[0] = None
        _reset(None)
        return norm(out)

_FRESH = {}
def _fresh_one(cid):
    if isinstance(cid, list):          # a history: every call in order in this one child; the digests
        return cid, [_engine_run(c) for c in cid]
    return cid, _engine_run(cid)
def _fresh_engine_main():
    """in a pristine interpreter: every requested engine call in its own forked child"""
    import pybtex, pybtex.bibtex, pybtex.database      # imported before forking; nothing has run
    ids = json.loads(os.environ.get('C18_FRESH_IDS', 'null')) or list(range(len(ENGINE_CALLS)))
    ctx = mp.get_context('fork')
    with ctx.Pool(min(NPROC, 16), maxtasksperchild=1) as pool:
        res = pool.map(_fresh_one, ids, chunksize=1)
    print(json.dumps([[k, v] for k, v in res]))
def _hermetic(histories):
    """each history (list of call ids) in its own forked child of a pristine interpreter -> list of digest lists"""
    env = dict(os.environ); env['PYTHONHASHSEED'] = '4242'; env['C18_FRESH_IDS'] = json.dumps(histories)
    pr = subprocess.run([sys.executable, '-B', '-c', 'import props.c18 as m; m._fresh_engine_main()'], capture_output=True, text=True, env=env, timeout=1800)
    return [v for k, v in json.loads(pr.stdout.strip().splitlines()[-1])]
def _fresh_table(ids=None):
    want = [i for i in (ids if ids is not None else range(len(ENGINE_CALLS))) if i not in _FRESH]
    if want and -1 not in _FRESH:
        env = dict(os.environ); env['PYTHONHASHSEED'] = '4242'; env['C18_FRESH_IDS'] = json.dumps(want)
        pr = subprocess.run([sys.executable, '-B', '-c', 'import props.c18 as m; m._fresh_engine_main()'], capture_output=True, text=True, env=env, timeout=1800)
        try:
            _FRESH.update((int(k), v) for k, v in json.loads(pr.stdout.strip().splitlines()[-1]))
        except Exception as e:
            _FRESH[-1] = 'fresh interpreter failed: %r %s' % (e, pr.stderr[-300:])
    return _FRESH

def _engine_name(cid):
    kind, dn, a, b, cap = ENGINE_CALLS[cid % len(ENGINE_CALLS)]
    if kind == 'genbst':
        return 'BibTeX engine with a generated style: scenario %s, %r' % (dn, a)
    if kind == 'file':
        return {'parse': 'pybtex.database.parse_file(in%s)', 'write': 'db.to_file(out%s)'}.get(dn, 'convert(in%s, out%s)') % a + ' (format guessed from the name)'
    if kind == 'aux':
        return {'parse': 'auxfile.parse_file', 'bibtex': 'pybtex.bibtex.make_bibliography', 'python': 'pybtex.make_bibliography'}[dn] + '(.aux citing %r)' % (AUX_DOCS[a],) + (' inside errors.capture()' if cap else '')
    if kind == 'obj':
        return 'one database object through %r' % ([OBJ_SUBCALLS[i] for i in OBJ_HISTORIES[a]],)
    if kind == 'py':
        s_ = 'pybtex.format_from_string(<%s>, style=%r, output_backend=%r, %r)' % (dn, a, PY_VARIANTS[b][0], PY_VARIANTS[b][1])
    elif kind == 'bst':
        s_ = 'pybtex.bibtex.format_from_string(<%s>, style=tests/data/%s.bst)' % (dn, a)
    elif kind == 'write':
        s_ = 'parse_string(<%s>).%s(%r)' % (dn, 'to_string' if b is None else 'to_bytes', a) + ('' if b is None else ' encoding=%s' % b)
    else:
        s_ = 'parse_string(parse_string(<%s>).to_string(%r), %r)' % (dn, a, a)
    return s_ + (' inside errors.capture()' if cap else '')

def _failing_history(arg, i, fresh):
    """the concrete history behind a deviation: the shortest of (this case up to the call; one earlier call of this
    process + the call) that reproduces the deviation when run from a pristine interpreter"""
    a = arg[i] % len(ENGINE_CALLS)
    key = (a, tuple(arg[:i]))
    if key not in _HIST_CACHE:
        earlier = []
        for x in list(arg[:i]) + _ENGINE_LOG[::-1]:
            if x != a and x not in earlier:
                earlier.append(x)
        cands = [[x, a] for x in earlier[:30]] + ([list(arg[:i + 1])] if i else [])
        found = None
        try:
            for h, r in zip(cands, _hermetic(cands)):
                if r and r[-1] != fresh[a]:
                    found = h
                    break
        except Exception as e:
            found = None
        _HIST_CACHE[key] = found
    h = _HIST_CACHE[key]
    if h is None:
        return '; no two-call history from a fresh interpreter reproduces it (earlier calls of this process: %r)' % ([_engine_name(x) for x in _ENGINE_LOG[-6:]],)
    return '; FAILING HISTORY, reproduced from a fresh interpreter: ' + ' ; THEN '.join(_engine_name(x) for x in h)

def oracle_engines(arg, out):
    fails = []
    first = {}
    fresh = _fresh_table([cid % len(ENGINE_CALLS) for cid, _ in out])
    if -1 in fresh:
        return [('fresh-interpreter', str(fresh[-1]))]
    for i, (cid, dg) in enumerate(out):
        d = S(dg)
        if d.startswith('BAD '):
            fails.append(('engine-selfcheck', 'call %d (%s): %s' % (i, _engine_name(cid), d[4:])))
        if cid in first and first[cid][1] != d:
            fails.append(('engine-repeat', 'call %d repeats call %d (%s) but its output or reports differ' % (i, first[cid][0], _engine_name(cid))))
        first.setdefault(cid, (i, d))
        if cid % len(ENGINE_CALLS) in fresh and fresh[cid % len(ENGINE_CALLS)] != d:
            fails.append(('engine-fresh', 'call %d (%s) gives another output or other reports than in a fresh interpreter%s' % (i, _engine_name(cid), _failing_history(arg, i, fresh))))
    return fails

FUNCS[3] = ('real engines: Python engine x styles x options x back ends, BibTeX engine x shipped .bst, writers, readers', impl_engines, ('L', 'N'))

_oracle_all_12 = oracle_all
def oracle_all(fn, arg, out):
    if fn == 3:
        return oracle_engines(arg, out)
    return _oracle_all_12(fn, arg, out)

_canon_12 = canon
def canon(fn, out):
    if fn != 3:
        return _canon_12(fn, out)
    res = []
    seen = []
    for i, (cid, v) in enumerate(out):
        if isinstance(v, int):
            res.append([cid, v])
        else:
            j = next((k for k, (c2, v2) in enumerate(seen) if c2 == cid and v2 == v), i)
            res.append([cid, j])
        seen.append((cid, v))
    return res

_describe_12 = describe
def describe(fn, arg):
    if fn == 3:
        return {'calls': [_engine_name(c) for c in arg]}
    return _describe_12(fn, arg)

_nontrivial_12 = nontrivial
def nontrivial(fn, arg, out):
    return len(arg) >= 2 if fn == 3 else _nontrivial_12(fn, arg, out)

_gen_12 = gen
def gen(tier, rng):
    for x in _gen_12(tier, rng):
        yield x
    n = len(ENGINE_CALLS)
    dbi = dict((d[0], k) for k, d in enumerate(ENGINE_DBS))
    heavy = set(i for i, c in enumerate(ENGINE_CALLS) if c[0] == 'bst' and c[2] in ('IEEEtran', 'apacite', 'jurabib'))
    def in_quick(i):
        """the quick tier's selection: every (database, style) of the Python engine with a rotating option set, also
        inside capture(); half of the light .bst runs, a third of the rest"""
        kind, dn, a, b, cap = ENGINE_CALLS[i]
        if kind in ('genbst', 'file', 'aux'):
            return True
        if kind == 'obj':
            return a < 4 or a % 2 == 0
        if kind == 'py':
            return (cap == 1 and dn in ('dup', 'missing')) or (cap == 0 and b == (dbi[dn] + PY_STYLES.index(a)) % len(PY_VARIANTS))
        if kind == 'bst':
            return (i % 3 == 0) if i in heavy else (i % 2 == 0)
        return i % 4 == 0 if kind == 'write' else i % 2 == 0
    sel = [i for i in range(n) if tier == 'thorough' or in_quick(i)]
    _fresh_table(sel)          # in the parent, before the workers are forked
    for i in sel:                                        # the same database twice
        if tier == 'thorough' or ENGINE_CALLS[i][0] not in ('file', 'aux', 'write', 'read'):
            yield ('engines_twice', 3, [i, i])
    # the same style / .bst / writer on ANOTHER database first (state keyed on the style, the entry type, ...), then this one
    gb = [i for i in sel if ENGINE_CALLS[i][0] == 'genbst']
    for a in gb:                                         # the same style NAME, another directory / text / encoding first
        for b in gb:
            if a != b and ENGINE_CALLS[a][1] == ENGINE_CALLS[b][1]:
                yield ('engines_after_other', 3, [b, a])
    fl = [i for i in sel if ENGINE_CALLS[i][0] == 'file']
    def sufs(i):
        x = ENGINE_CALLS[i][2]
        return set(x) if isinstance(x, tuple) else {x}
    for b in fl:                                         # one suffix, looked up in several plugin groups, in both orders
        for a in fl:
            if a != b and sufs(a) & sufs(b) and (ENGINE_CALLS[b][1] != 'convert' or tier == 'thorough') and (tier == 'thorough' or (ENGINE_CALLS[a][1] != 'convert' and ENGINE_CALLS[a][1] != ENGINE_CALLS[b][1]) or (ENGINE_CALLS[a][1] == 'convert' and (a + b) % 4 == 0)):
                yield ('engines_after_other', 3, [b, a])
    ax = [i for i in sel if ENGINE_CALLS[i][0] == 'aux']
    for b in ax:                                         # several documents in one process; keys overlapping up to letter case
        for a in ax:
            if ENGINE_CALLS[a][2] != ENGINE_CALLS[b][2] and (tier == 'thorough' or ENGINE_CALLS[a][1] == ENGINE_CALLS[b][1] or ENGINE_CALLS[b][1] == 'parse') and (tier == 'thorough' or (ENGINE_CALLS[a][4] == 0 and ENGINE_CALLS[b][4] == 0 and ((ENGINE_CALLS[a][1] == 'parse' and ENGINE_CALLS[b][1] == 'parse' and (a + b) % 2 == 1) or (ENGINE_CALLS[a][1] != 'parse' or ENGINE_CALLS[b][1] != 'parse') and (a + b) % 3 == 0))):
                yield ('engines_after_other', 3, [b, a])
    groups = {}
    for i in sel:
        c = ENGINE_CALLS[i]
        if c[0] in ('genbst', 'obj', 'file', 'aux'):
            continue
        groups.setdefault((c[0], c[2]) if tier == 'quick' else (c[0], c[2], c[3], c[4]), []).append(i)
    for key, ids in sorted(groups.items(), key=repr):
        for a in ids:
            for b in ids:
                if ENGINE_CALLS[a][1] != ENGINE_CALLS[b][1] and (tier == 'thorough' or ENGINE_CALLS[a][4] == ENGINE_CALLS[b][4] or ENGINE_CALLS[a][0] != 'py'):
                    if tier == 'thorough' or (ENGINE_CALLS[a][0] == 'py' and ENGINE_CALLS[a][4] == 0 and (dbi[ENGINE_CALLS[a][1]] + dbi[ENGINE_CALLS[b][1]]) % 2 == 1) or (ENGINE_CALLS[a][0] != 'py' and (a + b) % 3 == 0):
                        yield ('engines_after_other', 3, [b, a, b, a] if tier == 'thorough' and ENGINE_CALLS[a][0] == 'py' else [b, a])
    for k in range(12 if tier == 'quick' else 300):      # mixed histories
        pool = [i for i in sel if i not in heavy or tier == 'thorough' or rng.random() < 0.1]
        yield ('engines_random', 3, [rng.choice(pool) for _ in range(rng.choice([3, 5, 8]))])
