# C08 -- rich text behaves like a string of (character, markup) pairs.
# Model: coq/Model/RichText.v (+ Model/RtTypes.v); theorems: coq/Props/C08.v
#
# A case is an *expression* over the public API of pybtex.richtext (constructors and methods
# applied on top of one another), encoded as nested integer lists:
#   (0 s) str/String  (1 name) Symbol  (2 parts) Text  (3 name parts) Tag  (4 url ext parts) HRef
#   (5 parts) Protected  (6) an int (malformed part)
#   (7 mode url ext parts) HRef with the url given as String(url) [1] / Text(url) [2] / Text(url[:k], url[k:]) [3]
#   (8 mode name parts) Tag with the name given as Text(name) [2] / Text(name[:k], name[k:]) [3]
#   (10 e) upper (11 e) lower (12 e) capitalize (13 e) capfirst (14 e p) add_period(p) (15 e) abbreviate
#   (16 e i j) e[i:j] (i, j options)  (17 e i) e[i]  (18 a b) a + b  (19 a b) a.append(b)
#   (20 sep es) sep.join(es)  (21 e sep keep k) e.split(sep, keep)[k]
#   (22 a x) b = a; b += x   (23 opname a x) b = a; b <opname>= x for any other in-place operator (oracle only)
#   (24 a x) a[0] = x   (25 a) del a[0]   (oracle only: texts are immutable, both must raise)
# separators: (0) None  (1 s) str  (2) textutils.delimiter_re  (3) an int (malformed)
# A value is observed as [structure dump, flat, str(), len()], flat = what a tracing back end
# (RenderType = list of (atom, markup stack)) renders.
import itertools, random, warnings, operator
from core import *
import core

ID = 'C08'

# ------------------------------------------------------------------------------------------
# implementation side

_BACKEND = None
def backend():
    global _BACKEND
    if _BACKEND is None:
        from pybtex.backends import BaseBackend
        class Syms(dict):
            def __missing__(self, name):
                return [[[1, norm(name)], []]]
        class Trace(BaseBackend):
            RenderType = list
            symbols = Syms()
            def format_str(self, s):
                return [[[0, ord(c)], []] for c in s]
            def format_tag(self, name, text):
                return [[a, [[0, norm(name)]] + ms] for a, ms in text]
            def format_href(self, url, text, external=False):
                return [[a, [[1, norm(url), 1 if external else 0]] + ms] for a, ms in text]
            def format_protected(self, text):
                return [[a, [[2]] + ms] for a, ms in text]
            def render_sequence(self, seq):
                return [p for item in seq for p in item]
        _BACKEND = Trace('utf-8')
    return _BACKEND

def dump(o):
    import pybtex.richtext as R
    t = type(o)
    if t is R.String: return [0, norm(o.value)]
    if t is R.Symbol: return [1, norm(o.name)]
    if t is R.Text: return [2, [dump(p) for p in o.parts]]
    if t is R.Tag: return [3, norm(o.name), [dump(p) for p in o.parts]]
    if t is R.HRef: return [4, norm(o.url), 1 if o.external else 0, [dump(p) for p in o.parts]]
    if t is R.Protected: return [5, [dump(p) for p in o.parts]]
    if isinstance(o, str): return [0, norm(o)]
    return [6]

def val(o):
    return [dump(o), o.render(backend()), norm(str(o)), len(o)]

class Raised(Exception):
    pass

def pysep(sp):
    from pybtex import textutils
    if sp[0] == 0: return None
    if sp[0] == 1: return S(sp[1])
    if sp[0] == 2: return textutils.delimiter_re
    return 42

def pykeep(k):
    return None if not k else bool(k[0])

def pyopt(o):
    return None if not o else o[0]

def needles(l):
    l = [S(x) for x in l]
    return l[0] if len(l) == 1 else tuple(l)

def _strobj(u, mode):
    """a url / tag name as the str itself or as a rich-text object (the documented alternative)"""
    import pybtex.richtext as R
    if mode == 1: return R.String(u)
    if mode == 2: return R.Text(u)
    if mode == 3: return R.Text(u[:len(u) // 2], u[len(u) // 2:])
    return u

def apply_node(op, params, objs):
    """one API call on already-built operand objects"""
    import pybtex.richtext as R
    if op == 2: return R.Text(*objs)
    if op == 3: return R.Tag(_strobj(S(params[0]), params[1] if len(params) > 1 else 0), *objs)
    if op == 4: return R.HRef(_strobj(S(params[0]), params[2] if len(params) > 2 else 0), *objs, external=bool(params[1]))
    if op == 5: return R.Protected(*objs)
    x = objs[0]
    if op == 10: return x.upper()
    if op == 11: return x.lower()
    if op == 12: return x.capitalize()
    if op == 13: return x.capfirst()
    if op == 14: return x.add_period(S(params[0]))
    if op == 15: return x.abbreviate()
    if op == 16: return x[slice(pyopt(params[0]), pyopt(params[1]))]
    if op == 17: return x[params[0]]
    if op == 18: return x + objs[1]
    if op == 22: return operator.iadd(x, objs[1])
    if op == 23: return getattr(operator, S(params[0]))(x, objs[1])
    if op == 24: operator.setitem(x, 0, objs[1]); return x
    if op == 25: operator.delitem(x, 0); return x
    if op == 36: return x != objs[1]
    if op == 19: return x.append(objs[1])
    if op == 20: return x.join(list(objs[1:]))
    if op == 21: return x.split(pysep(params[0]), pykeep(params[1]))[params[2]]
    if op == 30: return x.split(pysep(params[0]), pykeep(params[1]))
    if op == 31: return S(params[0]) in x
    if op == 32: return x.startswith(needles(params[0]))
    if op == 33: return x.endswith(needles(params[0]))
    if op == 34: return x.isalpha()
    if op == 35: return x == objs[1]
    raise ValueError(op)

def node_parts(e):
    """(op, params, operand expressions, positions where a str literal is passed as a plain str)"""
    t = e[0]
    if t == 2 or t == 5: return t, [], e[1], True
    if t == 3: return t, [e[1]], e[2], True
    if t == 4: return t, [e[1], e[2]], e[3], True
    if t == 7: return 4, [e[2], e[3], e[1]], e[4], True
    if t == 8: return 3, [e[2], e[1]], e[3], True
    if t in (10, 11, 12, 13, 15): return t, [], [e[1]], False
    if t == 14: return t, [e[2]], [e[1]], False
    if t == 16: return t, [e[2], e[3]], [e[1]], False
    if t == 17: return t, [e[2]], [e[1]], False
    if t == 18: return t, [], [e[1], e[2]], False
    if t == 22: return t, [], [e[1], e[2]], 'tail'
    if t == 23: return t, [e[1]], [e[2], e[3]], 'tail'
    if t == 24: return t, [], [e[1], e[2]], 'tail'
    if t == 25: return t, [], [e[1]], False
    if t == 19: return t, [], [e[1], e[2]], 'tail'
    if t == 20: return t, [], [e[1]] + list(e[2]), 'tail'
    if t == 21: return t, [e[2], e[3], e[4]], [e[1]], False
    raise ValueError(t)

def opval(o):
    return val(o) if not isinstance(o, (str, int)) else [dump(o), ([[[0, ord(c)], []] for c in o] if isinstance(o, str) else []), norm(str(o)), len(str(o))]

def build(e, trace):
    """evaluate an expression on the implementation; every API call is recorded in `trace` as
    [op, params, operand values, result value | None (raised), operands modified?]"""
    import pybtex.richtext as R
    t = e[0]
    if t == 0: return R.String(S(e[1]))
    if t == 1: return R.Symbol(S(e[1]))
    if t == 6: return 42
    op, params, subs, strmode = node_parts(e)
    objs = []
    for k, s in enumerate(subs):
        if s[0] == 0 and (strmode is True or (strmode == 'tail' and k > 0)):
            objs.append(S(s[1]))
        else:
            objs.append(build(s, trace))
    return run_node(op, params, objs, trace)

_LIVE = []          # every object built so far in the current case (leaves, operands, results): all stay referenced

_SNAP = []          # snapshots of _LIVE taken after the previous call of the case (nothing runs in between)
def _live_snapshot():
    return [(dump(o), str(o)) for o in _LIVE]

def run_node(op, params, objs, trace):
    for o in objs:
        if not isinstance(o, (str, int)) and not any(o is x for x in _LIVE):
            _LIVE.append(o)
    before = [opval(o) for o in objs]
    while len(_SNAP) < len(_LIVE):
        o = _LIVE[len(_SNAP)]; _SNAP.append((dump(o), str(o)))
    live_before = list(_SNAP)
    try:
        r = apply_node(op, params, objs)
    except Exception as ex:
        changed = before != [opval(o) for o in objs] or live_before != _live_snapshot()
        trace.append([op, params, before, None, 1 if changed else 0, type(ex).__name__])
        raise Raised(ex)
    after = [opval(o) for o in objs]
    _SNAP[:] = _live_snapshot()
    if live_before != _SNAP:
        after = None          # some other text that is still referenced changed
    if op < 30 and op != 30 and not isinstance(r, (str, int)) and not any(r is x for x in _LIVE):
        _LIVE.append(r)
    if op == 30: rv = [val(x) for x in r]
    elif op >= 31: rv = 1 if r else 0
    else: rv = val(r)
    ent = [op, params, before, rv, 0 if before == after else 1]
    if op in (12, 13, 18, 20, 22):
        # probe: what a later append does to the result (the result object itself is not modified)
        try:
            ent.append(r.append('!').render(backend()))
        except Exception as ex:
            ent.append(type(ex).__name__)
    trace.append(ent)
    return r

def _impl(top):
    """top(trace) -> canonical result; returns [0, result, trace] / [1, trace] / [2, trace]"""
    from pybtex.exceptions import PybtexError
    trace = []
    del _LIVE[:]; del _SNAP[:]
    with warnings.catch_warnings():
        warnings.simplefilter('ignore')
        try:
            r = top(trace)
            return [0, r, judge(trace)]
        except Raised as ex:
            return [1 if isinstance(ex.args[0], PybtexError) else 2, judge(trace)]
        except RecursionError:
            return [2, judge(trace)]

def impl_eval(a): return _impl(lambda tr: val(build(a[0], tr)))
def impl_split(a): return _impl(lambda tr: (run_node(30, [a[1], a[2]], [build(a[0], tr)], tr), tr[-1][3])[1])
def _obs(op, a, tr, second=False):
    objs = [build(a[0], tr)]
    if second: objs.append(build(a[1], tr))
    run_node(op, [] if second or op == 34 else [a[1]], objs, tr)
    return tr[-1][3]
def impl_contains(a): return _impl(lambda tr: _obs(31, a, tr))
def impl_startswith(a): return _impl(lambda tr: _obs(32, a, tr))
def impl_endswith(a): return _impl(lambda tr: _obs(33, a, tr))
def impl_isalpha(a): return _impl(lambda tr: _obs(34, a, tr))
def impl_eq(a): return _impl(lambda tr: _obs(35, a, tr, True))
def impl_ne(a): return _impl(lambda tr: _obs(36, a, tr, True))

FUNCS = {
    1: ('richtext expression -> value (structure, flat rendering, str, len)', impl_eval, ('T', 'E')),
    2: ('text.split(sep, keep_empty_parts)', impl_split, ('T', 'E', 'X', 'X')),
    3: ('needle in text', impl_contains, ('T', 'E', 'S')),
    4: ('text.startswith(prefix | tuple)', impl_startswith, ('T', 'E', ('L', 'S'))),
    5: ('text.endswith(suffix | tuple)', impl_endswith, ('T', 'E', ('L', 'S'))),
    6: ('text.isalpha()', impl_isalpha, ('T', 'E')),
    7: ('text1 == text2', impl_eq, ('T', 'E', 'E')),
    9: ('text1 != text2', impl_ne, ('T', 'E', 'E')),
    8: ('richtext expression over characters whose case mapping changes length / other in-place operators, item assignment and deletion (oracle only: outside the model)', impl_eval, ('T', 'E')),
}

def canon(fn, out):
    """the trace is for the oracle only; error class not compared"""
    if fn == 8:
        return []          # oracle-only stream: the model (ASCII case mapping) is not consulted
    if isinstance(out, list) and out and out[0] == 0:
        return [0, out[1]]
    if isinstance(out, list) and out and out[0] in (1, 2, 3):
        return [out[0]]
    return out

# ------------------------------------------------------------------------------------------
# shrinking of expressions: schema kind 'E' (core.py knows only flat schemas; local extension)
def _expr_shrinks(e):
    t = e[0]
    if t == 0:
        for y in _orig_shrink_candidates('S', e[1]):
            yield [0, y]
        return
    if t in (1, 6):
        yield [0, [97]]
        return
    op, params, subs, _ = node_parts(e)
    for s in subs:                       # replace the node by one of its operands
        yield s
    if t in (2, 5): mk = lambda ps: [t, ps]
    elif t == 3: mk = lambda ps: [3, e[1], ps]
    elif t == 4: mk = lambda ps: [4, e[1], e[2], ps]
    elif t == 7: mk = lambda ps: [7, e[1], e[2], e[3], ps]
    elif t == 8: mk = lambda ps: [8, e[1], e[2], ps]
    else: mk = None
    if mk:
        ps = subs
        if t == 7: yield [4, e[2], e[3], ps]
        if t == 8: yield [3, e[2], ps]
        for i in range(len(ps)):
            yield mk(ps[:i] + ps[i + 1:])
        for i, p in enumerate(ps):
            for y in _expr_shrinks(p):
                yield mk(ps[:i] + [y] + ps[i + 1:])
        if t == 4 and e[2]:
            yield [4, e[1], 0, ps]
        return
    if t == 20:
        for i in range(len(e[2])):
            yield [20, e[1], e[2][:i] + e[2][i + 1:]]
        for y in _expr_shrinks(e[1]):
            yield [20, y, e[2]]
        for i, p in enumerate(e[2]):
            for y in _expr_shrinks(p):
                yield [20, e[1], e[2][:i] + [y] + e[2][i + 1:]]
        return
    # unary / binary methods: shrink the operand expressions in place
    idx = {18: [1, 2], 19: [1, 2], 22: [1, 2], 24: [1, 2], 23: [2, 3]}.get(t, [1])
    for i in idx:
        for y in _expr_shrinks(e[i]):
            yield e[:i] + [y] + e[i + 1:]
    if t == 16:
        for pos in (2, 3):
            if e[pos]:
                for y in _orig_shrink_candidates('I', e[pos][0]):
                    yield e[:pos] + [[y]] + e[pos + 1:]
    if t == 17:
        for y in _orig_shrink_candidates('I', e[2]):
            yield [17, e[1], y]

_orig_shrink_candidates = core.shrink_candidates
def _shrink_candidates(sch, v):
    if sch == 'E':
        return _expr_shrinks(v)
    return _orig_shrink_candidates(sch, v)
core.shrink_candidates = _shrink_candidates

# ------------------------------------------------------------------------------------------
# the oracle: the property itself, in plain Python, on the values the implementation returned.
# A flat text is a list of (atom, stack): atom ('c', code point) | ('s', name), stack a tuple of
# markups ('t', name) | ('h', url, external) | ('p',), outermost first.

def fl(v):
    """value -> flat text as hashable tuples"""
    out = []
    for a, ms in v[1]:
        atom = ('c', a[1]) if a[0] == 0 else ('s', tuple(a[1]))
        st = tuple(('t', tuple(m[1])) if m[0] == 0 else ('h', tuple(m[1]), m[2]) if m[0] == 1 else ('p',) for m in ms)
        out.append((atom, st))
    return out

def top_markup(v):
    d = v[0]
    if d[0] == 3: return ('t', tuple(d[1]))
    if d[0] == 4: return ('h', tuple(d[1]), d[2])
    if d[0] == 5: return ('p',)
    return None

def top_class(v):
    d = v[0]
    return (d[0],) + ((tuple(d[1]),) if d[0] in (3, 4) else ()) + ((d[2],) if d[0] == 4 else ())

def pushm(m, f):
    return [(a, (m,) + st) for a, st in f] if m is not None else list(f)

def erase_ext(f):
    return [(a, tuple(('h', m[1], 0) if m[0] == 'h' else m for m in st)) for a, st in f]

def protected(p):
    return ('p',) in p[1]

def convs(p, up):
    """str.upper / str.lower on one pair: a character that expands ('ß' -> 'SS') keeps its markup on
    every resulting character; protected pairs and symbols are untouched"""
    a, st = p
    if a[0] != 'c' or protected(p):
        return [p]
    c = chr(a[1]); d = c.upper() if up else c.lower()
    return [(('c', ord(x)), st) for x in d]

def conv_all(f, up):
    return [q for p in f for q in convs(p, up)]

def leaves(d, acc=None, prot=False):
    """leaf segmentation of a structure dump: list of (length, is_string_leaf, protected)"""
    if acc is None: acc = []
    if d[0] == 0: acc.append((len(d[1]), True, prot))
    elif d[0] == 1: acc.append((1, False, prot))
    else:
        for p in d[-1]:
            leaves(p, acc, prot or d[0] == 5)
    return acc

def chars_of(f):
    """atoms as a list where a symbol is a non-character object"""
    return [a[1] if a[0] == 'c' else None for a, _ in f]

def find_sub(hay, needle, start=0):
    n = len(needle)
    for i in range(start, len(hay) - n + 1):
        if hay[i:i + n] == needle:
            return i
    return -1

def is_ws(c):
    return c is not None and chr(c).isspace()

def spec_split(f, sep, keep, whole_protected):
    """str.split / re.split semantics on the atom sequence; protected atoms never separate"""
    if whole_protected:
        return [list(f)]
    if keep is None:
        keep = sep[0] != 0
    cs = [None if protected(p) else c for p, c in zip(f, chars_of(f))]
    pieces = []; cur = []; i = 0; n = len(f)
    if sep[0] == 0:
        while i < n:
            if is_ws(cs[i]):
                pieces.append(cur); cur = []
                while i < n and is_ws(cs[i]): i += 1
            else:
                cur.append(f[i]); i += 1
        pieces.append(cur)
    elif sep[0] == 2:
        while i < n:
            if is_ws(cs[i]) or cs[i] == 45:
                pieces.append(cur); pieces.append([f[i]]); cur = []
            else:
                cur.append(f[i])
            i += 1
        pieces.append(cur)
    else:
        s = list(sep[1]); k = len(s)
        while i < n:
            if cs[i:i + k] == s:
                pieces.append(cur); cur = []; i += k
            else:
                cur.append(f[i]); i += 1
        pieces.append(cur)
    return [p for p in pieces if p or keep]

def boundary_touches_sep(v, sep):
    """does a separator character sit next to a boundary between two leaves of the receiver?"""
    f = fl(v); cs = chars_of(f)
    if sep[0] == 0: issep = is_ws
    elif sep[0] == 2: issep = lambda c: is_ws(c) or c == 45
    else: issep = lambda c: c is not None and c in sep[1]
    pos = 0
    lv = [l for l in leaves(v[0]) if l[0] > 0]
    for (n, _, _) in lv[:-1]:
        pos += n
        if issep(cs[pos - 1]) or issep(cs[pos]):
            return True
    return False

def split_check(v, sep, keep, got):
    """got: list of flat texts.  Returns None or a message (prefixed by a finding class)"""
    f = fl(v); m = top_markup(v)
    exp = spec_split(f, sep, keep, m == ('p',))
    if got == exp:
        return None
    if [erase_ext(p) for p in got] == [erase_ext(p) for p in exp]:
        return 'F10: split: HRef.external is lost: got %r, expected %r' % (got, exp)
    f = erase_ext(f); got = [erase_ext(p) for p in got]
    # level 1: nothing but unprotected separator characters may disappear, nothing may be
    # reordered or change markup, and protected text is never split
    allg = [p for piece in got for p in piece]
    if sep[0] == 0: issep = lambda p: is_ws(p[0][1] if p[0][0] == 'c' else None)
    elif sep[0] == 2: issep = lambda p: False
    elif sep[0] == 1: issep = lambda p: p[0][0] == 'c' and p[0][1] in sep[1]
    else: issep = lambda p: False
    i = 0
    for p in f:
        if i < len(allg) and allg[i] == p: i += 1
        elif protected(p) or not issep(p):
            return 'split lost or altered the pair %r of %r' % (p, f)
    if i != len(allg):
        return 'split produced pairs that are not in the text: %r from %r' % (got, f)
    if boundary_touches_sep(v, sep):
        return 'F17s: split differs from the string split where a separator touches a part boundary: got %r, string semantics %r' % (got, exp)
    return 'split differs from the string operation: got %r, expected %r' % (got, exp)

def seg_contains(v, needle):
    """'documented' semantics of F17: the needle lies inside one String leaf"""
    def go(d):
        if d[0] == 0: return find_sub(d[1], needle) >= 0
        if d[0] == 1: return False
        return any(go(p) for p in d[-1])
    return go(v[0])

def first_leaf(d, last=False):
    while d[0] >= 2:
        if not d[-1]: return None
        d = d[-1][-1 if last else 0]
    return d

def _tinfo(d):
    return (d[0],) + ((tuple(d[1]),) if d[0] in (3, 4) else ()) + ((d[2],) if d[0] == 4 else ())

def is_normal(d):
    """the normal form of Spec/FlatOps.v `normal` (hypothesis of flat_injective), on a structure dump"""
    if d[0] < 2: return True
    ps = d[-1]
    for p in ps:
        if p[0] == 2 or not is_normal(p): return False
        if (len(p[1]) if p[0] == 0 else 1 if p[0] == 1 else sum(l[0] for l in leaves(p))) == 0: return False
    for a, b in zip(ps, ps[1:]):
        if _tinfo(a) == _tinfo(b) and a[0] != 1: return False     # neighbours of the same type information (Symbols excepted)
    return True

_SKIP = object()
def expected_top(op, params, ins):
    """the markup level the result object itself carries (what a later append / add_period will put new
    characters into): a + b, join, capfirst, capitalize give a plain text; methods that keep the text
    'similar' (upper, lower, slices, index, add_period, append, split pieces) keep the receiver's own level"""
    if op in (18, 20, 22): return None
    if op in (12, 13): return ('p',) if top_markup(ins[0]) == ('p',) else None
    if op in (10, 11, 14, 16, 17, 19, 21): return top_markup(ins[0])
    return _SKIP

def check_node(ent):
    """the property for one API call: the pair sequence, then the markup level of the result object"""
    m = check_pairs(ent)
    if m:
        return m
    op, params, ins, out = ent[:4]
    if out is not None and op < 30 and not any(x[0] == [6] for x in ins):
        et = expected_top(op, params, ins)
        if et is None and len(ent) > 5 and isinstance(ent[5], list):
            got = fl([None, ent[5]]); exp = fl(out) + [(('c', 33), ())]
            if got != exp:
                return 'the result is a plain text, so (result).append("!") must add an unmarked "!": got %r, expected %r' % (got, exp)
        if et is not _SKIP and top_markup(out) != et:
            return ('operation %d returned an object whose own markup level is %r, the operation gives %r: characters appended to it '
                    '(append, add_period) get the wrong markup' % (op, top_markup(out), et))
    return None

def check_pairs(ent):
    """the property for one API call: message or None"""
    op, params, ins, out, mutated = ent[:5]
    if op < 30 and out is not None and not is_normal(out[0]):
        return 'the value built is not in normal form (empty part, nested Text, or unmerged neighbours): %r' % (out[0],)
    if op == 30 and out is not None and not all(is_normal(p[0]) for p in out):
        return 'a piece of split is not in normal form'
    if mutated:
        return 'an operand (or another text that is still referenced) was modified by operation %d' % op
    if any(x[0] == [6] for x in ins) or (op in (21, 30) and params[0][0] == 3):
        return None                      # malformed call: nothing demanded but the comparison with the model
    F = [fl(x) for x in ins]
    def cmp(exp, what):
        got = fl(out)
        if got == exp:
            if out[3] != len(exp):
                return '%s: len() is %d for %d pairs' % (what, out[3], len(exp))
            s = ''.join(chr(a[1]) if a[0] == 'c' else '<%s>' % S(a[1]) for a, _ in exp)
            if S(out[2]) != s:
                return '%s: str() is %r, the characters are %r' % (what, S(out[2]), s)
            return None
        if erase_ext(got) == erase_ext(exp):
            return 'F10: %s: HRef.external is lost: got %r, expected %r' % (what, got, exp)
        return '%s: got %r, expected %r' % (what, got, exp)
    if op in (2, 3, 4, 5):
        if out is None: return 'constructor raised %s' % ent[5]
        m = {2: None, 3: ('t', tuple(norm('em')) if op == 3 and S(params[0]) == 'emph' else tuple(params[0]) if op == 3 else None),
             4: ('h', tuple(params[0]), params[1]) if op == 4 else None, 5: ('p',)}[op]
        r = cmp(pushm(m, [p for f in F for p in f]), 'construction')
        if r: return r
        if top_markup(out) != m:
            return 'construction: the object built is not the markup asked for (%r, %r)' % (top_markup(out), m)
        return None
    x = F[0]; mx = top_markup(ins[0])
    if op in (10, 11):
        if out is None: return 'upper/lower raised %s' % ent[5]
        return cmp(conv_all(x, op == 10), 'upper' if op == 10 else 'lower')
    if op in (12, 13):
        if out is None: return 'capitalize/capfirst raised %s' % ent[5]
        exp = conv_all(x[:1], True) + (conv_all(x[1:], False) if op == 12 else x[1:])
        return cmp(exp, 'capitalize' if op == 12 else 'capfirst')
    if op == 14:
        if out is None: return 'add_period raised %s' % ent[5]
        if x and not (x[-1][0][0] == 'c' and chr(x[-1][0][1]) in '.?!'):
            return cmp(x + pushm(mx, [(('c', c), ()) for c in params[0]]), 'add_period')
        return cmp(x, 'add_period')
    if op == 15:
        return None if out is not None else 'abbreviate raised %s' % ent[5]
    if op == 16:
        if out is None: return 'slicing raised %s' % ent[5]
        return cmp(x[slice(pyopt(params[0]), pyopt(params[1]))], 'slice')
    if op == 17:
        i = params[0]
        if -len(x) <= i < len(x):
            if out is None: return 'indexing inside the bounds raised %s' % ent[5]
            return cmp([x[i]], 'index')
        if out is None:
            return None if ent[5] == 'IndexError' else 'indexing outside the bounds raised %s, not IndexError' % ent[5]
        return 'F23: text[%d] outside the bounds of a text of length %d returns %r where str raises IndexError' % (i, len(x), fl(out))
    if op in (18, 22):
        if out is None: return '+ / += raised %s' % ent[5]
        return cmp(x + F[1], 'concatenation' if op == 18 else 'b = a; b += x')
    if op == 23:
        return None      # an in-place operator other than +=: only 'operands are never modified' is demanded
    if op in (24, 25):
        if out is None: return None
        return 'item assignment / deletion is accepted: a rich text must be immutable like str (TypeError)'
    if op == 19:
        if out is None: return 'append raised %s' % ent[5]
        return cmp(x + pushm(mx, F[1]), 'append')
    if op == 20:
        if out is None: return 'join raised %s' % ent[5]
        exp = []
        for k, f in enumerate(F[1:]):
            if k: exp += x
            exp += f
        return cmp(exp, 'join')
    if op in (21, 30):
        sep, keep = params[0], pykeep(params[1])
        if sep[0] == 1 and not sep[1]:
            return None      # malformed call (str raises ValueError)
        if op == 30:
            if out is None: return 'split raised %s' % ent[5]
            r = split_check(ins[0], sep, keep, [fl(p) for p in out])
            if r: return r
            for p in out:
                if p[3] != len(p[1]): return 'split: len() of a piece is wrong'
            return None
        exp = spec_split(x, sep, keep, mx == ('p',))
        k = params[2]
        if out is None:
            return None   # the index may be out of range of the list; the list itself is checked by function 2
        if k < len(exp) and fl(out) == exp[k]:
            return None
        return None       # pieces are judged by function 2 (which sees the whole list)
    if op == 31:
        nd = list(params[0]); cs = chars_of(x)
        exp = find_sub(cs, nd) >= 0
        if bool(out) == exp: return None
        if out is None: return 'contains raised %s' % ent[5]
        if exp and not out and nd and not seg_contains(ins[0], nd):
            return 'F17: %r in text is False although the characters occur (across a part boundary)' % S(nd)
        if exp and not out and not nd and ins[0][0][0] == 1:
            return 'F17e: the empty string is not found in a Symbol'  
        return 'contains: %r in %r is %r' % (S(nd), x, bool(out))
    if op in (32, 33):
        nds = [list(n) for n in params[0]]; cs = chars_of(x)
        if out is None: return 'startswith/endswith raised %s' % ent[5]
        if op == 32: hit = lambda n, c: c[:len(n)] == n
        else: hit = lambda n, c: (c[len(c) - len(n):] == n if n else True)
        exp = any(hit(n, cs) for n in nds)
        if bool(out) == exp: return None
        lf = first_leaf(ins[0][0], last=(op == 33))
        lcs = lf[1] if lf is not None and lf[0] == 0 else None
        if exp and not out:
            if lcs is not None and any(hit(n, lcs) for n in nds):
                return 'startswith/endswith: %r on %r is False although one part has it' % ([S(n) for n in nds], x)
            if any(n and hit(n, cs) for n in nds):
                return 'F17: startswith/endswith(%r) is False although the characters are there (across a part boundary)' % ([S(n) for n in nds],)
            if lf is None or lf[0] == 1:
                return 'F17e: startswith/endswith of the empty string is False on %r (no part, or a Symbol)' % (x,)
        return 'startswith/endswith: %r on %r is %r' % ([S(n) for n in nds], x, bool(out))
    if op == 34:
        if out is None: return 'isalpha raised %s' % ent[5]
        exp = bool(x) and all(a[0] == 'c' and chr(a[1]).isalpha() for a, _ in x)
        return None if bool(out) == exp else 'isalpha of %r is %r' % (x, bool(out))
    if op == 36:
        if out is None: return '!= raised %s' % ent[5]
        e2 = list(ent); e2[0] = 35; e2[3] = 0 if out else 1
        m = check_pairs(e2)
        return m.replace('==', '!= (negated)') if m else None
    if op == 35:
        if out is None: return '== raised %s' % ent[5]
        ca, cb = top_class(ins[0]), top_class(ins[1])
        if ca[:2] != cb[:2]:
            return None            # different top-level classes: the property does not say
        exp = (x == F[1]) and ca == cb
        if bool(out) == exp: return None
        if bool(out) == (erase_ext(x) == erase_ext(F[1])):
            return 'F10: == ignores HRef.external: %r == %r is %r' % (x, F[1], bool(out))
        return '==: %r == %r is %r' % (x, F[1], bool(out))
    return None

KNOWN_CLASSES = ('F17:', 'F17e:', 'F17s:', 'F23:')   # 'F10:' messages (external lost) are ordinary violations since fix 8ee055e

def oracle(fn, arg, out):
    """the verdict was computed next to the implementation call (in the worker process, so that it
    runs in parallel): the property checked on every API call of the expression"""
    if not isinstance(out, list) or not out or out[0] not in (0, 1, 2):
        return 'no result'
    return out[-1] if isinstance(out[-1], str) else None

def judge(trace):
    known = None
    for ent in trace:
        m = check_node(ent)
        if m:
            if m.startswith(KNOWN_CLASSES):
                known = known or m
            else:
                return m
    return known or 0

def _sig(cls):
    return lambda kind, fn, arg, detail: kind == 'oracle' and isinstance(detail, str) and detail.startswith(cls + ':')
KNOWN_SIGNATURES = {'F17': _sig('F17'), 'F17e': _sig('F17e'), 'F17s': _sig('F17s'), 'F23': _sig('F23')}

def replay_known(finding):
    p = finding.get('pinned')
    if not p:
        return None
    out = FUNCS[p['fn']][1](p['arg'])
    m = oracle(p['fn'], p['arg'], out)
    if m and m.startswith(finding['id'] + ':'):
        return m[:160]
    return None

# ------------------------------------------------------------------------------------------
# readable form
def show(e):
    t = e[0]
    if t == 0: return repr(S(e[1]))
    if t == 1: return 'Symbol(%r)' % S(e[1])
    if t == 6: return '42'
    if t == 2: return 'Text(%s)' % ', '.join(show(p) for p in e[1])
    if t == 3: return 'Tag(%s)' % ', '.join([repr(S(e[1]))] + [show(p) for p in e[2]])
    if t == 4: return 'HRef(%s%s)' % (', '.join([repr(S(e[1]))] + [show(p) for p in e[3]]), ', external=True' if e[2] else '')
    if t == 5: return 'Protected(%s)' % ', '.join(show(p) for p in e[1])
    if t in (7, 8):
        u = S(e[2]); k = len(u) // 2
        uo = {1: 'String(%r)' % u, 2: 'Text(%r)' % u, 3: 'Text(%r, %r)' % (u[:k], u[k:])}.get(e[1], repr(u))
        if t == 8: return 'Tag(%s)' % ', '.join([uo] + [show(p) for p in e[3]])
        return 'HRef(%s%s)' % (', '.join([uo] + [show(p) for p in e[4]]), ', external=True' if e[3] else '')
    r = lambda x: ('String(%s)' % show(x)) if x[0] == 0 else show(x)
    if t in (10, 11, 12, 13, 15): return '%s.%s()' % (r(e[1]), {10: 'upper', 11: 'lower', 12: 'capitalize', 13: 'capfirst', 15: 'abbreviate'}[t])
    if t == 14: return '%s.add_period(%r)' % (r(e[1]), S(e[2]))
    if t == 16: return '%s[%s:%s]' % (r(e[1]), '' if not e[2] else e[2][0], '' if not e[3] else e[3][0])
    if t == 17: return '%s[%d]' % (r(e[1]), e[2])
    if t == 18: return '(%s + %s)' % (r(e[1]), r(e[2]))
    if t == 22: return '[b = %s; b += %s; b]' % (r(e[1]), show(e[2]))
    if t == 23: return '[b = %s; b = operator.%s(b, %s); b]' % (r(e[2]), S(e[1]), show(e[3]))
    if t == 24: return '[a = %s; a[0] = %s; a]' % (r(e[1]), show(e[2]))
    if t == 25: return '[a = %s; del a[0]; a]' % r(e[1])
    if t == 19: return '%s.append(%s)' % (r(e[1]), show(e[2]))
    if t == 20: return '%s.join([%s])' % (r(e[1]), ', '.join(show(p) for p in e[2]))
    if t == 21: return '%s.split(%s, %r)[%d]' % (r(e[1]), showsep(e[2]), pykeep(e[3]), e[4])
    return repr(e)
def showsep(sp):
    return {0: 'None', 2: 'delimiter_re', 3: '42'}.get(sp[0]) or repr(S(sp[1]))

def describe(fn, a):
    r = lambda x: ('String(%s)' % show(x)) if x[0] == 0 else show(x)
    if fn in (1, 8): return {'python': r(a[0])}
    if fn == 2: return {'python': '%s.split(%s, %r)' % (r(a[0]), showsep(a[1]), pykeep(a[2]))}
    if fn == 3: return {'python': '%r in %s' % (S(a[1]), r(a[0]))}
    if fn in (4, 5): return {'python': '%s.%s(%r)' % (r(a[0]), 'startswith' if fn == 4 else 'endswith', needles(a[1]))}
    if fn == 6: return {'python': '%s.isalpha()' % r(a[0])}
    if fn == 7: return {'python': '%s == %s' % (r(a[0]), r(a[1]))}
    if fn == 9: return {'python': '%s != %s' % (r(a[0]), r(a[1]))}
    return {'fn': fn, 'arg': a}

def nontrivial(fn, arg, out):
    """the model value has at least two parts or some markup, or the observation is True"""
    if fn == 8 or not out or out[0] != 0: return False
    if fn == 1:
        return any(ms for _, ms in out[1][1]) or (out[1][0][0] >= 2 and len(out[1][0][-1]) > 1)
    if fn == 2: return len(out[1]) > 1
    return out[1] == 1

# ------------------------------------------------------------------------------------------
# generators
def E(s): return [0, norm(s)]
NBSP = [1, norm('nbsp')]
def T(*ps): return [2, list(ps)]
def TAG(n, *ps): return [3, norm(n), list(ps)]
def HREF(u, x, *ps): return [4, norm(u), 1 if x else 0, list(ps)]
def PROT(*ps): return [5, list(ps)]

LEAVES = [E('a'), E('B c'), E(''), NBSP]
def NODES(ps):
    ps = list(ps)
    return [T(*ps), TAG('em', *ps), TAG('b', *ps), HREF('u', 0, *ps), HREF('u', 1, *ps), PROT(*ps)]

_TREES = {}
def trees(n):
    """all construction expressions with exactly n nodes"""
    if n in _TREES: return _TREES[n]
    if n == 1:
        r = list(LEAVES) + NODES([])
    else:
        r = []
        for parts in forests(n - 1):
            r.extend(NODES(parts))
    _TREES[n] = r
    return r
_FORESTS = {}
def forests(n):
    """all non-empty lists of trees with n nodes in total"""
    if n in _FORESTS: return _FORESTS[n]
    r = []
    for k in range(1, n + 1):
        for t in trees(k):
            if k == n:
                r.append([t])
            else:
                for rest in forests(n - k):
                    r.append([t] + rest)
    _FORESTS[n] = r
    return r

_STREES = {}
def split_trees(n):
    """construction expressions with <= n nodes over a whitespace-rich alphabet"""
    def tr(k):
        if k in _STREES: return _STREES[k]
        if k == 1:
            r = [E('a'), E(' '), E('b c'), E('-')]
        else:
            r = []
            for ps in fo(k - 1):
                r += [T(*ps), TAG('em', *ps), PROT(*ps)]
        _STREES[k] = r
        return r
    def fo(k):
        r = []
        for a in range(1, k + 1):
            for t in tr(a):
                if a == k: r.append([t])
                else:
                    for rest in fo(k - a): r.append([t] + rest)
        return r
    return [t for k in range(1, n + 1) for t in tr(k)]

def trees_upto(n):
    return [t for k in range(1, n + 1) for t in trees(k)]

def nchars(e):
    t = e[0]
    if t == 0: return len(e[1])
    if t == 1: return 1
    return sum(nchars(p) for p in e[-1])

SEPS = [[0], [1, norm(' ')], [1, norm('a')], [1, norm('c')], [1, norm(' c')], [1, norm('B c')], [2]]
KEEPS = [[], [1], [0]]

def rand_tree(rng, depth, strs):
    r = rng.random()
    if depth <= 0 or r < 0.35:
        return E(rng.choice(strs)) if rng.random() < 0.85 else [1, norm(rng.choice(['nbsp', 'ndash']))]
    k = rng.choice([0, 1, 1, 2, 2, 3, 4])
    ps = [rand_tree(rng, depth - 1, strs) for _ in range(k)]
    c = rng.randint(0, 6)
    if c <= 1: return T(*ps)
    if c == 2: return TAG(rng.choice(['em', 'em', 'b', 'tt']), *ps)
    if c == 3: return HREF(rng.choice(['u', 'u', 'http://x/']), rng.random() < 0.4, *ps)
    if c == 4: return PROT(*ps)
    if c == 5: return TAG('em', *ps)
    return T(*ps)

STRS = ['a', 'B c', '', 'Long cat', ' x', 'y ', 'The End.', 'a-b', 'well-known text', 'Q?', 'e!', '  ', 'Ab', 'zZ', ',', ', ', 'x, y', '\t', 'a b', '-', '3', 'f g', '€', 'CamelCase']
def rand_op(rng, e, depth):
    c = rng.randint(0, 16)
    if c == 16: return [22, e, rand_tree(rng, depth, STRS)]
    n = 8
    ri = lambda: rng.choice([[], [rng.randint(-n, n)], [rng.randint(-2, 4)]])
    if c == 0: return [10, e]
    if c == 1: return [11, e]
    if c == 2: return [12, e]
    if c == 3: return [13, e]
    if c == 4: return [14, e, norm(rng.choice(['.', '.', '!', '..', '']))]
    if c == 5: return [15, e]
    if c in (6, 7, 8): return [16, e, ri(), ri()]
    if c == 9: return [17, e, rng.randint(-3, 3)]
    if c == 10: return [18, e, rand_tree(rng, depth, STRS)]
    if c == 11: return [18, rand_tree(rng, depth, STRS), e]
    if c == 12: return [19, e, rand_tree(rng, depth, STRS)]
    if c == 13: return [20, e, [rand_tree(rng, depth, STRS) for _ in range(rng.randint(0, 3))]]
    if c == 14: return [20, rand_tree(rng, 1, STRS), [e] + [rand_tree(rng, depth, STRS) for _ in range(rng.randint(0, 2))]]
    return [21, e, rng.choice(SEPS + [[1, norm(', ')], [1, norm('-')]]), rng.choice(KEEPS), rng.randint(0, 2)]

def substrings(s, maxlen):
    out = {''}
    for i in range(len(s)):
        for j in range(i + 1, min(len(s), i + maxlen) + 1):
            out.add(s[i:j])
    return sorted(out)

def plain(e):
    t = e[0]
    if t == 0: return S(e[1])
    if t == 1: return '\x00'
    return ''.join(plain(p) for p in e[-1])

PINNED = [
    (1, [[16, T(E('abcdefgh')), [3], [1]]]),                                   # F8 (fixed)
    (7, [T(NBSP), T(E('a'))]), (7, [NBSP, E('a')]), (7, [T(E('a')), T(NBSP)]),   # F9 (fixed)
    (1, [[10, HREF('u', 1, E('x'))]]),                                         # F10
    (1, [T(HREF('u', 1, E('a')), HREF('u', 1, E('b')))]),                      # F10 (merge)
    (7, [HREF('u', 1, E('a')), HREF('u', 0, E('a'))]),                         # F10 (==)
    (3, [T(E('abc'), TAG('em', E('def'))), norm('cd')]),                       # F17
    (4, [T(TAG('em', E('Long')), E('cat!')), [norm('Longcat')]]),
    (5, [T(E('Long'), TAG('em', E('cat')), E('!')), [norm('cat!')]]),
    (1, [[17, T(E('abc')), 10]]), (1, [[17, T(E('abc')), -100]]),              # F23
    (1, [[17, T(E('abc')), -4]]), (1, [[17, T(E('abc')), 3]]),
    (2, [T(E('a '), TAG('em', E(' b'))), [0], []]),                            # split across a boundary
    (2, [T(E('a,'), TAG('em', E(' b'))), [1, norm(', ')], []]),
    (1, [[15, T(E('Ab'), TAG('em', E('cd ef')))]]),
    (1, [TAG('emph', E('x'))]),
    (1, [[12, T(TAG('em', E('LONG CAT')))]]),
    (1, [[14, T(E("That's all, folks"))]  + [norm('.')]]),
    (4, [T(), [norm('')]]), (3, [NBSP, norm('')]), (4, [NBSP, [norm('')]]),     # empty needle
]

def _gen0(tier, rng):
    quick = tier == 'quick'
    for fn, a in PINNED:
        yield ('pinned', fn, a)
    # (a) exhaustive small scope
    one, two, three = trees(1), trees_upto(2), trees_upto(3)
    if quick:
        ctor = three + trees(4)[::3]
        slc = two + trees(3)[::7]
        mid = two + trees(3)[::3]
        bin_a = two + trees(3)[::12]
        join_c = two[::18]
    else:
        ctor = trees_upto(4) + trees(5)[::6]
        slc = three
        mid = three + trees(4)[::20]
        bin_a = two + trees(3)[::3]
        join_c = two[::6]
    for t in ctor:
        yield ('exhaustive_ctor', 1, [t])
    for t in slc:
        n = nchars(t)
        rngs = [[]] + [[i] for i in range(-(n + 2), n + 3)]
        for i in rngs:
            for j in rngs:
                yield ('exhaustive_slice', 1, [[16, t, i, j]])
        for i in range(-(n + 2), n + 3):
            yield ('exhaustive_index', 1, [[17, t, i]])
    for t in mid:
        for op in (10, 11, 12, 13, 15):
            yield ('exhaustive_unary', 1, [[op, t]])
        yield ('exhaustive_unary', 1, [[14, t, norm('.')]])
        yield ('exhaustive_unary', 6, [t])
        for sep in SEPS:
            for keep in KEEPS:
                yield ('exhaustive_split', 2, [t, sep, keep])
        s = plain(t)
        for nd in substrings(s, 3) + ['ac', 'cB', 'aa', 'aB c']:
            if '\x00' in nd: continue
            yield ('exhaustive_observe', 3, [t, norm(nd)])
            yield ('exhaustive_observe', 4, [t, [norm(nd)]])
            yield ('exhaustive_observe', 5, [t, [norm(nd)]])
        yield ('exhaustive_observe', 4, [t, [norm('x'), norm('a')]])
        yield ('exhaustive_observe', 5, [t, [norm('.'), norm('?'), norm('!')]])
        yield ('exhaustive_observe', 4, [t, []])
    # split where separators sit at part boundaries: leaves {"a", " ", "b c", "-"}, nodes {Text, Tag em, Protected}
    for t in (split_trees(3) + split_trees(4)[100::2] if quick else split_trees(4)):
        for sep in ([0], [1, norm(' ')], [1, norm('  ')], [1, norm('a')], [2]):
            for keep in KEEPS:
                yield ('exhaustive_split_boundary', 2, [t, sep, keep])
        yield ('exhaustive_split_boundary', 1, [[15, t]])
        yield ('exhaustive_split_boundary', 1, [[12, t]])
    for ia, a in enumerate(bin_a):
        for b in (two if (not quick or ia < len(two)) else two[::3]):
            yield ('exhaustive_binary', 1, [[18, a, b]])
            yield ('exhaustive_binary', 1, [[19, a, b]])
            yield ('exhaustive_binary', 7, [a, b])
    for a in two:
        for b in two:
            for c in join_c:
                yield ('exhaustive_binary', 1, [[20, a, [b, c]]])
    for a in one:
        yield ('exhaustive_binary', 1, [[20, a, []]])
        for b in two:
            yield ('exhaustive_binary', 1, [[20, a, [b]]])
    # empty operands on either side of + / append / join, followed by operations whose result depends on the
    # markup level of the sum, and == against the flat-equal reference construction
    empties = [T(), E(''), TAG('em'), PROT(), HREF('u', 0), HREF('u', 1), T(TAG('em'))]
    others = one + [t for t in trees(2) if nchars(t)][::(3 if quick else 1)]
    for a in empties:
        for b in others:
            for x, y in ((a, b), (b, a)):
                for mk in (lambda p, q: [18, p, q], lambda p, q: [19, p, q], lambda p, q: [20, p, [q]], lambda p, q: [20, E('-'), [p, q]]):
                    e = mk(x, y)
                    yield ('empty_operand_history', 1, [[19, e, E('!')]])
                    yield ('empty_operand_history', 1, [[14, e, norm('.')]])
                    yield ('empty_operand_history', 1, [[13, e]])
                    yield ('empty_operand_history', 1, [[16, e, [1], []]])
                yield ('empty_operand_history', 7, [[18, x, y], T(x, y)])
                yield ('empty_operand_history', 7, [[20, x, [y, y]], T(y, x, y)])
    # the operator protocol on values that stay referenced: b = a; b += x (and any other in-place operator a class
    # defines or falls back to), a[0] = x, del a[0], !=
    xs = [E('!'), T(E('x')), TAG('em', E('y')), NBSP, E('')]
    for a in two + [t for t in trees(3)[::(11 if quick else 3)]]:
        selfret = [a, [14, a, norm('.')], [14, [14, a, norm('.')], norm('.')], [10, a], [13, a], [16, a, [], []], [19, a, E('')], [18, a, E('')], [22, a, E('?')]]
        for h in selfret:
            for x in (xs if h is a else xs[:2]):
                yield ('operator_protocol', 1, [[22, h, x]])
                yield ('operator_protocol', 1, [[19, [22, h, x], E('!')]])
        for name in inplace_operators():
            for x in xs[:3] + [[6]]:
                yield ('operator_protocol', 8, [[23, norm(name), a, x]])
        yield ('operator_protocol', 8, [[24, a, E('x')]])
        yield ('operator_protocol', 8, [[25, a]])
    for a in two:
        for b in two[::(7 if quick else 2)]:
            yield ('operator_protocol', 9, [a, b])
            yield ('operator_protocol', 9, [T(a, b), T(T(a), b)])
    # equality of differently grouped constructions of the same text
    for t in (three if not quick else two + trees(3)[::3]):
        yield ('regroup', 7, [T(t), T(T(t), E(''))])
        yield ('regroup', 7, [T(t, t), T(T(t), T(E(''), t))])
        yield ('regroup', 7, [TAG('em', t, t), TAG('em', TAG('em', t), TAG('em', t))])
        yield ('regroup', 7, [T(TAG('em', t), TAG('em', t)), T(TAG('em', t, t))])
        yield ('regroup', 7, [T(E('a'), t), T(E('a'), T(t))])
        yield ('regroup', 7, [T(t), T(TAG('b', t))])
    # (b) structured random: deeper trees, operation sequences of length <= 6
    nrand = 6000 if quick else 50000
    for i in range(nrand):
        e = rand_tree(rng, rng.choice([1, 2, 2, 3, 4]), STRS)
        s = plain(e).replace('\x00', '')
        for _ in range(rng.randint(0, 6)):
            e = rand_op(rng, e, 2)
        r = rng.random()
        if r < 0.55:
            yield ('random_ops', 1, [e])
        elif r < 0.65:
            yield ('random_ops', 2, [e, rng.choice(SEPS + [[1, norm(', ')], [1, norm('-')]]), rng.choice(KEEPS)])
        elif r < 0.85:
            if s and rng.random() < 0.8:
                a = rng.randint(0, len(s) - 1); nd = s[a:a + rng.randint(1, 4)]
            else:
                nd = rng.choice(['', 'a', 'cat', ' '])
            fn = rng.choice([3, 4, 5])
            if fn == 4: nd = s[:rng.randint(0, 4)] if rng.random() < 0.6 else nd
            if fn == 5: nd = s[len(s) - rng.randint(0, 4):] if rng.random() < 0.6 else nd
            yield ('random_ops', fn, [e, norm(nd) if fn == 3 else [norm(nd)]])
        elif r < 0.9:
            yield ('random_ops', 6, [e])
        else:
            e2 = rand_tree(rng, 2, STRS) if rng.random() < 0.5 else [2, [e]]
            yield ('random_ops', 7, [e, e2])
    # (c) malformed
    bad = [6]
    for t in trees_upto(2):
        yield ('malformed', 1, [T(t, bad)])
        yield ('malformed', 1, [[18, t, bad]])
        yield ('malformed', 1, [[19, t, bad]])
        yield ('malformed', 1, [[20, t, [bad]]])
        yield ('malformed', 2, [t, [3], []])
        yield ('malformed', 2, [t, [1, []], []])
        yield ('malformed', 1, [[21, t, [0], [], 3]])
        yield ('malformed', 1, [[10, bad]])
        yield ('malformed', 1, [TAG('emph', t)])
    for i in range(300 if quick else 3000):
        e = rand_tree(rng, 3, STRS + ['emph'])
        # token-level damage: replace a random sub-expression by the bad object
        e = _damage(rng, e)
        if e == [6]: e = T([6])
        for _ in range(rng.randint(0, 3)):
            e = rand_op(rng, e, 1)
        yield ('malformed', 1, [e])

# ---- the operator protocol: which in-place operators can Python dispatch to these classes? ----
_INPLACE = ['iadd', 'imul', 'isub', 'ior', 'iand', 'ixor', 'imatmul', 'itruediv', 'ifloordiv', 'imod', 'ipow', 'ilshift', 'irshift']
def richtext_classes():
    import pybtex.richtext as R
    return [c for c in vars(R).values() if isinstance(c, type) and issubclass(c, R.BaseText)]
def defined_dunders():
    names = set()
    for c in richtext_classes():
        names.update(k for k in vars(c) if k.startswith('__') and k.endswith('__'))
    return names
def inplace_operators():
    """the in-place operators other than += that some rich-text class defines directly or through the binary
    fallback (found in the working tree at run time), plus two that nothing defines (they must raise)"""
    d = defined_dunders()
    out = [n for n in _INPLACE[1:] if '__%s__' % n in d or '__%s__' % n[1:] in d or '__r%s__' % n[1:] in d]
    return out + [n for n in ('imul', 'ior') if n not in out]
_KNOWN_DUNDERS = {'__add__', '__contains__', '__dict__', '__doc__', '__eq__', '__getitem__', '__hash__', '__init__', '__len__',
                  '__metaclass__', '__module__', '__ne__', '__repr__', '__str__', '__weakref__', '__abstractmethods__', '__qualname__',
                  '__firstlineno__', '__static_attributes__', '__annotations__', '__slots__'}
_EXERCISED = {'__%s__' % n for n in _INPLACE} | {'__%s__' % n[1:] for n in _INPLACE} | {'__setitem__', '__delitem__'}
_MUTATING_PROTOCOL = {'__setattr__', '__delattr__', '__set__', '__delete__', '__setstate__', '__iconcat__'}

def extra_checks(ck, tier, rng):
    """fail closed: a protocol method through which Python can modify a text and which no stream exercises"""
    d = defined_dunders()
    fails = []
    for n in sorted(d):
        if n in _KNOWN_DUNDERS or n in _EXERCISED:
            continue
        if n in _MUTATING_PROTOCOL or (n.startswith('__i') and n[3:-2] and '__%s__' % n[3:-2] in {'__%s__' % m[1:] for m in _INPLACE}):
            fails.append((n, 'a rich-text class defines %s, through which Python can modify a text in place, and no stream exercises it' % n, False))
    yield {'name': 'operator_protocol_methods', 'evaluations': len(d), 'failures': fails,
           'info': 'dunder methods defined on the rich-text classes of the working tree: %s; in-place operators exercised: += and %s' % (sorted(d), inplace_operators())}

# ---- url / tag name passed as a rich-text object (HRef(String(u), ...), Tag(Text(n), ...)) ----
_HMODES = [1, 0, 2, 3]      # successive HRef nodes of one case: String(url), plain str, Text(url), Text(url[:k], url[k:])
_TMODES = [0, 2, 0, 3]      # successive Tag nodes: plain str, Text(name), plain str, Text(name[:k], name[k:])
def objnames(e, st):
    """the same expression with urls / tag names passed as String / Text objects, in rotation, so that
    links and tags built from different forms of the same url / name meet (merge, ==)"""
    t = e[0]
    if t in (0, 1, 6): return e
    m = lambda l: [objnames(p, st) for p in l]
    if t in (2, 5): return [t, m(e[1])]
    if t == 3:
        ps = m(e[2]); mode = _TMODES[st[1] % 4]; st[1] += 1
        return [8, mode, e[1], ps] if mode else [3, e[1], ps]
    if t == 4:
        ps = m(e[3]); mode = _HMODES[st[0] % 4]; st[0] += 1
        return [7, mode, e[1], e[2], ps] if mode else [4, e[1], e[2], ps]
    if t in (7, 8): return e
    if t == 20: return [20, objnames(e[1], st), m(e[2])]
    if t in (18, 19, 22, 24): return [t, objnames(e[1], st), objnames(e[2], st)]
    if t == 23: return e
    return [t, objnames(e[1], st)] + list(e[2:])

def has_named(e):
    t = e[0]
    if t in (0, 1, 6): return False
    if t in (3, 4): return True
    if t in (2, 5): return any(has_named(p) for p in e[1])
    if t in (7, 8): return False
    if t == 20: return has_named(e[1]) or any(has_named(p) for p in e[2])
    if t in (18, 19, 22, 24): return has_named(e[1]) or has_named(e[2])
    if t == 23: return False
    return has_named(e[1])

_OBJ_STREAMS = ('pinned', 'exhaustive_ctor', 'exhaustive_unary', 'exhaustive_binary', 'regroup', 'random_ops', 'exhaustive_observe')

# ---- characters whose case mapping changes the number of characters (oracle only) ----
EXPANDING = ['stra\u00dfe', '\ufb01', '\ufb02ag', '\u0130', '\u0149', '\u01f0', '\u0390', 'a\u00df', '\u00dfb', 'I\u0130i', '\ufb03x \u00df']
def expanding_cases(tier, rng):
    shapes = []
    for s in EXPANDING:
        for s2 in ('', 'x', EXPANDING[(len(s) * 3) % len(EXPANDING)]):
            shapes += [T(E(s)), E(s), TAG('em', E(s)), T(E(s2), TAG('em', E(s))), PROT(E(s)), T(PROT(E(s)), E(s2)),
                       T(TAG('b', PROT(E(s)), E(s)), E(s2)), HREF('u', 1, E(s), TAG('em', E(s2))), T(E(s), NBSP, E(s2))]
    if tier == 'quick':
        shapes = shapes[::3]
    for t in shapes:
        for op in (10, 11, 12, 13):
            e = [op, t]
            yield e
            n = nchars(t) + 3
            for follow in ([17, e, 0], [17, e, -1], [17, e, 1], [16, e, [1], []], [16, e, [], [-1]], [16, e, [2], [n]],
                           [13, e], [12, e], [10, [11, e]], [18, e, E('!')], [14, e, norm('.')], [19, e, t]):
                yield follow

def gen(tier, rng):
    """the base streams, plus for every case of the listed streams that contains an HRef or a Tag a variant
    with the url / name passed as String / Text objects, plus the oracle-only expanding-characters stream"""
    stride = {'exhaustive_binary': 10, 'exhaustive_observe': 6, 'exhaustive_ctor': 3} if tier == 'quick' else {'exhaustive_binary': 3, 'exhaustive_observe': 2}
    seen = {}
    for (st, fn, a) in _gen0(tier, rng):
        yield (st, fn, a)
        if st in _OBJ_STREAMS and fn != 2:
            a = norm(a)
            if not (has_named(a[0]) or (fn == 7 and has_named(a[1]))):
                continue
            seen[st] = seen.get(st, 0) + 1
            if seen[st] % stride.get(st, 1):
                continue
            if fn == 7:
                if has_named(a[0]) or has_named(a[1]):
                    yield (st + '_nameobj', 7, [objnames(a[0], [0, 0]), a[1]])          # object form == plain form
                    yield (st + '_nameobj', 7, [objnames(a[0], [0, 0]), objnames(a[1], [2, 1])])
            elif has_named(a[0]):
                yield (st + '_nameobj', fn, [objnames(a[0], [0, 0])] + list(a[1:]))
    for e in expanding_cases(tier, rng):
        yield ('expanding_case_oracle_only', 8, [e])

def _damage(rng, e):
    if e[0] < 2 or not e[-1] or rng.random() < 0.3:
        return [6]
    ps = list(e[-1]); k = rng.randrange(len(ps)); ps[k] = _damage(rng, ps[k])
    return e[:-1] + [ps]

RULE = ('pinned: the inputs of the defects F8 F9 F10 F17 F23 and every disagreement seen while building the check; '
        'exhaustive: every construction expression with up to N nodes over leaves {"a", "B c", "", Symbol nbsp} and nodes '
        '{Text, Tag em, Tag b, HRef u, HRef u external, Protected}; on the smaller ones every slice (i, j) and index in '
        '[-(n+2), n+2] and None, every unary method, split with 7 separators x 3 keep_empty_parts values, contains / '
        'startswith / endswith with every substring up to length 3 (and tuples), + / append / == on all pairs, join on triples, '
        'and regrouped constructions compared with ==; random: deeper trees over 24 strings with up to 6 methods applied on top '
        'of one another; operator_protocol: b = a; b += x with a still referenced (a also being the value an earlier add_period / upper / capfirst / slice / append returned), any other in-place operator the classes define or fall back to, a[0] = x, del a[0], != ; after EVERY call of every stream every text object built so far in the case (operands, earlier results, leaves) is compared with its snapshot (structure dump + str, operands also rendering + len); empty_operand_history: every empty text (Text(), String(""), Tag, Protected, HRef) on either side of +, append, join, '
        'followed by append / add_period / capfirst / a slice and by == against the flat-equal reference construction; malformed: non-text parts, bad separators, out-of-range piece indices, the deprecated tag name; '
        '_nameobj: every case of the constructor / unary / binary / == / regroup / observer / random streams that contains an HRef or a Tag is run '
        'a second time with the urls / tag names passed as String(url), Text(url), Text(url[:k], url[k:]) objects in rotation (== also against the '
        'plain-str form); expanding_case_oracle_only: strings with characters whose case mapping changes length (sz, fi/fl ligatures, dotted I, ...) '
        'inside and outside Protected / Tag / HRef, upper/lower/capitalize/capfirst followed by len, str, index, slice, +, append, add_period -- '
        'ORACLE ONLY, the model (ASCII case mapping) is not compared on this stream. '
        'distinct = distinct (function, argument); non-trivial = the value has markup or several parts / the list has several '
        'pieces / the observation is True.')
EXHAUSTIVE = {'quick': 'all construction expressions of <= 3 nodes (6 node kinds, 4 leaves) and every 3rd of the 4-node ones; every slice (i, j) and index in [-(n+2), n+2] + None on all expressions of <= 2 nodes (and every 5th 3-node one); all unary methods, split (7 separators x 3 keep values), observers with every substring <= 3 on all of <= 2 nodes (every 2nd 3-node one); +, append, == on all pairs of <= 2 nodes; split at part boundaries on all expressions of <= 3 nodes (every 2nd 4-node one) over {a, space, "b c", -} x {Text, Tag, Protected}; every empty text on either side of +, append, join followed by append / add_period / capfirst / slice / ==',
              'thorough': 'all construction expressions of <= 4 nodes and every 6th of the 5-node ones; every slice/index on all of <= 3 nodes; methods/split/observers on all of <= 3 nodes (every 20th 4-node one); +, append, == on (<= 2 nodes and every 3rd 3-node one) x (<= 2 nodes)'}
TRUSTED_BASE = ['modelled (not verified) code: pybtex/richtext.py (all classes and methods named in Model/RichText.v); '
                'str.upper/lower/isalpha are modelled on ASCII only, \\s as the 29 Python whitespace code points; '
                'the regexes whitespace_re and delimiter_re are modelled by hand-written splitters (compared with the live objects through String.split on every run)']
ASSUMPTIONS = ['non-ASCII letters are outside the domain on which model and implementation are compared (those streams use ASCII, whitespace code points and a few non-letter symbols); characters whose case mapping changes length are exercised by the oracle-only stream expanding_case_oracle_only (expected values from Python str.upper/lower on the traced pairs, each resulting character keeping the markup of the one it came from)']
PARTIAL = ['not proved, left to the correspondence run and the oracle: exactness of split beyond a String / a one-String-part text (cut positions on multi-part texts, string separators; F17s), abbreviate; in ops_compose (hsem) an out-of-range int index (F23) and the cut positions of split steps (F17s) are explicit unspecified clauses',
           'immutability of operands is oracle-only: around every API call a deep snapshot (structure dump incl. external flags, tracing-back-end rendering, str, len) of each operand is compared before/after',
           'the _any theorems hold up to `erase`, which only reads the deprecated tag name emph as em (identity on every constructible text: erase_wf)',
           'refuted statements kept as theorems: index_out_of_range_raises_refuted (F23), contains/startswith/endswith_flat_refuted (F17), split_no_empty_piece_refuted (F17s)']
