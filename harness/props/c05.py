# C05 -- citation resolution.  Model: coq/Model/Citations.v; theorems: coq/Props/C05.v
#
# A case is (db, cites, m ...): db = file-order list of [key, [] | [crossref]], cites = list of keys.
# Reports (errors handed to pybtex.errors.report_error) are observed under errors.capture() and
# compared as the multiset of key sets they mention -- never by wording or exception class.
import itertools, random, re, os, io, tempfile, shutil
from core import *

ID = 'C05'

# ---------------------------------------------------------------------------------------------
# helpers
def _db(a):
    return [(S(e[0]), S(e[1][0]) if e[1] else None) for e in a]
def _keys(a):
    return [S(k) for k in a]
def low(s):
    return s.lower()
def consistent(cites):
    """repeated citations of a key are spelled consistently (the property's quantifier)"""
    sp = {}
    for c in cites:
        if sp.setdefault(low(c), c) != c:
            return False
    return True

_WORD = re.compile(r'[^\s"\'`]+')
def mentions(msg, cands):
    """the candidate keys an error message mentions, as a sorted list (wording-independent)"""
    out = set()
    for w in _WORD.findall(msg):
        for v in (w, w.rstrip('.:,;'), w.strip('.:,;()[]{}<>')):
            if v in cands and v:
                out.add(v); break
    return sorted(out)

def _cands(db, *keylists):
    c = set()
    for k, cr in db:
        c.add(k)
        if cr is not None:
            c.add(cr)
    for kl in keylists:
        c.update(kl or [])
    return c

def _reports(captured, cands):
    return sorted(mentions(str(e), cands) for e in captured)

def _entry(cr, fieldname='crossref'):
    from pybtex.database import Entry
    return Entry('misc', {fieldname: cr} if cr is not None else {})

def _mk_data(db, wanted=None):
    """BibliographyData(entries=..., wanted_entries=...) under capture; returns (data, captured)"""
    from pybtex.database import BibliographyData
    from pybtex import errors
    with errors.capture() as cap:
        data = BibliographyData(entries=[(k, _entry(cr)) for k, cr in db], wanted_entries=wanted)
        cap = list(cap)
    return data, cap

FIELD_SPELLINGS = ['crossref', 'CrossRef', 'CROSSREF']
def bib_text(db, start=0):
    """the .bib file of a db: one @misc per entry, delimiters / field-name case / layout varied
    deterministically with the position (none of it may matter)"""
    out = []
    for i, (k, cr) in enumerate(db, start):
        o, c = ('{', '}') if i % 3 != 2 else ('(', ')')
        fields = []
        if cr is not None:
            f = FIELD_SPELLINGS[i % 3]
            fields.append('%s = {%s}' % (f, cr) if i % 2 == 0 else '%s = "%s"' % (f, cr))
        if i % 2 == 1:
            fields.append('title = {T%d}' % i)
        fields.append('p%d = {%d}' % (i, i))      # position field: tells the BibTeX engine run which entries' fields an entry sees
        out.append('@%s%s%s,\n  %s\n%s\n' % (['misc', 'Misc', 'MISC'][i % 3], o, k, ',\n  '.join(fields), c))
    return '\n'.join(out)

# ---------------------------------------------------------------------------------------------
# keys beyond ASCII.  The model compares keys through Base/PyStr.lower (ASCII).  A case with a non-ASCII key
# is given to the model with every key replaced by an ASCII stand-in built from the per-case table
# key -> key.lower() that PYTHON computes (as C13 does with tbl_lower): keys with the same str.lower() get
# stand-ins that differ only in letter case, keys with different str.lower() get stand-ins that differ
# otherwise; '*' and '' stand for themselves.  The implementation always runs on the real keys; its outputs are
# translated to the stand-ins for the comparison and back for the oracle (which uses str.lower on real keys).
_ENC = [None]
def _all_keys(fn, a):
    ks = []
    for e in a[0]:
        ks.append(S(e[0]))
        if e[1]:
            ks.append(S(e[1][0]))
    cl = a[1]
    if fn in (4, 5, 7, 11, 14, 15):
        cl = a[1][0] if a[1] else []
    return ks + [S(k) for k in cl]

def enc_map(fn, a):
    ks = _all_keys(fn, a)
    if all(k.isascii() for k in ks):
        return None
    classes = {}; m = {}
    for k in ks:
        if k in m:
            continue
        if k in ('*', ''):
            m[k] = k; continue
        c = classes.setdefault(k.lower(), [len(classes), 0])
        j = c[1]; c[1] += 1
        m[k] = 'u%d' % c[0] + ''.join(ch.upper() if (j >> b) & 1 else ch for b, ch in enumerate('abcdefgh'))
    return m

def model_arg(fn, arg):
    m = enc_map(fn, arg)
    if m is None:
        return arg
    e = lambda k: norm(m[S(k)])
    db = [[e(x[0]), [e(x[1][0])] if x[1] else []] for x in arg[0]]
    if fn in (4, 5, 7, 11, 14, 15):
        cl = [[e(k) for k in arg[1][0]]] if arg[1] else []
    else:
        cl = [e(k) for k in arg[1]]
    return [db, cl] + list(arg[2:])

def _enc_out(v):
    m = _ENC[0]
    if m is None:
        return v
    if isinstance(v, str):
        return m.get(v, v)
    if isinstance(v, list):
        return [_enc_out(x) for x in v]
    return v

def _enc1(k):
    m = _ENC[0]
    return k if m is None else m.get(k, k)

def _wrap(fn, impl):
    def w(a):
        _ENC[0] = enc_map(fn, a)
        try:
            return impl(a)
        finally:
            _ENC[0] = None
    return w

def decode_out(fn, arg, out):
    """stand-ins in an implementation output -> the real keys (lower-cased stand-ins -> a key of that class)"""
    m = enc_map(fn, arg)
    if m is None:
        return out
    dec = {}
    for k, e in m.items():
        dec.setdefault(e.lower(), k.lower())
    for k, e in m.items():
        dec[e] = k
    def walk(v):
        if isinstance(v, list):
            if v and all(isinstance(x, int) for x in v):
                t = S(v)
                return norm(dec[t]) if t in dec else v
            return [walk(x) for x in v]
        return v
    return walk(out)

def _ci_out(cites, v, _top=True):
    """outside the property's quantifier (inconsistently spelled citation lists) only the letter
    case of emitted keys is left open: compare lower-cased"""
    if _top:
        v = _enc_out(v)
        if consistent(cites):
            return v
    if isinstance(v, str):
        return low(v)
    if isinstance(v, list):
        return [_ci_out(cites, x, False) for x in v]
    return v

def _entries_of(data):
    return [[k, [] if 'crossref' not in e.fields else [e.fields['crossref']]] for k, e in data.entries.items()]

# ---------------------------------------------------------------------------------------------
# implementation wrappers
def impl_expand(a):
    db, cites = _db(a[0]), _keys(a[1])
    def f():
        data, _ = _mk_data(db)
        return _ci_out(cites, list(data._expand_wildcard_citations(cites)))
    return call_impl(f)

def impl_crossrefs(a):
    db, cites, m = _db(a[0]), _keys(a[1]), a[2]
    def f():
        from pybtex import errors
        data, _ = _mk_data(db)
        with errors.capture() as cap:
            out = list(data._get_crossreferenced_citations(cites, m))
            cap = list(cap)
        return _ci_out(cites, [out, _reports(cap, _cands(db, cites))])
    return call_impl(f)

def impl_add_extra(a):
    db, cites, m = _db(a[0]), _keys(a[1]), a[2]
    def f():
        from pybtex import errors
        data, _ = _mk_data(db)
        with errors.capture() as cap:
            out = list(data.add_extra_citations(cites, m))
            cap = list(cap)
        return _ci_out(cites, [out, _reports(cap, _cands(db, cites))])
    return call_impl(f)

def impl_construct(a):
    db = _db(a[0]); wanted = _keys(a[1][0]) if a[1] else None
    def f():
        data, cap = _mk_data(db, wanted)
        for k, e in data.entries.items():
            if e.key != k:
                raise AssertionError('entry.key %r differs from the key it is stored under %r' % (e.key, k))
        return _ci_out(wanted or [], [_entries_of(data), _reports(cap, _cands(db, wanted))])
    return call_impl(f)

def impl_parse(a):
    db = _db(a[0]); wanted = _keys(a[1][0]) if a[1] else None
    def f():
        from pybtex.database.input.bibtex import Parser
        from pybtex import errors
        with errors.capture() as cap:
            data = Parser(wanted_entries=wanted).parse_string(bib_text(db))
            cap = list(cap)
        ents = [[k, [] if 'crossref' not in e.fields else [e.fields['crossref']]] for k, e in data.entries.items()]
        return _ci_out(wanted or [], [ents, _reports(cap, _cands(db, wanted))])
    return call_impl(f)

def _strict_call(strict, f):
    """run f under the error mode asked for: capture (collect reports) or strict (first report raises)"""
    from pybtex import errors
    if strict:
        old = errors.strict
        errors.set_strict_mode(True)
        try:
            return f(), []
        finally:
            errors.set_strict_mode(old)
    with errors.capture() as cap:
        v = f()
        return v, list(cap)

def impl_command_read(a):
    db, cites, m, strict = _db(a[0]), _keys(a[1]), a[2], a[3]
    def f():
        from pybtex.bibtex.interpreter import Interpreter
        from pybtex.database.input.bibtex import Parser
        it = Interpreter(Parser, None)
        it.citations = list(cites)
        it.bib_files = [io.StringIO(bib_text(db))]
        it.min_crossrefs = m
        _, cap = _strict_call(strict, it.command_read)
        return _ci_out(cites, [list(it.citations), _reports(cap, _cands(db, cites)), list(it.bib_data.entries.keys())])
    return call_impl(f)

_STYLE = {}
def _style(m):
    from pybtex.style.formatting.unsrt import Style
    if 'unsrt' not in _STYLE:
        _STYLE['unsrt'] = Style()
    st = _STYLE['unsrt']
    st.min_crossrefs = m
    return st

def impl_format_bibliography(a):
    db = _db(a[0]); cites = _keys(a[1][0]) if a[1] else None; m = a[2]
    def f():
        data, _ = _mk_data(db)
        fb, cap = _strict_call(0, lambda: _style(m).format_bibliography(data, cites))
        return _ci_out(cites or [], [[e.key for e in fb.entries], _reports(cap, _cands(db, cites))])
    return call_impl(f)

_BIBITEM = re.compile(r'\\bibitem(?:\[[^\]]*\])?\{([^}]*)\}')
_KEYBACKEND = []
def _key_backend():
    if not _KEYBACKEND:
        from pybtex.backends import BaseBackend
        class KeyBackend(BaseBackend):
            default_suffix = '.keys'
            def write_entry(self, key, label, text):
                self.output('\\bibitem{%s}\n' % key)
        _KEYBACKEND.append(KeyBackend)
    return _KEYBACKEND[0]

def impl_py_engine(a):
    db, cites, m, strict = _db(a[0]), _keys(a[1]), a[2], a[3]
    def f():
        from pybtex import PybtexEngine
        def run(backend):
            return PybtexEngine().format_from_string(bib_text(db), style='unsrt', citations=list(cites), min_crossrefs=m, output_backend=backend)
        try:
            out, cap = _strict_call(strict, lambda: run(None))
        except ValueError:
            # the LaTeX back end cannot write an EMPTY bibliography (max() of no labels, pybtex/style/labels);
            # that is outside citation resolution: observe the selection through a key-only back end then
            out, cap = _strict_call(strict, lambda: run(_key_backend()))
            if _BIBITEM.findall(out):
                raise
        return _ci_out(cites, [_BIBITEM.findall(out), _reports(cap, _cands(db, cites))])
    return call_impl(f)

_BST_DIR = [None, None]
NPOS = 10
BST = ('ENTRY {title %s}{}{}\n' % ' '.join('p%d' % i for i in range(NPOS))
       + 'FUNCTION {out} { cite$ write$ %s newline$ }\n' % ' '.join('"|" write$ p%d missing$ { "-" } { p%d } if$ write$' % (i, i) for i in range(NPOS))
       + 'READ\nITERATE {out}\n')
def _bst_style():
    # a one-line style that prints cite$ of every entry READ selected; lives in a private temp
    # directory of this process, removed at exit
    if _BST_DIR[0] is None or _BST_DIR[1] != os.getpid() or not os.path.exists(_BST_DIR[0]):
        d = tempfile.mkdtemp(prefix='c05bst')
        open(os.path.join(d, 'cites.bst'), 'w').write(BST)
        import atexit
        atexit.register(shutil.rmtree, d, True)
        _BST_DIR[0] = d; _BST_DIR[1] = os.getpid()
    return os.path.join(_BST_DIR[0], 'cites')

def _bibtex_out(db, cites, out, cap):
    keys = []; seen_keys = []; seen_pos = []
    for l in out.split('\n'):
        if not l:
            continue
        parts = l.split('|')
        keys.append(parts[0])
        pos = [int(v) for v in parts[1:] if v != '-']
        seen_pos.append(pos)
        seen_keys.append(sorted(set(_enc1(db[i][0]).lower() for i in pos)))
    # [cite$ of every entry, reports, per entry the keys of the entries whose fields it sees (compared
    #  with the model), the same as file positions (for the oracle only)]
    return _ci_out(cites, [keys, _reports(cap, _cands(db, cites)), seen_keys]) + [seen_pos]

def impl_bibtex_engine(a):
    db, cites, m, strict = _db(a[0]), _keys(a[1]), a[2], a[3]
    def f():
        from pybtex.bibtex import BibTeXEngine
        out, cap = _strict_call(strict, lambda: BibTeXEngine().format_from_string(
            bib_text(db), style=_bst_style(), citations=list(cites), min_crossrefs=m))
        return _bibtex_out(db, cites, out, cap)
    return call_impl(f)

# ---- multi-source entry points: the database is the concatenation of the sources in the order given
SRC_NAMES = ['zeta', 'alpha', 'mid']           # deliberately not in alphabetical order
def _sources(db, cuts):
    """split db into consecutive sources of the given sizes; each rendered with the GLOBAL entry positions"""
    out = []; i = 0
    for n in cuts:
        out.append(bib_text(db[i:i + n], start=i)); i += n
    if i < len(db):
        out.append(bib_text(db[i:], start=i))
    return out

class _SrcDir(object):
    """a private temp directory with the sources as zeta.bib, alpha.bib, mid.bib ...; removed on exit"""
    def __init__(self, texts):
        self.texts = texts
    def __enter__(self):
        self.d = tempfile.mkdtemp(prefix='c05src')
        self.bases = []
        for n, t in zip(SRC_NAMES + ['s%d' % i for i in range(len(self.texts))], self.texts):
            b = os.path.join(self.d, n); self.bases.append(b)
            with io.open(b + '.bib', 'w', encoding='utf-8') as f:
                f.write(t)
        return self
    def aux(self, cites, style):
        p = os.path.join(self.d, 'doc.aux')
        with io.open(p, 'w', encoding='utf-8') as f:
            f.write('\\relax\n' + ''.join('\\citation{%s}\n' % c for c in cites)
                    + '\\bibdata{%s}\n\\bibstyle{%s}\n' % (','.join(self.bases), style))
        return p
    def __exit__(self, *a):
        shutil.rmtree(self.d, True)

def impl_parse_files(a):
    db = _db(a[0]); wanted = _keys(a[1][0]) if a[1] else None; cuts = a[2]
    def f():
        from pybtex.database.input.bibtex import Parser
        from pybtex import errors
        with _SrcDir(_sources(db, cuts)) as sd:
            with errors.capture() as cap:
                data = Parser(wanted_entries=wanted).parse_files(sd.bases, '.bib')
                cap = list(cap)
        return _ci_out(wanted or [], [_entries_of(data), _reports(cap, _cands(db, wanted))])
    return call_impl(f)

def _multi_run(engine_cls, db, cites, m, strict, cuts, mode, style, **kw):
    """mode 0: format_from_strings, 1: format_from_files, 2: make_bibliography(.aux with \\bibdata{zeta,alpha,..})"""
    texts = _sources(db, cuts)
    if mode == 0:
        return _strict_call(strict, lambda: engine_cls().format_from_strings(texts, style=style, citations=list(cites), min_crossrefs=m, **kw))
    with _SrcDir(texts) as sd:
        if mode == 1:
            return _strict_call(strict, lambda: engine_cls().format_from_files([b + '.bib' for b in sd.bases], style=style, citations=list(cites), min_crossrefs=m, **kw))
        aux = sd.aux(cites, style)
        def run():
            engine_cls().make_bibliography(aux, min_crossrefs=m, **kw)
            outs = [n for n in os.listdir(sd.d) if n.startswith('doc.') and n != 'doc.aux']
            return io.open(os.path.join(sd.d, outs[0]), encoding='utf-8').read() if outs else ''
        return _strict_call(strict, run)

def impl_bibtex_multi(a):
    db, cites, m, strict, cuts, mode = _db(a[0]), _keys(a[1]), a[2], a[3], a[4], a[5]
    def f():
        from pybtex.bibtex import BibTeXEngine
        out, cap = _multi_run(BibTeXEngine, db, cites, m, strict, cuts, mode, _bst_style())
        return _bibtex_out(db, cites, out, cap)
    return call_impl(f)

def impl_py_multi(a):
    db, cites, m, strict, cuts, mode = _db(a[0]), _keys(a[1]), a[2], a[3], a[4], a[5]
    def f():
        from pybtex import PybtexEngine
        try:
            out, cap = _multi_run(PybtexEngine, db, cites, m, strict, cuts, mode, 'unsrt')
        except ValueError:
            out, cap = _multi_run(PybtexEngine, db, cites, m, strict, cuts, mode, 'unsrt', output_backend=_key_backend())
            if _BIBITEM.findall(out):
                raise
        return _ci_out(cites, [_BIBITEM.findall(out), _reports(cap, _cands(db, cites))])
    return call_impl(f)

# ---- the other input formats and the add_entries()/add_entry() API: the same BibliographyData filtering,
#      reached through other readers (YAML and BibTeXML hand their entries to add_entries as a generator)
import json as _json
FORMATS = ['yaml', 'bibtexml']
def yaml_text(db):
    if not db:
        return 'entries: {}\n'
    out = ['entries:']
    for i, (k, cr) in enumerate(db):
        out.append('    %s:' % _json.dumps(k, ensure_ascii=False))
        out.append('        type: misc')
        if cr is not None:
            out.append('        %s: %s' % (FIELD_SPELLINGS[i % 3], _json.dumps(cr, ensure_ascii=False)))
        out.append('        p%d: "%d"' % (i, i))
    return '\n'.join(out) + '\n'

def bibtexml_text(db):
    from xml.sax.saxutils import escape, quoteattr
    out = ['<bibtex:file xmlns:bibtex="http://bibtexml.sf.net/">']
    for i, (k, cr) in enumerate(db):
        f = ''
        if cr is not None:
            f += '<bibtex:%s>%s</bibtex:%s>' % (FIELD_SPELLINGS[i % 3], escape(cr), FIELD_SPELLINGS[i % 3])
        f += '<bibtex:p%d>%d</bibtex:p%d>' % (i, i, i)
        out.append('<bibtex:entry id=%s><bibtex:misc>%s</bibtex:misc></bibtex:entry>' % (quoteattr(k), f))
    out.append('</bibtex:file>')
    return '\n'.join(out) + '\n'

def _fmt_text(db, fmt):
    return yaml_text(db) if fmt == 0 else bibtexml_text(db)
def _fmt_parser(fmt):
    if fmt == 0:
        from pybtex.database.input.bibyaml import Parser
    else:
        from pybtex.database.input.bibtexml import Parser
    return Parser

def impl_parse_format(a):
    db = _db(a[0]); wanted = _keys(a[1][0]) if a[1] else None; fmt = a[2]
    def f():
        from pybtex import errors
        with errors.capture() as cap:
            data = _fmt_parser(fmt)(wanted_entries=wanted).parse_string(_fmt_text(db, fmt))
            cap = list(cap)
        return _ci_out(wanted or [], [_entries_of(data), _reports(cap, _cands(db, wanted))])
    return call_impl(f)

def impl_add_entries(a):
    db = _db(a[0]); wanted = _keys(a[1][0]) if a[1] else None; how = a[2]
    def f():
        from pybtex.database import BibliographyData
        from pybtex import errors
        with errors.capture() as cap:
            data = BibliographyData(wanted_entries=wanted)
            pairs = [(k, _entry(cr)) for k, cr in db]
            if how == 0:
                data.add_entries((p for p in pairs))          # a generator, as the YAML / BibTeXML readers pass
            elif how == 1:
                data.add_entries(pairs)
            else:
                for k, e in pairs:
                    data.add_entry(k, e)
            cap = list(cap)
        return _ci_out(wanted or [], [_entries_of(data), _reports(cap, _cands(db, wanted))])
    return call_impl(f)

def impl_command_read_format(a):
    db, cites, m, strict, fmt = _db(a[0]), _keys(a[1]), a[2], a[3], a[4]
    def f():
        from pybtex.bibtex.interpreter import Interpreter
        it = Interpreter(_fmt_parser(fmt), None)
        it.citations = list(cites)
        it.bib_files = [io.BytesIO(_fmt_text(db, fmt).encode('utf-8'))]
        it.min_crossrefs = m
        _, cap = _strict_call(strict, it.command_read)
        return _ci_out(cites, [list(it.citations), _reports(cap, _cands(db, cites)), list(it.bib_data.entries.keys())])
    return call_impl(f)

def impl_bibtex_format(a):
    db, cites, m, strict, fmt = _db(a[0]), _keys(a[1]), a[2], a[3], a[4]
    def f():
        from pybtex.bibtex import BibTeXEngine
        out, cap = _strict_call(strict, lambda: BibTeXEngine().format_from_files(
            [io.BytesIO(_fmt_text(db, fmt).encode('utf-8'))], style=_bst_style(), citations=list(cites), min_crossrefs=m, bib_format=_fmt_parser(fmt)))
        return _bibtex_out(db, cites, out, cap)
    return call_impl(f)

def impl_py_format(a):
    db, cites, m, strict, fmt = _db(a[0]), _keys(a[1]), a[2], a[3], a[4]
    def f():
        from pybtex import PybtexEngine
        def run(backend):
            return PybtexEngine().format_from_files([io.BytesIO(_fmt_text(db, fmt).encode('utf-8'))], style='unsrt', citations=list(cites),
                                                    min_crossrefs=m, bib_format=FORMATS[fmt], output_backend=backend)
        try:
            out, cap = _strict_call(strict, lambda: run(None))
        except ValueError:
            out, cap = _strict_call(strict, lambda: run(_key_backend()))
            if _BIBITEM.findall(out):
                raise
        return _ci_out(cites, [_BIBITEM.findall(out), _reports(cap, _cands(db, cites))])
    return call_impl(f)

def impl_select_unfiltered(a):
    db, cites, m = _db(a[0]), _keys(a[1]), a[2]
    def f():
        from pybtex.database.input.bibtex import Parser
        from pybtex import errors
        with errors.capture() as cap:
            data = Parser().parse_string(bib_text(db))
            cs = data.add_extra_citations(cites, m)
            cap = list(cap)
        keep = [c for c in cs if c in data.entries]
        miss = [[c] for c in cs if c not in data.entries and c]
        return _ci_out(cites, [keep, sorted(_reports(cap, _cands(db, cites)) + miss)])
    return call_impl(f)

KEY = 'S'
DB = ('L', ('T', KEY, ('O', KEY)))
CITES = ('L', KEY)
FUNCS = {
    1: ('BibliographyData._expand_wildcard_citations', impl_expand, ('T', DB, CITES)),
    2: ('BibliographyData._get_crossreferenced_citations', impl_crossrefs, ('T', DB, CITES, 'N')),
    3: ('BibliographyData.add_extra_citations', impl_add_extra, ('T', DB, CITES, 'N')),
    4: ('BibliographyData(entries, wanted_entries) / add_entry', impl_construct, ('T', DB, ('O', CITES))),
    5: ('bibtex Parser(wanted_entries).parse_string', impl_parse, ('T', DB, ('O', CITES))),
    6: ('Interpreter.command_read', impl_command_read, ('T', DB, CITES, 'N', 'B')),
    7: ('BaseStyle.format_bibliography', impl_format_bibliography, ('T', DB, ('O', CITES), 'N')),
    8: ('PybtexEngine.format_from_string (\\bibitem keys)', impl_py_engine, ('T', DB, CITES, 'N', 'B')),
    9: ('BibTeXEngine.format_from_string (cite$ of every entry)', impl_bibtex_engine, ('T', DB, CITES, 'N', 'B')),
    10: ('unfiltered parse_string + add_extra_citations + selection', impl_select_unfiltered, ('T', DB, CITES, 'N')),
    11: ('bibtex Parser(wanted_entries).parse_files (2-3 sources)', impl_parse_files, ('T', DB, ('O', CITES), 'X')),
    12: ('BibTeXEngine.format_from_strings / format_from_files / make_bibliography(.aux) (2-3 sources)', impl_bibtex_multi, ('T', DB, CITES, 'N', 'B', 'X', 'X')),
    13: ('PybtexEngine.format_from_strings / format_from_files / make_bibliography(.aux) (2-3 sources)', impl_py_multi, ('T', DB, CITES, 'N', 'B', 'X', 'X')),
    14: ('yaml / bibtexml Parser(wanted_entries).parse_string', impl_parse_format, ('T', DB, ('O', CITES), 'X')),
    15: ('BibliographyData(wanted_entries).add_entries(generator | list) / add_entry loop', impl_add_entries, ('T', DB, ('O', CITES), 'X')),
    16: ('Interpreter.command_read on a yaml / bibtexml database', impl_command_read_format, ('T', DB, CITES, 'N', 'B', 'X')),
    17: ('BibTeXEngine.format_from_files on a yaml / bibtexml database', impl_bibtex_format, ('T', DB, CITES, 'N', 'B', 'X')),
    18: ('PybtexEngine.format_from_files on a yaml / bibtexml database', impl_py_format, ('T', DB, CITES, 'N', 'B', 'X')),
}
# core's order-independence replay re-runs ~190 cases per function twice in one process; the Python engine end to end
# costs 22 ms a case -- it stays in the replay through fn 13 (same PybtexEngine code, other entry points)
ORDER_REPLAY_SKIP_FUNCS = (8, 18)
BASE_FN = {11: 5, 12: 9, 13: 8, 14: 5, 15: 4, 16: 6, 17: 9, 18: 8}        # the multi-source entry points answer like these on the concatenation

FUNCS = dict((fn, (v[0], _wrap(fn, v[1]), v[2])) for fn, v in FUNCS.items())

def canon(fn, r):
    """reports: multiset of mentioned-key sets (model: [tag, keys]); error class / line ignored;
    fn 9: the per-entry ancestor lists are compared as sets; the position lists (oracle only) dropped"""
    if not (isinstance(r, list) and r):
        return r
    if r[0] == 1:
        return [1]
    if r[0] != 0:
        return r
    fn = BASE_FN.get(fn, fn)
    v = r[1]
    if fn == 1:
        return r
    def rep(x):
        ks = x[1] if (len(x) == 2 and isinstance(x[0], int)) else x      # model form [tag, [keys]]
        return sorted(k for k in ks if k)
    out = [v[0], sorted(rep(x) for x in v[1])]
    if fn == 6 and len(v) > 2:
        out.append(v[2])
    if fn == 9 and len(v) > 2:
        out.append([sorted(set(tuple(k) for k in ks)) for ks in v[2]])
    return [0, out]


# ---------------------------------------------------------------------------------------------
# the property, in plain Python (independent of pybtex): which entries, in which order
def spec_resolve(db, cites, m, expand_star=True):
    first = {}; order = []
    for k, cr in db:
        if low(k) not in first:
            first[low(k)] = (k, cr); order.append(low(k))
    seen = set(); explicit = []
    for c in cites:
        for x in ([first[l][0] for l in order] if (c == '*' and expand_star) else [c]):
            if low(x) not in seen:
                seen.add(low(x)); explicit.append(x)
    counts = {}; extra = []; dangling = []
    for c in explicit:
        e = first.get(low(c))
        if e is None or e[1] is None:
            continue
        p = low(e[1])
        if p not in first:
            dangling.append((c, e[1])); continue
        counts[p] = counts.get(p, 0) + 1
        if counts[p] == m and p not in seen:
            extra.append(first[p][0])
    missing = [c for c in explicit if low(c) not in first]
    return explicit, extra, missing, dangling, first

def filtered_db_pos(db, wanted):
    """what parse-time filtering keeps, with file positions (the F13-aware reference; used only to recognise the known finding)"""
    w = set(low(c) for c in wanted)
    kept = []; have = set()
    for i, (k, cr) in enumerate(db):
        if '*' in w or low(k) in w:
            if low(k) not in have:
                have.add(low(k)); kept.append((k, cr, i))
                if cr is not None:
                    w.add(low(cr))
    return kept
def filtered_db(db, wanted):
    return [(k, cr) for k, cr, _ in filtered_db_pos(db, wanted)]

def _firstpos(db):
    fp = {}
    for i, (k, cr) in enumerate(db):
        fp.setdefault(low(k), i)
    return fp

def closure(db, roots):
    """the keys (lower-cased) of the database reachable from the roots through the crossref of the FIRST
    entry of each key; '*' among the roots = every key"""
    fp = _firstpos(db)
    todo = list(fp) if '*' in roots else [low(r) for r in roots]
    seen = set()
    while todo:
        q = todo.pop()
        if q in seen or q not in fp:
            continue
        seen.add(q)
        cr = db[fp[q]][1]
        if cr is not None:
            todo.append(low(cr))
    return seen

def chain_positions(entries, key):
    """file positions of the entries whose fields `key` sees in a database given as (key, crossref, position)
    triples (first entry of a key wins): itself, its crossref target, ... until dangling / none / repeat"""
    first = {}
    for k, cr, i in entries:
        first.setdefault(low(k), (cr, i))
    out = []; q = low(key); vis = set()
    while q in first and q not in vis:
        vis.add(q); cr, i = first[q]; out.append(i)
        if cr is None:
            break
        q = low(cr)
    return sorted(out)

def f13_general(db, cites):
    """some entry reachable from the citations through crossref chains has its (existing, uncited) crossref
    target EARLIER in the file, and reading is filtered by the citations (no wildcard)"""
    cs = set(low(c) for c in cites)
    if '*' in cs:
        return False
    fp = _firstpos(db)
    for q in closure(db, cites):
        cr = db[fp[q]][1]
        if cr is not None and low(cr) in fp and fp[low(cr)] < fp[q] and low(cr) not in cs:
            return True
    return False

def _check_kept(db, roots, stored_keys, label):
    """every entry reachable from the citations through crossref chains is in the filtered database"""
    have = set(_lows(stored_keys))
    fp = _firstpos(db)
    for k in stored_keys:
        if low(k) not in fp:
            return '%s: the read database has an entry %r the file does not have' % (label, k)
    lost = sorted(q for q in closure(db, roots) if q not in have)
    if lost:
        msg = '%s: filtered reading lost %r, reachable from the citations %r through cross-references (read database: %r)' % (label, lost, roots, stored_keys)
        if f13_general(db, roots) and sorted(have) == sorted(_lows([k for k, _ in filtered_db(db, roots)])):
            return 'F13-pattern: ' + msg
        return msg
    return None

def f13_pattern(db, cites):
    """an uncited parent precedes, in file order, a cited child that cross-references it, and
    reading is filtered by the citations (no wildcard)"""
    cs = set(low(c) for c in cites)
    if '*' in cs:
        return False
    firstpos = {}
    for i, (k, cr) in enumerate(db):
        firstpos.setdefault(low(k), i)
    for i, (k, cr) in enumerate(db):
        if cr is not None and low(k) in cs and firstpos[low(k)] == i:
            p = low(cr)
            if p in firstpos and firstpos[p] < i and p not in cs:
                return True
    return False

def _lows(l):
    return [low(x) for x in l]

def _covers(reps, keys):
    """some report mentions one of the keys (letter case ignored)"""
    ks = set(low(k) for k in keys if k)
    if not ks:
        return True
    return any(any(low(t) in ks for t in r) for r in reps)

def _check_selection(db, cites, m, keys, reps, filtered, label):
    explicit, extra, missing, dangling, first = spec_resolve(db, cites, m)
    miss = set(low(c) for c in missing)
    want = [k for k in explicit + extra if low(k) not in miss]
    if _lows(keys) != _lows(want):
        msg = '%s: entries %r, the property demands %r' % (label, keys, want)
        if filtered and f13_general(db, cites):
            kdb = filtered_db(db, cites)
            e2, x2, m2, d2, _ = spec_resolve(kdb, cites, m)
            ms2 = set(low(c) for c in m2)
            if _lows(keys) == _lows([k for k in e2 + x2 if low(k) not in ms2]):
                return 'F13-pattern: ' + msg
        return msg
    for c in missing:
        if not _covers(reps, [c]):
            return '%s: cited key %r is missing from the database and was not reported (reports: %r)' % (label, c, reps)
    for (c, p) in dangling:
        if not _covers(reps, [c, p]):
            return '%s: dangling cross-reference %r -> %r was not reported (reports: %r)' % (label, c, p, reps)
    if filtered and consistent(cites):
        sp = dict((low(c), c) for c in cites)
        for k in keys:
            if low(k) in sp and sp[low(k)] != k:
                return '%s: key emitted as %r although it is cited as %r' % (label, k, sp[low(k)])
    return None

def oracle(fn, arg, out):
    out = decode_out(fn, arg, out)
    label = FUNCS[fn][0]
    fn = BASE_FN.get(fn, fn)
    if not (isinstance(out, list) and out) or out[0] == 2:
        return 'foreign (non-pybtex) exception in %s' % label
    db = _db(arg[0])
    if fn in (4, 5):
        wanted = _keys(arg[1][0]) if arg[1] else None
        if out[0] != 0:
            return 'reading raised under capture'
        ents = [(S(e[0]), S(e[1][0]) if e[1] else None) for e in out[1][0]]
        lk = _lows([k for k, _ in ents])
        if len(set(lk)) != len(lk):
            return 'an entry is stored twice: %r' % (ents,)
        first = {}; order = []
        for k, cr in db:
            if low(k) not in first:
                first[low(k)] = (k, cr); order.append(low(k))
        if wanted is None or '*' in wanted:
            if lk != order:
                return 'reading everything: stored %r, database has %r' % (lk, order)
        ws = set(_lows(wanted)) if wanted is not None else None
        cons = wanted is None or consistent(wanted)
        for k, cr in ents:
            if low(k) not in first:
                return 'stored entry %r is not in the database' % ((k, cr),)
            if ws is None or '*' in ws or low(k) in ws:
                # an entry wanted from the start: the first one of that key in the file is the one kept
                fcr = first[low(k)][1]
                if (fcr != cr) if cons else ((fcr is None) != (cr is None) or (fcr is not None and low(fcr) != low(cr))):
                    return 'stored entry %r is not the first database entry of that key' % ((k, cr),)
        if wanted is not None:
            for c in wanted:
                if c != '*' and low(c) in first and low(c) not in lk:
                    return 'wanted entry %r was not read' % c
            if consistent(wanted):
                sp = dict((low(c), c) for c in wanted)
                for k, _ in ents:
                    if low(k) in sp and sp[low(k)] != k:
                        return 'entry stored as %r although it is cited as %r' % (k, sp[low(k)])
            return _check_kept(db, wanted, [k for k, _ in ents], label)
        return None
    cites = _keys(arg[1]) if fn != 7 else (_keys(arg[1][0]) if arg[1] else None)
    m = arg[2] if len(arg) > 2 else 1
    if m < 1:
        return None            # the property speaks of min_crossrefs >= 1
    if fn == 7 and cites is None:
        cites = [k for k, _ in db if True]
    if fn in (6, 8, 9) and arg[3]:
        # strict mode: the first report is raised
        explicit, extra, missing, dangling, first = spec_resolve(db, cites, m)
        dup = len(set(_lows([k for k, _ in db]))) != len(db)      # a repeated entry is reported too
        if out[0] == 1:
            if missing or dangling:
                return None
            if f13_general(db, cites):
                return 'F13-pattern: strict run raised although nothing is missing or dangling'
            return None if dup else 'strict run raised although nothing is missing, dangling or repeated'
        if missing or dangling:
            return 'strict run did not raise although %r missing / %r dangling' % (missing, dangling)
        return _check_selection(db, cites, m, _keys(out[1][0]), [], True, label)
    if out[0] != 0:
        return '%s raised under capture' % label
    keys = _keys(out[1][0]) if fn != 1 else _keys(out[1])
    reps = [_keys(r) for r in out[1][1]] if fn != 1 else []
    if fn == 1:
        explicit = spec_resolve(db, cites, 1)[0]
        if _lows(keys) != _lows(explicit):
            return 'expansion %r, the property demands %r' % (keys, explicit)
        if consistent(cites):
            for k, c in zip(keys, explicit):
                if k != c and low(c) in set(_lows([x for x in cites if x != '*'])) and '*' not in cites:
                    return 'explicit citation emitted as %r, cited as %r' % (k, c)
        return None
    if fn == 2:
        if '*' in cites or len(set(_lows(cites))) != len(cites):
            return None
        explicit, extra, missing, dangling, first = spec_resolve(db, cites, m, expand_star=False)
        if _lows(keys) != _lows(extra):
            return 'cross-referenced additions %r, the property demands %r' % (keys, extra)
        return None
    if fn == 3:
        explicit, extra, missing, dangling, first = spec_resolve(db, cites, m)
        if _lows(keys) != _lows(explicit + extra):
            return 'add_extra_citations gave %r, the property demands %r' % (keys, explicit + extra)
        for (c, p) in dangling:
            if not _covers(reps, [c, p]):
                return 'dangling cross-reference %r -> %r was not reported' % (c, p)
        return None
    msg = _check_selection(db, cites, m, keys, reps, fn in (6, 8, 9), label)
    if msg:
        return msg
    if fn == 6 and len(out[1]) > 2:
        return _check_kept(db, cites, _keys(out[1][2]), label)
    if fn == 9 and len(out[1]) > 3:
        whole = [(k, cr, i) for i, (k, cr) in enumerate(db)]
        for k, pos in zip(keys, out[1][3]):
            want = chain_positions(whole, k)
            if sorted(pos) != want:
                msg = '%s: entry %r sees the fields of the entries at file positions %r, in the whole database it inherits from %r' % (label, k, sorted(pos), want)
                if f13_general(db, cites) and sorted(pos) == chain_positions(filtered_db_pos(db, cites), k):
                    return 'F13-pattern: ' + msg
                return msg
    return None

# ---------------------------------------------------------------------------------------------
def _sig_cites(fn, arg):
    if fn in (4, 5, 11, 14, 15):
        return _keys(arg[1][0]) if arg[1] else None
    return _keys(arg[1])
KNOWN_SIGNATURES = {
    # narrow: the oracle itself recognises the pattern (an uncited cross-reference target placed before an entry
    # reachable from the citations, filtered reading, no wildcard) AND that the output is exactly what
    # skipping the not-yet-wanted entries explains
    'F13': lambda kind, fn, arg, detail: (kind == 'oracle' and fn in (4, 5, 6, 8, 9, 11, 12, 13, 14, 15, 16, 17, 18) and isinstance(detail, str)
                                          and detail.startswith('F13-pattern: ') and _sig_cites(fn, arg) is not None
                                          and f13_general(_db(arg[0]), _sig_cites(fn, arg))),
}
F13_PINNED = {'fn': 6, 'arg': norm([[['P', []], ['C', ['P']]], ['C'], 1, 0])}

def replay_known(finding):
    if finding.get('id') != 'F13':
        return None
    p = finding.get('pinned') or F13_PINNED
    out = FUNCS[p['fn']][1](p['arg'])
    msg = oracle(p['fn'], p['arg'], out)
    if msg and msg.startswith('F13-pattern: '):
        return 'pinned input still fails: db [P; C -> P], cite C, min_crossrefs 1 gives %s' % (describe_out(out),)
    return None

def describe_out(out):
    try:
        return repr([_keys(out[1][0]), [_keys(r) for r in out[1][1]]])
    except Exception:
        return repr(out)

def describe(fn, a):
    d = {'function': FUNCS[fn][0], 'database (file order)': ['%s -> %s' % (k, cr) if cr is not None else k for k, cr in _db(a[0])]}
    if fn in (4, 5, 11, 14, 15):
        d['wanted_entries'] = _keys(a[1][0]) if a[1] else None
    elif fn == 7:
        d['citations'] = _keys(a[1][0]) if a[1] else None
    else:
        d['citations'] = _keys(a[1])
    if len(a) > 2:
        d['min_crossrefs'] = a[2]
    if fn in (12, 13):
        d['strict'] = bool(a[3]); d['source sizes'] = a[4]; d['entry point'] = ['format_from_strings', 'format_from_files', 'make_bibliography(.aux)'][a[5]]
    elif fn == 11:
        d.pop('min_crossrefs', None); d['source sizes'] = a[2]
    elif fn == 14:
        d.pop('min_crossrefs', None); d['format'] = FORMATS[a[2]]
    elif fn == 15:
        d.pop('min_crossrefs', None); d['through'] = ['add_entries(generator)', 'add_entries(list)', 'add_entry loop'][a[2]]
    elif fn in (16, 17, 18):
        d['strict'] = bool(a[3]); d['format'] = FORMATS[a[4]]
    elif len(a) > 3:
        d['strict'] = bool(a[3])
    return d

def nontrivial(fn, a, out):
    """something happened: the selected list differs from the citation list as given, or a report was made"""
    if out[0] != 0:
        return True
    fn = BASE_FN.get(fn, fn)
    if fn in (4, 5):
        return len(out[1][0]) != len(a[0]) or bool(out[1][1])
    if fn == 1:
        return out[1] != a[1]
    cites = a[1] if fn != 7 else (a[1][0] if a[1] else None)
    return out[1][0] != cites or bool(out[1][1])

# ---------------------------------------------------------------------------------------------
# generators
DBKEYS = ['x1', 'Y2', 'z3', 'W4']
XREFS = ['X1', 'Y2', 'Z3', 'w4']          # how a cross-reference spells each of the keys above (other / same case)
CITE_ALPHA = ['X1', 'x1', 'y2', 'z3', 'q9', '*']

def small_dbs(n):
    """all databases with the n keys a, B, c, D and, per entry, crossref in {none, each key, dangling}"""
    opts = [None] + XREFS[:n] + ['q9']
    for xs in itertools.product(opts, repeat=n):
        yield [[DBKEYS[i], [] if xs[i] is None else [xs[i]]] for i in range(n)]

def cite_lists(maxlen, alpha=CITE_ALPHA):
    for n in range(maxlen + 1):
        for t in itertools.product(alpha, repeat=n):
            yield list(t)

def _fmt_ok(db, fmt):
    """a YAML mapping cannot hold the same key twice (spelled identically); BibTeXML can"""
    ks = [e[0] for e in db]
    return fmt if (fmt == 1 or len(set(ks)) == len(ks)) else 1

def gen(tier, rng):
    thorough = tier != 'quick'
    # (d) pinned: F13 and its neighbours, every disagreement seen while building
    pins = [
        ([['P', []], ['C', ['P']]], ['C'], 1),               # F13
        ([['C', ['P']], ['P', []]], ['C'], 1),               # the same with the parent after the child
        ([['P', []], ['C', ['p']], ['D', ['P']]], ['c', 'D'], 2),
        ([['P', []], ['C', ['P']]], ['C', 'P'], 1),
        ([['P', []], ['C', ['P']]], ['*'], 1),
        ([['P', []], ['C', ['P']]], ['c', '*'], 1),
        ([['a', ['*']], ['b', []], ['*', []]], ['a'], 1),    # a crossref field spelled '*' makes everything wanted
        ([['a', ['b']], ['b', ['c']], ['c', []]], ['a'], 1),  # chains are not followed
        ([['a', ['a']]], ['a'], 1),                          # self reference
        ([['a', []], ['A', ['b']], ['b', []]], ['a'], 1),    # repeated entry
        ([['c', ['x']], ['a', ['c']], ['C', ['y']]], ['a'], 1),
        ([['a', ['']], ['b', []]], ['a', 'b'], 1),           # empty crossref
        ([['uno', []], ['dos', []], ['tres', []], ['cuatro', []]], ['dos', '*'], 2),
        ([['uno', []], ['dos', []], ['tres', []], ['cuatro', []]], ['*', 'DOS'], 2),
        ([['main_article', ['xrefd_arcicle']], ['xrefd_arcicle', []]], ['Main_article'], 1),
    ]
    for db, cites, m in pins:
        yield ('pinned', 3, [db, cites, m])
        yield ('pinned', 2, [db, cites, m])
        yield ('pinned', 1, [db, cites])
        yield ('pinned', 4, [db, [cites]])
        yield ('pinned', 5, [db, [cites]])
        for fmt in (0, 1):
            yield ('pinned', 14, [db, [cites], _fmt_ok(db, fmt)])
            yield ('pinned', 16, [db, cites, m, 0, _fmt_ok(db, fmt)])
        for how in (0, 1, 2):
            yield ('pinned', 15, [db, [cites], how])
        yield ('pinned', 7, [db, [cites], m])
        yield ('pinned', 10, [db, cites, m])
        for strict in (0, 1):
            yield ('pinned', 6, [db, cites, m, strict])
            yield ('pinned', 8, [db, cites, m, strict])
            yield ('pinned', 9, [db, cites, m, strict])
    # (a) exhaustive small scope
    nmax = 3
    lmax = 3 if not thorough else 4
    dbs = [db for n in range(nmax + 1) for db in small_dbs(n)]
    cls = list(cite_lists(lmax))
    for n in range(nmax + 1):
        kdb = [[DBKEYS[i], []] for i in range(n)]
        for cl in cite_lists(3 if not thorough else 5):
            yield ('exhaustive', 1, [kdb, cl])
    j = 0                                         # counts (db, citation list) pairs; strides use j + m so that
    for db in dbs:                                # every min_crossrefs is sampled evenly
        for cl in cls:
            j += 1
            long = len(cl) > 3                    # thorough only, strided (memory: ~4 kB per case in core.py)
            for m in ((1, 2) if (not thorough or long) else (1, 2, 3)):
                if m > max(1, len(db)):
                    continue
                k = j + m
                if long:
                    if k % 8 == 0:
                        yield ('exhaustive', 3, [db, cl, m])
                    if k % 32 == 0:
                        yield ('exhaustive', 6, [db, cl, m, 0])
                    continue
                if thorough or k % 3 == 1 or len(cl) <= 2:
                    yield ('exhaustive', 3, [db, cl, m])
                if thorough or k % 3 == 0 or len(cl) <= 2:
                    yield ('exhaustive', 6, [db, cl, m, 0])
                if k % 8 == 0 or (thorough and k % 2 == 0):
                    yield ('exhaustive', 7, [db, [cl], m])
                if k % 8 == 4 or (thorough and k % 2 == 0):
                    yield ('exhaustive', 10, [db, cl, m])
                if '*' not in cl and (thorough or k % 12 == 0):
                    yield ('exhaustive', 2, [db, cl, m])
            if len(cl) <= 3 and (j % 3 == 0 if thorough else j % 20 == 0):
                yield ('exhaustive', 14, [db, [cl], (j // 20) % 2])
                yield ('exhaustive', 15, [db, [cl], (j // 3) % 3])
                for m in ((1, 2) if thorough else (1 + (j // 40) % 2,)):
                    if m <= max(1, len(db)):
                        yield ('exhaustive', 16, [db, cl, m, 0, (j + m) % 2])
            if len(cl) <= 2 or (len(cl) == 3 and (thorough or j % 8 == 0)):
                yield ('exhaustive', 4, [db, [cl]])
                if thorough or len(cl) <= 2:
                    yield ('exhaustive', 5, [db, [cl]])
        yield ('exhaustive', 4, [db, []])
        yield ('exhaustive', 5, [db, []])
        yield ('exhaustive', 7, [db, [], 1])
    if thorough:
        # N = 4, shorter citation lists, every 6th (database, list) pair with every min_crossrefs
        j4 = 0
        for db in small_dbs(4):
            for cl in cite_lists(2, ['X1', 'y2', 'z3', 'W4', 'q9', '*']):
                j4 += 1
                if j4 % 6 == 0:
                    for m in (1, 2, 3):
                        yield ('exhaustive4', 3, [db, cl, m])
                        yield ('exhaustive4', 6, [db, cl, m, 0])
    # (a') cross-reference CHAINS under filtered reading: c0 -> c1 -> ... -> cL (L = 0..3), every file order
    # (children first is the documented one), every subset of the chain cited, optionally '*', optionally a
    # second child of c1 at the end of the file, min_crossrefs 1..3; through the reader, command_read
    # (what is left in bib_data.entries), and both engines end to end (the BibTeX run shows which entries'
    # fields each emitted entry sees)
    CH = ['c0', 'G1', 'g2', 'H3']
    CHX = ['c0', 'g1', 'G2', 'H3']            # how the child spells its parent (other case for G1 / g2)
    jc = 0; jm = 0
    for L in range(0, 4):
        ents = [[CH[i], [CHX[i + 1]] if i < L else []] for i in range(L + 1)]
        for order in itertools.permutations(range(L + 1)):
            for sib in ((False, True) if L >= 1 else (False,)):
                db = [ents[i] for i in order] + ([['s9', [CH[1]]]] if sib else [])
                for mask in range(1 << (L + 1)):
                    jm += 1
                    base = [CH[i] for i in range(L + 1) if mask >> i & 1] + (['s9'] if sib and mask & 1 else [])
                    for cl in (base, ['*'] + base, base + ['*']):
                        jc += 1
                        good = list(order) == sorted(order)
                        if not (thorough or good or (jm + len(cl)) % 3 == 0):
                            continue
                        yield ('chains', 5, [db, [cl]])
                        yield ('chains', 14, [db, [cl], jc % 2])
                        yield ('chains', 15, [db, [cl], jc % 3])
                        for m in (1, 2, 3):
                            if m == 3 and not (thorough or good):
                                continue
                            yield ('chains', 6, [db, cl, m, 0])
                            yield ('chains', 9, [db, cl, m, 0])
                            if m < 3:
                                yield ('chains', 16, [db, cl, m, 0, (jc + m) % 2])
                            if (jc + m) % 3 == 0:
                                yield ('chains', 17, [db, cl, m, 0, (jc // 3) % 2])
                            if (jc + m) % (8 if thorough else 40) == 0:
                                yield ('chains', 18, [db, cl, m, 0, (jc // 8) % 2])
                            if good or thorough:
                                yield ('chains', 10, [db, cl, m])
                            if (jc + m) % (4 if thorough else 12) == 0:
                                yield ('chains', 8, [db, cl, m, 0])
    # (a3) the ORDER of the additions: k parents, each with some children, the children of different parents
    # interleaved in every order in the citation list; min_crossrefs 1..4; a child cited twice (other case), a
    # parent cited explicitly (then it is no addition), '*' first / last; both reading modes, both engines
    def interleavings(groups):
        groups = [g for g in groups if g]
        if not groups:
            yield []
            return
        for i, g in enumerate(groups):
            for rest in interleavings(groups[:i] + [g[1:]] + groups[i + 1:]):
                yield [g[0]] + rest
    PAR = ['confA', 'ConfB', 'confc']
    PARX = ['ConfA', 'confb', 'confc']              # how the children spell their parent
    jt = 0
    for kpar, sizes_list in ((2, [(x, y) for x in range(1, 5) for y in range(1, 5)]),
                             (3, [(x, y, z) for x in (1, 2) for y in (1, 2) for z in (1, 2)])):
        for sizes in sizes_list:
            kids = [['%s%d' % ('abc'[p_], i + 1) for i in range(sizes[p_])] for p_ in range(kpar)]
            entries = [[c, [PARX[p_]]] for p_ in range(kpar) for c in kids[p_]]
            parents = [[PAR[p_], []] for p_ in range(kpar)]
            for cl0 in interleavings(kids):
                jt += 1
                big = max(sizes) >= 4 or kpar == 3
                if big and not (thorough or jt % 3 == 0):
                    continue
                variants = [cl0]
                if jt % 2 == 0:
                    variants.append(cl0 + [cl0[0].upper()])                 # a child cited twice, other case
                    variants.append([PAR[0].upper()] + cl0)                 # a parent cited explicitly
                else:
                    variants.append(cl0[:1] + [cl0[-1].upper()] + cl0[1:])
                    variants.append(cl0 + [PAR[kpar - 1]])
                if jt % 4 == 0:
                    variants.append(cl0 + ['*'])
                    variants.append(['*'] + cl0)
                dbv = entries + parents if jt % 3 else [entries[0]] + parents[:1] + entries[1:] + parents[1:]
                for vi, cl in enumerate(variants):
                    for m in (1, 2, 3, 4):
                        if m > max(sizes) + 1:
                            continue
                        kk = jt + vi + m
                        yield ('threshold', 3, [dbv, cl, m])
                        yield ('threshold', 6, [dbv, cl, m, 0])
                        if kk % 2 == 0 or thorough:
                            yield ('threshold', 9, [dbv, cl, m, 0])
                        if kk % 3 == 0 or thorough:
                            yield ('threshold', 10, [dbv, cl, m])
                            yield ('threshold', 7, [dbv, [cl], m])
                        if '*' not in cl and kk % 4 == 0:
                            yield ('threshold', 2, [dbv, cl, m])
                        if kk % (6 if thorough else 40) == 0:
                            yield ('threshold', 8, [dbv, cl, m, 0])
    # (a4) multi-source databases: the database is the concatenation of 2-3 sources in the order given (files
    # named zeta, alpha, mid -- not alphabetical); through Parser.parse_files, format_from_strings,
    # format_from_files and make_bibliography(.aux with \\bibdata{zeta,alpha,mid}) of both engines
    MS_DBS = [
        [['x1', []], ['Y2', []], ['z3', []]],
        [['c0', ['g1']], ['k2', []], ['G1', ['G2']], ['g2', []]],                       # children in earlier sources than parents
        [['a1', ['ConfA']], ['b1', ['confb']], ['a2', ['ConfA']], ['confA', []], ['ConfB', []]],
        [['P', []], ['C', ['P']], ['q', []]],                                            # F13 order
        [['x1', []], ['k', ['X1']], ['X1', ['nowhere']]],                                # repeated key in a later source
    ]
    jms = 0
    for db in MS_DBS:
        n = len(db)
        keys = [e[0] for e in db]
        kid = [e[0] for e in db if e[1]][:2]
        cls_ms = [['*'], ['*', keys[-1].swapcase()], [keys[0], '*'], kid[:1], kid, [keys[-1], keys[0], 'unknown']]
        cutss = [[i] for i in range(1, n)] + [[i, j - i] for i in range(1, n) for j in range(i + 1, n)]
        for cuts in cutss:
            for cl in cls_ms:
                jms += 1
                yield ('multisource', 11, [db, [cl], cuts])
                for m in (1, 2):
                    for mode in (0, 1, 2):
                        if mode == 2 and not consistent(cl):
                            continue
                        if True:
                            yield ('multisource', 12, [db, cl, m, 0, cuts, mode])
                        if (jms + m + mode) % (3 if thorough else 12) == 0:
                            yield ('multisource', 13, [db, cl, m, 0, cuts, mode])
    # (a'') keys beyond ASCII: pairs that str.lower() keeps apart although str.casefold() / NFKC would merge them
    # (they are DIFFERENT entries), and pairs that str.lower() identifies (they are the SAME entry)
    APART = [('weiss2019', 'wei\u00df2019'), ('\u017f1', 's1'), ('\u03c22', '\u03c32'), ('\ufb01x', 'fix'), ('A\u03a3', 'a\u03c3')]
    SAME = [('\u00c91', '\u00e91'), ('\u03a32', '\u03c32'), ('\u212a3', 'k3'), ('STRASSE', 'strasse')]
    ju = 0
    for (a, b), same in [(p_, False) for p_ in APART] + [(p_, True) for p_ in SAME]:
        dbs_u = [[[a, []], [b, []]], [[b, []], [a, []]],
                 [[a, []], [b, [a]]], [[a, [b]], [b, []]],
                 [[a, []], [b, []], ['kid', [b]]], [['kid', [a]], ['Kid2', [b]], [a, []], [b, []]]]
        cls_u = [[], [a], [b], ['*'], [a, b], [b, a], [a, '*'], ['*', b], ['kid'], ['kid', 'Kid2'], ['kid', a], [b, 'kid', '*']]
        for db in dbs_u:
            for cl in cls_u:
                ju += 1
                yield ('unicode', 1, [db, cl])
                yield ('unicode', 4, [db, [cl]])
                yield ('unicode', 5, [db, [cl]])
                yield ('unicode', 14, [db, [cl], ju % 2])
                yield ('unicode', 15, [db, [cl], ju % 3])
                yield ('unicode', 16, [db, cl, 1, 0, (ju // 2) % 2])
                for m in (1, 2):
                    yield ('unicode', 3, [db, cl, m])
                    yield ('unicode', 6, [db, cl, m, 0])
                    yield ('unicode', 10, [db, cl, m])
                    if (ju + m) % 2 == 0 or thorough:
                        yield ('unicode', 9, [db, cl, m, 0])
                        yield ('unicode', 7, [db, [cl], m])
                    if (ju + m) % (5 if thorough else 24) == 0:
                        yield ('unicode', 8, [db, cl, m, 0])
                if ju % 6 == 0:
                    yield ('unicode', 6, [db, cl, 1, 1])
                    yield ('unicode', 9, [db, cl, 1, 1])
    upool = [x for p_ in APART + SAME for x in p_] + ['k1', 'K1', 'Q']
    for i in range(300 if not thorough else 3000):
        n = rng.randint(1, 5)
        keys = [rng.choice(upool) for _ in range(n)]
        db = [[k, [] if rng.random() < 0.5 else [rng.choice(keys + upool[:4])]] for k in keys]
        cl = [rng.choice(keys + upool + ['*']) for _ in range(rng.randint(0, 4))]
        m = rng.choice([1, 1, 2])
        yield ('unicode', 3, [db, cl, m])
        yield ('unicode', 6, [db, cl, m, 0])
        yield ('unicode', 5, [db, [cl]])
        yield ('unicode', 10, [db, cl, m])
        if i % 3 == 0:
            yield ('unicode', 9, [db, cl, m, 0])
    # (b) structured random: larger databases, repeated keys, mixed-case spellings
    def rkey():
        base = rng.choice(['k%d' % rng.randint(1, 9), 'Key%d' % rng.randint(1, 5), rng.choice(['knuth:84', 'Lamport-86', 'x.y', 'ab', 'Q'])])
        return rng.choice([base, base, base.upper(), base.lower(), base.swapcase()])
    def rdb(nmin=0, nmax=9):
        n = rng.randint(nmin, nmax)
        keys = [rkey() for _ in range(n)]
        db = []
        for k in keys:
            r = rng.random()
            if r < 0.45 or not keys:
                cr = []
            elif r < 0.9:
                t = rng.choice(keys)
                cr = [rng.choice([t, t.upper(), t.lower()])]
            else:
                cr = [rng.choice(['nowhere', 'Zz9', '*', ''])]
            db.append([k, cr])
        return db
    def rcites(db, consistent_only):
        pool = [e[0] for e in db] + [e[1][0] for e in db if e[1] and e[1][0]] + ['unknown1', 'Unknown2']
        n = rng.randint(0, 8)
        out = []
        sp = {}
        for _ in range(n):
            if rng.random() < 0.12:
                out.append('*'); continue
            c = rng.choice(pool) if pool else 'q'
            c = rng.choice([c, c, c.upper(), c.lower()])
            if consistent_only:
                c = sp.setdefault(c.lower(), c)
            out.append(c)
        return out
    nrand = 2000 if not thorough else 8000
    for i in range(nrand):
        db = rdb()
        cl = rcites(db, rng.random() < 0.8)
        m = rng.choice([1, 1, 2, 2, 3, 0, 4])
        yield ('random', 3, [db, cl, m])
        yield ('random', 6, [db, cl, m, 0])
        yield ('random', 1, [db, cl])
        yield ('random', 2, [db, cl, m])
        yield ('random', 4, [db, [cl] if rng.random() < 0.9 else []])
        yield ('random', 5, [db, [cl] if rng.random() < 0.9 else []])
        yield ('random', 14, [db, [cl], _fmt_ok(db, i % 2)])
        yield ('random', 15, [db, [cl], i % 3])
        yield ('random', 16, [db, cl, m, 0, _fmt_ok(db, (i // 2) % 2)])
        if i % 8 == 0:
            yield ('random', 17, [db, cl, m, 0, _fmt_ok(db, (i // 8) % 2)])
        yield ('random', 7, [db, [cl] if rng.random() < 0.9 else [], m])
        yield ('random', 10, [db, cl, m])
        if i % 4 == 0:
            yield ('random', 6, [db, cl, m, 1])
            yield ('random', 9, [db, cl, m, i % 8 == 0])
        if i % 16 == 0:
            yield ('random', 8, [db, cl, m, i % 32 == 0])
    # both engines end to end on a slice of the small scope
    k = 0
    for db in dbs:
        for cl in cite_lists(2):
            k += 1
            if k % 5 == 0 or (thorough and k % 2 == 0):
                m = 1 + (k // 5) % 2
                yield ('engines', 9, [db, cl, m, 0])
                if k % 25 == 0 or (thorough and k % 10 == 0):
                    yield ('engines', 8, [db, cl, m, 0])
    # (c) malformed: keys the citation list cannot name, wildcard-like keys, min_crossrefs out of range
    weird = ['*', '**', '', 'a*', 'A', 'a']
    for i in range(600 if not thorough else 2500):
        n = rng.randint(0, 4)
        db = [[rng.choice(weird[:2] + weird[3:]) if rng.random() < 0.5 else rng.choice('abAB'),
               [] if rng.random() < 0.4 else [rng.choice(weird + ['b', 'B'])]] for _ in range(n)]
        cl = [rng.choice(weird[:2] + weird[3:] + ['b', 'zz']) for _ in range(rng.randint(0, 5))]
        m = rng.choice([0, 1, 2, 5])
        yield ('malformed', 3, [db, cl, m])
        yield ('malformed', 4, [db, [cl]])
        yield ('malformed', 10, [db, cl, m])
        if all(k and k != '' for k, _ in db):
            yield ('malformed', 6, [db, cl, m, 0])

RULE = ('formats: the filtered-reading functions also through the YAML and BibTeXML readers (which hand a generator to add_entries), add_entries(generator / list), an add_entry loop, and command_read / both engines on YAML and BibTeXML databases -- on the chains, pinned, unicode, random and (strided) exhaustive databases; multisource: five databases split into 2-3 consecutive sources in every way (files zeta, alpha, mid), \'*\' alone / mixed with keys, children in earlier sources than their parents, through Parser.parse_files, format_from_strings, format_from_files and make_bibliography(.aux) of both engines, answered like the single-source entry points on the concatenation; threshold: 2-3 uncited parents with 1-4 children each, the children of different parents interleaved in every order in the citation list (all interleavings; the larger ones strided in the quick tier), min_crossrefs 1..4, a child cited twice in another case, a parent cited explicitly, \'*\' first / last, through add_extra_citations, command_read, both engines, format_bibliography, unfiltered selection; unicode: database keys and citations from pairs that str.lower() keeps apart but casefold would merge (ss/\u00df, \u017f/s, \u03c2/\u03c3, \ufb01/fi) and pairs that str.lower() identifies (\u00c9/\u00e9, \u03a3/\u03c3, Kelvin sign/k), through every function; chains: cross-reference chains of length 0..3 (every file order, every subset of the chain cited, with/without \'*\', with/without a sibling, min_crossrefs 1..3) through the bibtex parser with wanted_entries, command_read (incl. the keys left in bib_data.entries) and both engines end to end; exhaustive: every database of N <= 3 entries (keys x1, Y2, z3; each entry with crossref in {none, X1, Y2, Z3, dangling q9}) x every '
        'citation list up to the length bound over {X1, x1, y2, z3, unknown q9, *} x min_crossrefs 1..min(N,2) (quick) / 1..N (thorough), through add_extra_citations, '
        'Interpreter.command_read (parse-time filtering) and, strided, format_bibliography / unfiltered selection / '
        '_get_crossreferenced_citations; the same databases x wanted lists through BibliographyData(entries, wanted_entries) and the '
        'bibtex parser; random: databases of up to 9 entries with repeated keys, mixed-case spellings, dangling, empty and "*" '
        'cross-references, citation lists of up to 8 keys (80% consistently spelled), min_crossrefs 0..4, both error modes, both engines '
        'end to end (\\bibitem keys of the Python engine, cite$ of every entry for the BibTeX engine). '
        'distinct = distinct (function, argument); non-trivial = the selected list differs from the citation list as given or a report is made.')
EXHAUSTIVE = {'quick': 'all databases with N <= 3 entries x crossref in {none, each key, dangling} x all citation lists of length <= 3 over 6 symbols x min_crossrefs 1..min(N,2)',
              'thorough': 'all databases with N <= 3 entries x crossref in {none, each key, dangling} x all citation lists of length <= 3 over 6 symbols x min_crossrefs 1..N through add_extra_citations, command_read, the constructor and the parser (format_bibliography / unfiltered selection on every 2nd); lists of length 4 and N = 4 are strided samples, not exhaustive'}
TRUSTED_BASE = ['modelled (not verified) code: pybtex/database/__init__.py 65-105,179-314 (BibliographyData), pybtex/utils.py CaseInsensitiveSet / OrderedCaseInsensitiveDict, '
                'pybtex/bibtex/interpreter.py 284-306, pybtex/style/formatting/__init__.py 75-91, pybtex/__init__.py 112-165; the .bib syntax layer is not modelled: a file is the list of its (key, crossref) entries '
                '(the harness renders each database to .bib text with varied delimiters / field-name case and runs the real parser)']
ASSUMPTIONS = ['the model compares keys through an ASCII lower(); a case with non-ASCII keys is given to the model with ASCII stand-ins built from the per-case table key -> str.lower(key) computed by Python (same classes, same spellings up to renaming); the oracle uses str.lower on the real keys; the theorems use only that lower-equality is an equivalence']
PARTIAL = ['Entry._find_field is modelled only as the set of entries walked (chain); field values are C14\'s business',
           'the theorems are about the model of BibliographyData / command_read / format_bibliography; the .bib syntax layer, strict error mode (first report raised) and both engines end to end (\\bibitem / cite$ order) are covered by the correspondence run and the oracle only',
           'filtered_equals_unfiltered / filtered_reports_equal hold under parents_follow_children; without it the statement is refuted (filtered_parent_first_refuted, known finding F13)',
           'min_crossrefs < 1 (outside the property text) behaves like 1 in model and code; the oracle is silent there',
           'citation lists that spell one key in two ways (outside the property text) are compared up to letter case only']
