# C01 -- .bib parsing is faithful and independent of surface syntax.
# Model: coq/Model/Scanner.v + coq/Model/BibParser.v; theorems: coq/Props/C01.v
#
# Generator: an ABSTRACT DATABASE (items: entries, @string definitions, @preamble, @comment, junk
# text; values are lists of logical parts: text or macro use; author/editor fields are lists of
# structured persons) and a LAYOUT (delimiters, quoting, concatenation split points, letter case
# of identifiers, whitespace / line ends, trailing commas); render(layout, adb) is the .bib text.
# Oracle: denote_py(adb, layout) -- a direct Python transcription of what the database denotes,
# which does not go through pybtex -- must equal what pybtex reads from the rendering.
import itertools, random
from core import *
from props.bib_util import *

ID = 'C01'

# ---- abstract database encoding (nested lists; strings are Python str until norm())
# item:  ['E', type, key, [field...]]   field: ['F', name, [part...]] | ['A', name, [person...]]
#        ['S', name, [part...]]   ['P', [part...]]   ['C', text]   ['J', text]
# part:  ['T', text] | ['M', macroname]          person: [first[], von[], last[], jr[]]
# On the wire (arg) every tag is its ord() and every str a code-point list: norm() does that.

MONTHS = {'jan': 'January', 'feb': 'February', 'mar': 'March', 'apr': 'April', 'may': 'May', 'jun': 'June',
          'jul': 'July', 'aug': 'August', 'sep': 'September', 'oct': 'October', 'nov': 'November', 'dec': 'December'}
PY_WS = set(WS29)

def T(x):   # wire -> python for tags/strings
    return S(x)

def decode_items(w):
    out = []
    for it in w:
        tag = chr(it[0])
        if tag == 'E':
            fs = []
            for f in it[3]:
                ft = chr(f[0])
                if ft == 'F':
                    fs.append(['F', S(f[1]), [[chr(p[0]), S(p[1])] for p in f[2]]])
                else:
                    fs.append(['A', S(f[1]), [[[S(w_) for w_ in grp] for grp in per] for per in f[2]]])
            out.append(['E', S(it[1]), S(it[2]), fs])
        elif tag == 'S':
            out.append(['S', S(it[1]), [[chr(p[0]), S(p[1])] for p in it[2]]])
        elif tag == 'P':
            out.append(['P', [[chr(p[0]), S(p[1])] for p in it[1]]])
        else:
            out.append([tag, S(it[1])])
    return out

def encode_items(items):
    def tg(x): return ord(x)
    out = []
    for it in items:
        if it[0] == 'E':
            fs = []
            for f in it[3]:
                if f[0] == 'F':
                    fs.append([tg('F'), f[1], [[tg(p[0]), p[1]] for p in f[2]]])
                else:
                    fs.append([tg('A'), f[1], f[2]])
            out.append([tg('E'), it[1], it[2], fs])
        elif it[0] == 'S':
            out.append([tg('S'), it[1], [[tg(p[0]), p[1]] for p in it[2]]])
        elif it[0] == 'P':
            out.append([tg('P'), [[tg(p[0]), p[1]] for p in it[1]]])
        else:
            out.append([tg(it[0]), it[1]])
    return norm(out)

# ---- layout: [delim, quoting, case, ws, comma, seed]
#  delim 0 braces 1 parentheses 2 alternate;  quoting 0 braced 1 quoted 2 number-where-possible 3 split every text part once (seeded point) 4 mixed(seeded)
#  case 0 as written 1 lower 2 upper 3 mixed(seeded);  ws 0 minimal 1 single spaces 2 LF+indent 3 CRLF+tabs 4 random Unicode whitespace(seeded)
#  comma 0 no trailing comma 1 trailing comma;   seed: int for the seeded choices
WS_STYLES = {0: ('', ''), 1: (' ', ' '), 2: ('\n  ', ' '), 3: ('\r\n\t', '\t')}

class Lay:
    def __init__(self, lay):
        self.delim, self.quoting, self.case, self.ws, self.comma, self.seed = lay[:6]
        self.rng = random.Random(self.seed * 7919 + 13)
        self.n_entry = 0
    def sp(self, must=False):
        """whitespace between two tokens ('must': at least one character)"""
        if self.ws == 4:
            n = self.rng.choice([0, 1, 1, 2, 3])
            s = ''.join(self.rng.choice(WS29) for _ in range(n))
        else:
            s = WS_STYLES[self.ws][1]
        if must and not s:
            s = ' '
        return s
    def nl(self):
        if self.ws == 4:
            return ''.join(self.rng.choice(WS29) for _ in range(self.rng.choice([0, 1, 2])))
        return WS_STYLES[self.ws][0]
    def ident(self, name):
        if self.case == 1: return name.lower()
        if self.case == 2: return name.upper()
        if self.case == 3: return ''.join(c.upper() if self.rng.random() < 0.5 else c.lower() for c in name)
        return name

def brace_balanced(s):
    d = 0
    for c in s:
        if c == '{': d += 1
        elif c == '}':
            d -= 1
            if d < 0: return False
    return d == 0

def quotable(s):
    d = 0
    for c in s:
        if c == '{': d += 1
        elif c == '}': d -= 1
        elif c == '"' and d == 0: return False
    return True

def spell_text(L, text):
    """one logical text part -> list of surface parts"""
    q = L.quoting
    if q == 4:
        q = L.rng.choice([0, 1, 2, 3])
    if q == 3 and len(text) >= 1:
        cuts = [i for i in range(0, len(text) + 1) if brace_balanced(text[:i]) and brace_balanced(text[i:])]
        i = L.rng.choice(cuts)
        return spell_simple(L, text[:i], L.rng.choice([0, 1])) + spell_simple(L, text[i:], L.rng.choice([0, 1]))
    return spell_simple(L, text, q)

def spell_simple(L, text, q):
    if q == 2 and text.isdigit() and text.isascii():
        return [text]
    if q == 1 and quotable(text):
        return ['"' + text + '"']
    return ['{' + text + '}']

def person_string(L, per):
    first, von, last, jr = per
    fmt = L.rng.choice([0, 1]) if not jr else 1
    if fmt == 0 and not first and not von and False:
        pass
    if fmt == 0:
        return ' '.join(first + von + last)
    if jr:
        return ' '.join(von + last) + ', ' + ' '.join(jr) + ', ' + ' '.join(first)
    return ' '.join(von + last) + (', ' + ' '.join(first) if first else '')

def author_text(L, persons):
    names = [person_string(L, p) for p in persons]
    out = ''
    for i, n in enumerate(names):
        if i:
            out += L.rng.choice([' ', '  ', '\n ']) + L.rng.choice(['and', 'and', 'AND', 'And']) + L.rng.choice([' ', '\n', ' \t'])
        out += n
    return out

def render_value(L, parts):
    surf = []
    for p in parts:
        if p[0] == 'T':
            surf.extend(spell_text(L, p[1]))
        else:
            surf.append(L.ident(p[1]))
    return (L.sp() + '#' + L.sp()).join(surf)

def render(items, lay):
    """-> (text, spelled) where spelled lists the identifier spellings chosen (type / field names per entry)"""
    L = Lay(lay)
    out = []
    spelled = []
    for it in items:
        if it[0] in ('E', 'S', 'P'):
            brace = (L.delim == 0) or (L.delim == 2 and L.n_entry % 2 == 0)
            L.n_entry += 1
            o, c = ('{', '}') if brace else ('(', ')')
        if it[0] == 'E':
            ty = L.ident(it[1])
            s = '@' + L.sp() + ty + L.sp() + o + L.sp() + it[2]
            names = []
            for f in it[3]:
                fname = L.ident(f[1])
                names.append(fname)
                if f[0] == 'F':
                    val = render_value(L, f[2])
                else:
                    val = render_value(L, [['T', author_text(L, f[2])]])
                s += L.sp() + ',' + L.nl() + fname + L.sp() + '=' + L.sp() + val
            if L.comma:
                s += L.sp() + ','
            elif not brace and not it[3]:
                s += ' '      # KEY_PAREN = [^\s,]+ : a key directly followed by ')' would swallow it (as in BibTeX)
            s += L.nl() + c
            spelled.append((ty, names))
            out.append(s)
        elif it[0] == 'S':
            out.append('@' + L.sp() + L.ident('string') + L.sp() + o + L.sp() + L.ident(it[1]) + L.sp() + '=' + L.sp() + render_value(L, it[2]) + L.sp() + c)
        elif it[0] == 'P':
            out.append('@' + L.sp() + L.ident('preamble') + L.sp() + o + L.sp() + render_value(L, it[1]) + L.sp() + c)
        elif it[0] == 'C':
            out.append('@' + L.ident('comment') + L.sp() + '{' + it[1])
        else:
            out.append(it[1])
    sep = L.nl() or (' ' if L.ws else '')
    return sep.join(out) + L.nl(), spelled

# ---- the denotation (independent of pybtex)
def normws(s):
    out, cur = [], []
    for c in s:
        if c in PY_WS:
            if cur:
                out.append(''.join(cur)); cur = []
        else:
            cur.append(c)
    if cur:
        out.append(''.join(cur))
    return ' '.join(out)

def denote_py(items, spelled):
    macros = dict(MONTHS)
    entries, preamble, keys = [], [], set()
    nprob = 0
    def expand(parts):
        return ''.join(p[1] if p[0] == 'T' else macros[p[1].lower()] for p in parts)
    k = 0
    for it in items:
        if it[0] == 'S':
            macros[it[1].lower()] = expand(it[2])
        elif it[0] == 'P':
            preamble.append(normws(expand(it[1])))
        elif it[0] == 'E':
            ty, names = spelled[k]; k += 1
            fields, persons, seen = [], [], set()
            for f, fname in zip(it[3], names):
                if fname.lower() in seen:
                    nprob += 1
                    continue
                seen.add(fname.lower())
                if f[0] == 'F':
                    fields.append([fname, normws(expand(f[2]))])
                elif f[2]:
                    persons.append([fname, [[per[0][:1], per[0][1:], per[1], per[2], per[3]] for per in f[2]]])
            if it[2].lower() in keys:
                nprob += 1
                continue
            keys.add(it[2].lower())
            entries.append([it[2], ty.lower(), ty, fields, persons])
    return entries, preamble, nprob

def impl_render_parse(arg):
    items = decode_items(arg[0])
    text, _ = render(items, arg[1])
    return parse_in_mode(2, text)
def impl_render_low(arg):
    items = decode_items(arg[0])
    text, _ = render(items, arg[1])
    return lowlevel_in_mode(2, text)

# ---- history: what an EARLIER reading in the same process leaves behind must not change a later,
# independent reading (kinds 0, 1); one Parser instance reading several strings accumulates (kind 2)
# arg = [kind, earlier, items, layout, suffix]; earlier element = ['R', raw text] | ['D', items, layout]
def history_texts(arg):
    earlier = []
    for e in arg[1]:
        if chr(e[0]) == 'R':
            earlier.append(S(e[1]))
        else:
            earlier.append(render(decode_items(e[1]), e[2])[0])
    last = render(decode_items(arg[2]), arg[3])[0] + S(arg[4])
    return earlier, last

def impl_history(arg):
    kind = arg[0]
    earlier, last = history_texts(arg)
    if kind == 2:
        return parse_seq(2, earlier + [last])
    from pybtex import errors
    import pybtex.database
    from pybtex.database.input.bibtex import Parser
    for t in earlier:
        try:
            with errors.capture():
                if kind == 0:
                    pybtex.database.parse_string(t, 'bibtex')
                else:
                    Parser().parse_string(t)
        except Exception:
            pass
    return parse_in_mode(2, last)

def model_arg(fn, arg):
    if fn in (10, 11, 15):
        text, _ = render(decode_items(arg[0]), arg[1])
        return [text]
    if fn == 12:
        earlier, last = history_texts(arg)
        return [earlier + [last] if arg[0] == 2 else [last]]
    return arg

FUNCS = {
    3: ('textutils.normalize_whitespace', impl_normalize_ws, ('T', 'S')),
    5: ('bibtex.month_names', impl_months, 'X'),
    10: ('parse_string(render(layout, abstract_db), "bibtex")', impl_render_parse, ('T', 'X', ('T', 'N', 'N', 'N', 'N', 'N', 'N'))),
    11: ('list(LowLevelParser(render(layout, abstract_db)))', impl_render_low, ('T', 'X', ('T', 'N', 'N', 'N', 'N', 'N', 'N'))),
    15: ('parse_string(render(layout, abstract_db), "bibtex") -- entry keys with non-ASCII cased letters (judged by the oracle only)', impl_render_parse, ('T', 'X', ('T', 'N', 'N', 'N', 'N', 'N', 'N'))),
    12: ('history: earlier readings, then parse_string(render(layout, abstract_db)) [kind 0/1: independent readers; 2: one Parser instance]', impl_history, ('T', 'N', ('L', 'X'), 'X', 'X', 'S')),
}

def canon(fn, r):
    if fn == 15:      # the model's lower() is ASCII: keys with other cased letters are judged by the oracle (str.lower) only
        return [r[0]] if isinstance(r, list) and r else r
    if fn in (10, 12):
        return canon_parse(r, clean_only=False)
    if fn == 11:
        if isinstance(r, list) and r and r[0] == 0:
            return [0, r[1][0], [e[1] for e in r[1][1]]]
        return canon_low(r)
    if fn == 5:
        return sorted(r)
    return r

def describe(fn, arg):
    if fn in (10, 11, 15):
        items = decode_items(arg[0])
        return {'abstract_db': items, 'layout': arg[1], 'rendering': render(items, arg[1])[0]}
    if fn == 3:
        return {'text': S(arg[0])}
    if fn == 12:
        earlier, last = history_texts(arg)
        return {'kind': {0: 'independent parse_string calls', 1: 'independent Parser() instances', 2: 'one Parser instance, several strings'}.get(arg[0]),
                'earlier_sources': earlier, 'last_source': last}
    return {'fn': fn}

def nontrivial(fn, arg, out):
    if fn in (10, 12, 15):
        return out[0] == 0 and len(out[1][0]) > 0
    return bool(out)

def oracle(fn, arg, out):
    if fn == 3:
        s = S(arg[0])
        if S(out) != normws(s):
            return 'normalize_whitespace(%r) is not the words of the text joined by single spaces' % s
        return None
    if fn == 5:
        if sorted((S(k), S(v)) for k, v in out) != sorted(MONTHS.items()):
            return 'the predefined month macros are not jan..dec -> January..December'
        return None
    if fn == 12:
        kind, suffix = arg[0], S(arg[4])
        if kind == 2:
            if suffix or any(chr(e[0]) == 'R' for e in arg[1]):
                return None if out[0] != 2 else 'a non-pybtex exception escaped the reader'
            items, spelled = [], []
            for e in list(arg[1]) + [[0, arg[2], arg[3]]]:
                its = decode_items(e[1])
                items += its
                spelled += render(its, e[2])[1]
            return check_denotation(items, spelled, out, exact=True)
        items = decode_items(arg[2])
        _, spelled = render(items, arg[3])
        return check_denotation(items, spelled, out, exact=not suffix)
    if fn not in (10, 15):
        return None
    items = decode_items(arg[0])
    text, spelled = render(items, arg[1])
    return check_denotation(items, spelled, out, exact=True)

def check_denotation(items, spelled, out, exact):
    """what was read == what the abstract database denotes (exact) / starts with it (a raw suffix follows)"""
    if out[0] != 0:
        return 'reading a valid rendering raised'
    ents, pre, errs = out[1]
    want_e, want_p, nprob = denote_py(items, spelled)
    got_e = [[S(e[1]), S(e[2]), S(e[3]), [[S(k), S(v)] for k, v in e[4]],
              [[S(r), [[[S(w) for w in grp] for grp in p] for p in ps]] for r, ps in e[5]]] for e in ents]
    got_p = [S(p[1]) for p in pre]
    if not exact:
        got_e = got_e[:len(want_e)]
        got_p = got_p[:len(want_p)]
    if [e[0] for e in got_e] != [e[0] for e in want_e]:
        return 'entry keys %r, the database denotes %r' % ([e[0] for e in got_e], [e[0] for e in want_e])
    for g, w in zip(got_e, want_e):
        if g[1] != w[1] or g[2] != w[2]:
            return 'entry %s: type %r/%r, written %r' % (g[0], g[1], g[2], w[2])
        if g[3] != w[3]:
            return 'entry %s: fields %r, the database denotes %r' % (g[0], g[3], w[3])
        if g[4] != w[4]:
            return 'entry %s: persons %r, the database denotes %r' % (g[0], g[4], w[4])
    if got_p != want_p:
        return 'preamble %r, the database denotes %r' % (got_p, want_p)
    if exact and len(errs) != nprob:
        return '%d problems reported for a rendering with %d duplicate fields / repeated keys' % (len(errs), nprob)
    return None

# ---------------------------------------------------------------------------------------
VALUE_POOL = [
    [['T', 'Plain text']],
    [['T', '1999']],
    [['T', 'a {B} c']],
    [['T', '  two   words\n next ']],
    [['M', 'jan']],
    [['M', 'mm'], ['T', ' and '], ['T', '12']],
    [['T', '']],
    [['T', 'q"{"}uo"te']],
]
PERSON_POOL = [
    [['Ann'], [], ['Bee'], []],
    [['Carl', 'D.'], ['von', 'der'], ['Eck'], []],
    [[], ['de'], ['{La Fontaine}'], []],
    [['F.'], [], ['Gee'], ['Jr']],
    [[], [], ['Solo'], []],
    [['H'], ['van'], ['{\\"U}ber'], ['III']],
]

def small_dbs():
    """all abstract databases with <= 2 entries x <= 2 fields over the value pool (sampled by the caller)"""
    fnames = ['title', 'Note']
    for ne in (1, 2):
        for nf in (0, 1, 2):
            for vals in itertools.product(range(len(VALUE_POOL)), repeat=nf * ne):
                items = [['S', 'mm', [['T', 'Em {m}']]]]
                for e in range(ne):
                    fs = [['F', fnames[i], VALUE_POOL[vals[e * nf + i]]] for i in range(nf)]
                    items.append(['E', 'Book', 'k%d' % (e + 1), fs])
                yield items

def all_layouts(seed):
    for delim in (0, 1, 2):
        for quoting in (0, 1, 2, 3):
            for case in (0, 1, 2, 3):
                for ws in (0, 1, 2, 3):
                    for comma in (0, 1):
                        yield [delim, quoting, case, ws, comma, seed]

def random_db(rng):
    items = []
    macros = list(MONTHS)
    nkeys = 0
    for _ in range(rng.randint(1, 12)):
        r = rng.random()
        if r < 0.15:
            name = rng.choice(['mm', 'Pub', 'x1', 'long-name', 'a.b', 'MM'])
            items.append(['S', name, random_value(rng, macros)])
            macros.append(name)
        elif r < 0.22:
            items.append(['P', random_value(rng, macros)])
        elif r < 0.30:
            items.append(['C', rng.choice(['', ' ignored } text', 'x = {', ' "'])])
        elif r < 0.40:
            items.append(['J', rng.choice(['free text', '% a comment line', 'x = {y}', '}', 'junk, "q" (p)', ''])])
        else:
            nkeys += 1
            key = rng.choice(['k%d' % nkeys, 'K%d' % nkeys, 'key:%d' % nkeys, 'a.b/%d' % nkeys, 'k1', '€%d' % nkeys, 'x(%d' % nkeys])
            fs = []
            for _ in range(rng.randint(0, 5)):
                fname = rng.choice(['title', 'Title', 'year', 'note', 'month', 'journal', 'x-y', 'a.b', 'author', 'Editor', 'AUTHOR'])
                if fname.lower() in ('author', 'editor'):
                    fs.append(['A', fname, [rng.choice(PERSON_POOL) for _ in range(rng.randint(0, 4))]])
                else:
                    fs.append(['F', fname, random_value(rng, macros)])
            items.append(['E', rng.choice(['article', 'Book', 'MISC', 'inProceedings', 'x.y']), key, fs])
    return items

# entry keys with non-ASCII letters: pairs equal under str.casefold() but different under str.lower()
# (distinct entries), and pairs equal under str.lower() (the second is a repeated key)
KEY_PAIRS_DISTINCT = [('Wei\u00df2001', 'Weiss2001'), ('\u017ftart', 'start'), ('\u03bb\u03cc\u03b3\u03bf\u03c2', '\u03bb\u03cc\u03b3\u03bf\u03c3'),
                      ('\ufb01sh', 'fish'), ('stra\u00dfe', 'STRASSE'), ('\u0130x', 'ix')]
KEY_PAIRS_SAME = [('\u00c9cole', '\u00e9cole'), ('\u212a1', 'k1'), ('\u03a3x', '\u03c3x'), ('\u00d8re', '\u00f8RE'), ('\u0416uk', '\u0436UK')]

def needs_oracle_only(items):
    for it in items:
        if it[0] == 'E':
            for ch in it[2]:
                if ord(ch) > 127 and ch.lower() != ch:
                    return True
    return False

def nonascii_key_dbs(rng, n):
    for i in range(n):
        items = []
        pairs = rng.sample(KEY_PAIRS_DISTINCT, 2) + rng.sample(KEY_PAIRS_SAME, 2)
        rng.shuffle(pairs)
        for (a, b) in pairs:
            if rng.random() < 0.5:
                a, b = b, a
            items.append(['E', 'book', a, [['F', 'title', [['T', 'first ' + a]]]]])
            if rng.random() < 0.4:
                items.append(['J', 'text'])
            items.append(['E', 'misc', b, [['F', 'note', [['T', 'second ' + b]]]]])
        yield items
    # the casefold-only pairs alone (no other cased letter): also compared with the model
    for (a, b) in KEY_PAIRS_DISTINCT[:5]:
        for x, y in ((a, b), (b, a)):
            yield [['E', 'book', x, [['F', 'title', [['T', 'one']]]]], ['E', 'book', y, [['F', 'title', [['T', 'two']]]]], ['E', 'book', x, [['F', 'title', [['T', 'three']]]]]]

def respell(rng, name):
    return rng.choice([name, name.lower(), name.upper(), name.capitalize(), ''.join(c.upper() if i % 2 else c.lower() for i, c in enumerate(name))])

def redefinition_dbs(rng, n):
    """macro use -> redefinition (same / other letter case, also of a month) -> re-use under each spelling"""
    for i in range(n):
        name = rng.choice(['jnl', 'jan', 'Pub', 'dec', 'mm', 'may', 'x.y'])
        items = []
        if name.lower() not in MONTHS or rng.random() < 0.3:
            items.append(['S', respell(rng, name), [['T', 'first value']]])
        k = 0
        for round_ in range(rng.randint(2, 4)):
            for _ in range(rng.randint(1, 2)):
                k += 1
                fs = [['F', 'f%d' % j, [['M', respell(rng, name)]] + ([['T', ' + '], ['M', respell(rng, name)]] if rng.random() < 0.4 else [])] for j in range(rng.randint(1, 3))]
                items.append(['E', 'misc', 'u%d' % k, fs])
            if rng.random() < 0.3:
                items.append(['P', [['M', respell(rng, name)]]])
            # redefinition, possibly in terms of the old value
            val = [['T', 'value %d' % round_]]
            if rng.random() < 0.4:
                val = [['M', respell(rng, name)], ['T', ' again']]
            items.append(['S', respell(rng, name), val])
        k += 1
        items.append(['E', 'misc', 'u%d' % k, [['F', 'last', [['M', n_]]] for n_ in (name, name.upper(), name.lower(), name.capitalize())][:rng.randint(1, 4)]])
        yield items

def split_sources(items, rng):
    """cut an item list into 2-3 consecutive sources (for one reader that reads several strings)"""
    if len(items) < 3:
        return [items]
    cuts = sorted(rng.sample(range(1, len(items)), rng.choice([1, 2]) if len(items) > 3 else 1))
    out, prev = [], 0
    for c in cuts + [len(items)]:
        out.append(items[prev:c]); prev = c
    return out

def random_text(rng):
    words = ['alpha', 'Beta', '12', '{Gamma}', '{nested {deep {er}}}', ',', '=', '#', '(', ')', '%', '~', '\\"o', "{\\'e}", '-', '@'[:0], ' and ', '€', '→']
    seps = [' ', ' ', '  ', '\n', '\r\n', '\t', '\xa0', ' ', '']
    n = rng.randint(0, 6)
    s = ''.join(rng.choice(words) + rng.choice(seps) for _ in range(n))
    if rng.random() < 0.1:
        d = rng.randint(1, 6)
        s += '{' * d + 'x' + '}' * d
    if rng.random() < 0.1:
        s = '"' + s       # a quote at level 0: not quotable, must be braced
    return s

def random_value(rng, macros):
    parts = []
    for _ in range(rng.choice([1, 1, 1, 2, 3])):
        if rng.random() < 0.25:
            parts.append(['M', rng.choice(macros)])
        elif rng.random() < 0.2:
            parts.append(['T', str(rng.randint(0, 3000))])
        else:
            parts.append(['T', random_text(rng)])
    return parts

RULE = ('exhaustive-small: abstract databases with <= 2 entries x <= 2 fields over a pool of 8 value shapes (plain, number, nested braces, irregular whitespace, month macro, @string macro + concatenation, empty, quotes inside braces), crossed with layouts {brace, paren, alternating} x {braced, quoted, bare number, concatenation split at a brace-balanced point} x {as written, lower, upper, mixed case} x {no, single-space, LF, CRLF whitespace} x trailing comma (a seeded sample of the 384 layouts per database: 6 quick, 18 thorough); '
        'random: databases of <= 12 items (entries with <= 5 fields incl. author/editor person lists of structured persons, @string chains, @preamble, @comment, junk text, repeated keys, duplicate fields differing in case) under random layouts incl. arbitrary Unicode whitespace between tokens; '
        'history: 1-2 earlier readings in the same process (sources that redefine month macros, define other @string names, contain errors), then a rendering (optionally followed by an entry that uses a macro only an earlier source defined): as independent parse_string calls / independent Parser() instances the last reading must equal the model\'s reading of that source alone and denote_py; with ONE Parser instance reading all the strings the macros, entries and preamble accumulate (model parse_bib_seq, denote_py of the concatenation); normalize_whitespace on all strings of length <= 6 over {a, space, LF, NBSP}. distinct = distinct (function, argument); non-trivial = at least one entry read.')
EXHAUSTIVE = {'quick': 'all 4234 abstract databases of the small scope, each under 6 of the 384 layouts (seeded sample); normalize_whitespace: all strings of length <= 6 over a 4-symbol alphabet',
              'thorough': 'all 4234 abstract databases of the small scope, each under 18 of the 384 layouts (seeded sample)'}
TRUSTED_BASE = ['modelled (not verified) code: as for C10 (LowLevelParser, Parser, Scanner, normalize_whitespace, add_entry, split_name_list, Person)',
                'the renderer and denote_py of harness/props/c01.py (the generator grammar and its denotation)']
ASSUMPTIONS = ['Python str.isspace / regex \\s = the 29 code points of Base/PyChar.is_space', 'identifiers and keys are ASCII (plus caseless symbols): str.lower() = ASCII lower there']
PARTIAL = ['file_roundtrip is proved only for single-part values and the token lemmas (Props/C01.v); the whole-file statement parse_bib (render lay d) = denote d is left to the correspondence run and the oracle',
           'person splitting inside author/editor fields is C04\'s model; here only the " and " list structure']

def gen(tier, rng):
    yield ('tables', 5, [])
    dbs = list(small_dbs())
    lays = list(all_layouts(1))
    for i, items in enumerate(dbs):
        w = encode_items(items)
        chosen = rng.sample(lays, 18 if tier == 'thorough' else 6)
        for lay in chosen:
            yield ('exhaustive_small', 10, [w, lay])
        yield ('lowlevel', 11, [w, rng.choice(lays)])
    nrand = 2500 if tier == 'quick' else 12000
    for i in range(nrand):
        items = random_db(rng)
        w = encode_items(items)
        for _ in range(2):
            lay = [rng.choice([0, 1, 2]), rng.choice([0, 1, 2, 3, 4, 4]), rng.choice([0, 1, 2, 3]), rng.choice([0, 1, 2, 3, 4, 4]), rng.choice([0, 1]), rng.randint(0, 10 ** 6)]
            yield ('random', 10, [w, lay])
        if i % 5 == 0:
            yield ('lowlevel', 11, [w, lay])
    # entry keys with non-ASCII letters (casefold-equal pairs stay distinct, lower-equal pairs repeat)
    for items in nonascii_key_dbs(rng, 60 if tier == 'quick' else 600):
        w = encode_items(items)
        lay = [rng.choice([0, 1, 2]), rng.choice([0, 1, 3]), 0, rng.choice([0, 1, 2, 3]), rng.choice([0, 1]), rng.randint(0, 10 ** 6)]
        yield ('nonascii_keys', 15 if needs_oracle_only(items) else 10, [w, lay])
    # macro use -> redefinition in the same / another letter case -> re-use, in one source ...
    for items in redefinition_dbs(rng, 300 if tier == 'quick' else 3000):
        lay = [rng.choice([0, 1, 2]), rng.choice([0, 1, 2, 3, 4]), 0, rng.choice([0, 1, 2, 3]), rng.choice([0, 1]), rng.randint(0, 10 ** 6)]
        yield ('macro_redefinition', 10, [encode_items(items), lay])
        # ... and across the sources of ONE reader (history kind 2)
        if rng.random() < 0.5:
            parts = split_sources(items, rng)
            earlier = [[ord('D'), encode_items(p_), lay] for p_ in parts[:-1]]
            yield ('macro_redefinition_sources', 12, [2, earlier, encode_items(parts[-1]), lay, ''])
    # history: earlier readings in the same process, then the reading that is compared
    RAW = ['@string{jan = "Jan."}', '@string{JAN = {X}} @string{mm = "other"} @string{Pub = 7}', '@string{newmacro = "N"} @a{k1, t = newmacro, month = mar}',
           '@string{feb = 1} @a{k, t = ', '@preamble{"p"} @string{dec = "D" # jan} @string{x1 = dec}', '@a{k1, month = jan, author = {A, B, C, D}, month = feb}',
           '@string{may = may # "!"}@a{k2}', 'junk @comment{x} @string(sep = undefined) @a(k1)']
    SUFFIX = ['', '', '', '\n@misc{leak, note = newmacro # jan}', '\n@misc{leak2, month = FEB # mm # dec}', '\n@misc{leak3, note = x1 # Pub}']
    month_items = [['E', 'misc', 'm1', [['F', 'month', [['M', m]]] for m in ('jan',)] + [['F', 'note', [['M', 'FEB'], ['T', ' '], ['M', 'Dec'], ['M', 'may']]]]]]
    nh = 400 if tier == 'quick' else 4000
    for i in range(nh):
        kind = i % 3
        items = month_items if i % 4 == 0 else random_db(rng)
        lay = [rng.choice([0, 1, 2]), rng.choice([0, 1, 2, 3, 4]), rng.choice([0, 1, 2, 3]), rng.choice([0, 1, 2, 3, 4]), rng.choice([0, 1]), rng.randint(0, 10 ** 6)]
        earlier = []
        for _ in range(rng.choice([1, 1, 2])):
            if kind == 2 and rng.random() < 0.6 or rng.random() < 0.25:
                earlier.append([ord('D'), encode_items(random_db(rng)), [rng.choice([0, 1, 2]), rng.choice([0, 1, 3]), rng.choice([0, 1, 2, 3]), rng.choice([0, 1, 2, 3]), 0, rng.randint(0, 10 ** 6)]])
            else:
                earlier.append([ord('R'), rng.choice(RAW)])
        yield ('history', 12, [kind, earlier, encode_items(items), lay, rng.choice(SUFFIX)])
    # values nested up to the limit of 100 levels (the outer delimiter is level 0)
    for d in (98, 99, 100):
        deep = '{' * d + 'x' + '}' * d
        items = [['E', 'misc', 'deep', [['F', 'note', [['T', 'a ' + deep + ' b']]], ['F', 'title', [['T', deep], ['T', deep]]]]]]
        for q in (0, 1, 3):
            yield ('deep_nesting', 10, [encode_items(items), [q % 2, q, 0, 1, 0, d]])
    for n in range(0, 7):
        for tup in itertools.product(['a', ' ', '\n', '\xa0'], repeat=n):
            yield ('normalize_whitespace', 3, [''.join(tup)])
    for i in range(500 if tier == 'quick' else 10000):
        yield ('normalize_whitespace', 3, [''.join(rng.choice(WS29 + ['a', 'b', '{', '.']) for _ in range(rng.randint(0, 24)))])
