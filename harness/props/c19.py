# C19 -- .bbl line wrapping.  Model: coq/Model/Wrap.v; theorems: coq/Props/C19.v
import itertools, random
from core import *

ID = 'C19'
WS = [' ', '\t', '\n', '\x0b', '\x0c', '\r', '\x1c', '\x1f', '\x85', '\xa0', ' ', ' ', ' ', ' ', ' ', ' ', ' ', '　']

def impl_wrap(arg):
    from pybtex.bibtex.utils import wrap
    s, w, ind = S(arg[0]), arg[1], S(arg[2])
    return call_impl(wrap, s, w, ind)

def impl_output(arg):
    """a run of write$ / newline$ through the real Interpreter.output / newline"""
    from pybtex.bibtex.interpreter import Interpreter
    def run():
        it = Interpreter(None, None)
        for op in arg:
            if len(op) == 1:
                it.output(S(op[0]))
            else:
                it.newline()
        return ''.join(it.output_lines)
    return call_impl(run)

def impl_engine(arg):
    """the same write$/newline$ operations as a .bst function run by Interpreter.run (what the BibTeX engine
    does with the physical lines, including whatever is still buffered when the style ends)"""
    from pybtex.bibtex import bst
    from pybtex.bibtex.interpreter import Interpreter
    from pybtex.database.input.bibtex import Parser
    def run():
        body = ' '.join(('"%s" write$' % S(o[0])) if len(o) == 1 else 'newline$' for o in arg)
        src = 'FUNCTION {f} { %s }\nEXECUTE {f}\n' % body
        it = Interpreter(Parser, 'utf-8')
        return it.run(bst.parse_string(src), [], [], 2)
    return call_impl(run)

def impl_history(arg):
    """several wrap calls one after the other in ONE process (a cache or any other state kept between
    calls shows up as a call whose answer depends on the earlier ones)"""
    return [impl_wrap(c) for c in arg]

FUNCS = {
    1: ('pybtex.bibtex.utils.wrap', impl_wrap, ('T', 'S', 'N', 'S')),
    2: ('Interpreter.output/newline', impl_output, ('L', ('O', 'S'))),
    3: ('history of wrap calls in one process', impl_history, ('L', ('T', 'S', 'N', 'S'))),
    4: ('Interpreter.run of a style that only writes (physical lines of engine output)', impl_engine, ('L', ('O', 'S'))),
}

RULE = ('exhaustive: every string over {a, space} up to the length bound x widths 1..9 x indents of 0..3 spaces; '
        'random: words of random lengths around the width joined by random whitespace (all 29 Python whitespace code points), '
        'width 79 and random widths; boundary: words of length w-1, w, w+1; write$/newline$ operation sequences. '
        'distinct = distinct (function, argument); non-trivial = the model output contains at least one line break.')
EXHAUSTIVE = {'quick': 'all strings over {a,space} of length <= 10 x widths 1..9 x indent lengths 0..3',
              'thorough': 'all strings over {a,space} of length <= 13 x widths 1..9 x indent lengths 0..3'}
TRUSTED_BASE = ['modelled (not verified) code: pybtex/bibtex/utils.py wrap/find_break/iter_lines, pybtex/bibtex/interpreter.py Interpreter.output/newline; regex (\\s) is modelled as "one Python whitespace code point" (re-measured per run)']
ASSUMPTIONS = ['Python str.isspace / regex \\s = the 29 code points of Base/PyChar.is_space (checked on every run over the whole Unicode range)']
PARTIAL = []

def describe(fn, arg):
    if fn == 1:
        return {'text': S(arg[0]), 'width': arg[1], 'indent': S(arg[2])}
    if fn == 3:
        return {'calls': [{'text': S(c[0]), 'width': c[1], 'indent': S(c[2])} for c in arg]}
    return {'ops': [('write$', S(o[0])) if len(o) == 1 else 'newline$' for o in arg], 'through': 'Interpreter.output/newline' if fn == 2 else 'a generated .bst run by Interpreter.run'}

def model_arg(fn, a):
    return a

def nontrivial(fn, arg, out):
    if fn == 3:
        return any(o[0] == 0 and 10 in o[1] for o in out)
    return out[0] == 0 and 10 in out[1]

def canon(fn, out):
    if fn == 3:
        return [canon_res(o) for o in out]
    return canon_res(out)

# non-whitespace characters a normalising or re-encoding implementation would alter: combining sequences
# (not NFC), compatibility characters, Hangul jamo, a non-BMP character
ODD = ['e\u0301', 'o\u0308', '\u2126', '\u212b', '\u212a', '\u1100\u1161', '\ufb01', '\u00df', '\U0001d11e', '\u0130', 'A\u030a']

def gen(tier, rng):
    maxlen = 10 if tier == 'quick' else 13
    for n in range(0, maxlen + 1):
        for bits in itertools.product('a ', repeat=n):
            s = ''.join(bits)
            for w in range(1, 10):
                for il in range(0, 4):
                    yield ('exhaustive', 1, [s, w, ' ' * il])
    nrand = 4000 if tier == 'quick' else 60000
    for i in range(nrand):
        w = rng.choice([79, 79, 79, rng.randint(1, 30), rng.randint(1, 100)])
        words = []
        for _ in range(rng.randint(0, 14)):
            L = rng.choice([rng.randint(1, 12), w - 1, w, w + 1, rng.randint(1, 2 * w + 2)])
            words.append(''.join((rng.choice(ODD) if rng.random() < 0.03 else rng.choice('abcXYZ{}\\.,-~')) for _ in range(max(0, L))))
        seps = [''.join(rng.choice(WS if rng.random() < 0.3 else [' ']) for _ in range(rng.choice([1, 1, 1, 2, 3]))) for _ in words]
        s = ''.join(a + b for a, b in zip(words, seps))
        if rng.random() < 0.3:
            s = rng.choice(WS) * rng.randint(1, 3) + s
        if rng.random() < 0.5:
            s = s.rstrip()
        ind = rng.choice(['  ', '  ', '', ' ', '    ', '\t', 'ab', '  x'])
        yield ('random', 1, [s, w, ind])
    for w in ([5, 79] if tier == 'quick' else [3, 5, 10, 79, 80]):
        for a in (w - 2, w - 1, w, w + 1):
            for b in (1, w - 1, w, w + 1):
                for c in (1, w):
                    s = 'x' * max(a, 0) + ' ' + 'y' * max(b, 0) + ' ' + 'z' * c
                    yield ('boundary', 1, [s, w, '  '])
                    yield ('boundary', 1, [' ' + s + ' ', w, '  '])
    # histories: the same text wrapped with different indents / widths, and unrelated texts in between
    for i in range(400 if tier == 'quick' else 4000):
        w = rng.choice([5, 9, 20, 79])
        base = ' '.join('x' * rng.randint(1, w) for _ in range(rng.randint(2, 12)))
        other = ' '.join('y' * rng.randint(1, w) for _ in range(rng.randint(2, 8)))
        calls = []
        for _ in range(rng.randint(2, 6)):
            calls.append([rng.choice([base, base, other]), rng.choice([w, w, w + 1, 79]), rng.choice(['  ', '', ' ', '    ', '\t'])])
        yield ('history', 3, calls)
    yield ('history', 3, [['aaa bbb ccc ddd', 6, ''], ['aaa bbb ccc ddd', 6, '  '], ['aaa bbb ccc ddd', 6, '']])
    for odd in ODD:
        yield ('pinned', 1, [('ab ' + odd + ' cd ') * 12, 20, '  '])
    # long logical lines built from many write$ calls (well over 1000 characters before the newline$)
    for i in range(60 if tier == 'quick' else 600):
        ops = []
        for _ in range(rng.randint(40, 220)):
            w = ''.join(rng.choice('abcdefgh') for _ in range(rng.randint(1, 14)))
            ops.append([w + rng.choice([' ', ' ', '', ', ', '  '])])
            if rng.random() < 0.03:
                ops.append([])
        ops.append([])
        yield ('long_output', 2, ops)
    for i in range(250 if tier == 'quick' else 2500):
        ops = []
        for _ in range(rng.randint(1, 10)):
            if rng.random() < 0.3:
                ops.append([])
            else:
                ops.append([''.join(rng.choice('ab c,.') for _ in range(rng.randint(0, 70)))])
        if rng.random() < 0.5 and ops and ops[-1]:
            ops.append([' '.join('w%d' % k for k in range(rng.randint(1, 60))) + rng.choice(['', ' ', '  '])])   # pending text, no newline$
        yield ('engine_run', 4, ops)
    for i in range(300 if tier == 'quick' else 3000):
        ops = []
        for _ in range(rng.randint(1, 8)):
            if rng.random() < 0.35:
                ops.append([])
            else:
                ops.append([''.join(rng.choice('ab c,.') for _ in range(rng.randint(0, 60)))])
        yield ('output_ops', 2, ops)

def oracle(fn, arg, out):
    """the property itself, on the implementation's output"""
    if fn == 3:
        for k, (c, o) in enumerate(zip(arg, out)):
            m = oracle(1, c, o)
            if m:
                return 'call %d of the history: %s' % (k, m)
        return None
    if fn in (2, 4):
        # write$/newline$ runs: the words of the emitted text are the words of the written text, in order
        # (nothing lost, duplicated or glued together), and every physical line obeys the width law
        if out[0] != 0:
            return 'the output run raised'
        written = ''.join((S(o[0]) if len(o) == 1 else '\n') for o in arg)
        if written.split('\n')[-1] != '':
            written = '\n'.join(written.split('\n')[:-1]) + '\n'     # text still in the buffer is not emitted
        res = S(out[1])
        if res.split() != written.split():
            return 'the words of the emitted lines differ from the words written: %r ... vs %r ...' % (res[-60:], written[-60:])
        if any(c in written for c in '\r\x0b\x0c\x1c\x1d\x1e\x85\u2028\u2029'):
            return None
        for k, l in enumerate(res.split('\n')):
            if len(l) > 79 and any(c.isspace() for c in l[3:]):
                return 'physical line %d is longer than 79 columns although it has a legal break: %r' % (k, l[:90])
        return None
    if fn != 1:
        return None
    if out[0] != 0:
        return 'wrap raised instead of returning text'
    s, w, ind = S(arg[0]), arg[1], S(arg[2])
    res = S(out[1])
    nonsp = lambda t: ''.join(c for c in t if not c.isspace())
    if not ind.strip() == '':
        return None   # the content law presupposes a whitespace indent
    if nonsp(res) != nonsp(s):
        return 'non-whitespace content changed: %r -> %r' % (s, res)
    # physical lines are what '\n' separates (wrap joins with '\n' and nothing else); the structural laws are
    # stated for inputs without '\n' -- other line-break-like whitespace (\r \x0b \x0c \x1c-\x1e \x85 U+2028/9)
    # is ordinary whitespace to wrap and must not cause a break of its own
    if '\n' in s or '\n' in ind:
        return None
    lines = res.split('\n')
    if len(s) <= w and res != s.rstrip():
        return 'the text fits into width %d and must come back unbroken (only right-stripped): %r -> %r' % (w, s, res)
    for k, l in enumerate(lines):
        if l != l.rstrip():
            return 'trailing whitespace on line %d: %r' % (k, l)
        if k > 0 and l and not (l.startswith(ind) or ind.startswith(l)):
            return 'continuation line %d does not start with the indent: %r' % (k, l)
        if len(l) > w:
            # a legal break point is any whitespace after the indent (theorem wrap_width_strong):
            # a line longer than the width must not contain one
            for p, c in enumerate(l):
                if c.isspace() and len(ind) < p:
                    return 'line %d longer than width %d although it has a legal break at %d: %r' % (k, w, p, l)
    return None

def extra_checks(ck, tier, rng):
    # the whitespace class the model assumes, against the running interpreter, all of Unicode
    import re, sys
    from pybtex.bibtex.utils import whitespace_re
    model_ws = set(list(range(9, 14)) + list(range(28, 33)) + [133, 160, 5760] + list(range(8192, 8203)) + [8232, 8233, 8239, 8287, 12288])
    fails = []
    n = 0
    for cp in range(0x110000):
        if 0xD800 <= cp <= 0xDFFF:
            continue
        c = chr(cp); n += 1
        a = bool(whitespace_re.fullmatch(c)); b = c.isspace(); m = cp in model_ws
        if not (a == b == m):
            fails.append(('U+%04X' % cp, 'regex=%s isspace=%s model=%s' % (a, b, m), False))
    yield {'name': 'whitespace_class_sweep', 'evaluations': n, 'failures': fails[:5], 'info': 'whitespace_re / str.isspace / model is_space agree on every code point'}
