# harness/core.py -- generic machinery shared by every property check:
#   proof step (coqc on the property file, assumption audit, forbidden-word scan),
#   correspondence step (extracted model vs implementation on the same cases),
#   oracle step (the property itself evaluated on the implementation's outputs),
#   shrinking, known-findings matching, verdict, evidence.
import os, sys, json, time, random, subprocess, hashlib, re, shutil, fcntl, traceback, itertools
import multiprocessing as mp

VERIF = os.environ.get('VERIF_ROOT') or os.path.dirname(os.path.dirname(os.path.abspath(__file__)))
REPO = os.environ.get('VERIF_REPO', '/repo')
COQ = os.path.join(VERIF, 'coq')
BIN = os.path.join(VERIF, '_build', 'bin')
NPROC = int(os.environ.get('VERIF_NPROC', '16'))

STD_AXIOMS_OK = (  # axioms declared by Coq's standard library that the brief allows (must be named in the trusted base)
    'Coq.Logic.FunctionalExtensionality.functional_extensionality_dep',
    'functional_extensionality_dep', 'Coq.Logic.Classical_Prop.classic', 'classic',
    'Coq.Logic.ProofIrrelevance.proof_irrelevance', 'proof_irrelevance', 'JMeq_eq', 'Eqdep.Eq_rect_eq.eq_rect_eq', 'eq_rect_eq',
    'propositional_extensionality', 'constructive_indefinite_description', 'constructive_definite_description')

FORBIDDEN = re.compile(r'\b(Admitted|admit|Axiom|Axioms|Parameter|Parameters|Conjecture|Conjectures|Admit Obligations|bypass_check|Unset Guard Checking|Unset Positivity Checking|Unset Universe Checking|type-in-type|impredicative-set)\b')

# ----------------------------------------------------------------------------------------
# s-expressions
def sx(v):
    """nested python ints/lists -> text"""
    if isinstance(v, bool):
        return '1' if v else '0'
    if isinstance(v, int):
        return str(v)
    if isinstance(v, str):
        return '(' + ' '.join(str(ord(c)) for c in v) + ')'
    return '(' + ' '.join(sx(x) for x in v) + ')'

def norm(v):
    """canonical nested-list-of-ints form (strings -> code points, tuples -> lists, bools -> ints)"""
    if isinstance(v, bool):
        return 1 if v else 0
    if isinstance(v, int):
        return v
    if isinstance(v, str):
        return [ord(c) for c in v]
    if v is None:
        return []
    return [norm(x) for x in v]

def parse_sx(s):
    """text of one s-expression of integers -> nested lists (through the C json parser)"""
    return json.loads(s.replace('(', '[').replace(')', ']').replace(' ', ',').replace('[,', '[').replace(',]', ']'))

def S(v):
    """decode a code-point list back to str (for messages)"""
    try:
        return ''.join(chr(c) for c in v)
    except Exception:
        return repr(v)

# result encodings shared with Base/Prelude.v e_res
def OK(v): return [0, norm(v)]
PYERR = [1]
CRASH = [2]

def call_impl(f, *a):
    """run an implementation function; classify the outcome like the model's res"""
    from pybtex.exceptions import PybtexError
    try:
        return OK(f(*a))
    except PybtexError as e:
        return [1]
    except RecursionError:
        return [2]
    except Exception as e:
        return [2]

def canon_res(r):
    """default canonicalisation of a res value: error class / line not compared"""
    if isinstance(r, list) and r and r[0] == 1:
        return [1]
    return r

# ----------------------------------------------------------------------------------------
# schema-directed shrinking.  schema: 'S' str, 'I' int, 'N' non-negative int, 'B' bool,
# ('L', sch) list, ('T', s1, s2, ...) tuple, ('O', sch) option, 'X' opaque (not shrunk)
def shrink_candidates(sch, v):
    if sch == 'S':
        n = len(v)
        k = n // 2
        while k >= 1:
            for i in range(0, n - k + 1, k):
                yield v[:i] + v[i + k:]
            k //= 2
        for i, c in enumerate(v):
            if c not in (97, 32) :
                yield v[:i] + [97] + v[i + 1:]
    elif sch in ('I', 'N'):
        if v != 0:
            yield 0
            if abs(v) > 1:
                yield v // 2 if v > 0 else -((-v) // 2)
            yield v - 1 if v > 0 else v + 1
            if sch == 'I' and v < 0:
                yield -v
    elif sch == 'B':
        if v:
            yield 0
    elif isinstance(sch, tuple) and sch[0] == 'L':
        n = len(v)
        k = n // 2
        while k >= 1:
            for i in range(0, n - k + 1, k):
                yield v[:i] + v[i + k:]
            k //= 2
        for i, x in enumerate(v):
            for y in shrink_candidates(sch[1], x):
                yield v[:i] + [y] + v[i + 1:]
    elif isinstance(sch, tuple) and sch[0] == 'T':
        for i, x in enumerate(v):
            for y in shrink_candidates(sch[1 + i], x):
                yield v[:i] + [y] + v[i + 1:]
    elif isinstance(sch, tuple) and sch[0] == 'O':
        if v:
            yield []
            for y in shrink_candidates(sch[1], v[0]):
                yield [y]

def shrink(sch, v, still_fails, budget=400):
    cur = v
    progress = True
    while progress and budget > 0:
        progress = False
        for cand in shrink_candidates(sch, cur):
            budget -= 1
            if budget <= 0:
                break
            try:
                if still_fails(cand):
                    cur = cand; progress = True
                    break
            except Exception:
                pass
    return cur

# ----------------------------------------------------------------------------------------
class Model:
    """the extracted Gallina model of one property, run as a batch process"""
    def __init__(self, pid):
        self.path = os.path.join(BIN, pid.lower())
    def run(self, cases, rundir, shards=NPROC):
        """cases: list of (fn, arg); returns list of parsed results"""
        if not cases:
            return []
        shards = max(1, min(shards, (len(cases) + 199) // 200))
        chunks = [cases[i::shards] for i in range(shards)]
        procs = []
        for k, ch in enumerate(chunks):
            inp = os.path.join(rundir, 'model_in_%d.txt' % k)
            with open(inp, 'w') as f:
                for fn, arg in ch:
                    f.write('%d %s\n' % (fn, sx(arg)))
            out = open(os.path.join(rundir, 'model_out_%d.txt' % k), 'w')
            # large stack: extracted code is not tail recursive everywhere
            p = subprocess.Popen(['bash', '-c', 'ulimit -s unlimited 2>/dev/null || ulimit -s 1000000 2>/dev/null; exec "%s"' % self.path],
                                 stdin=open(inp), stdout=out, stderr=subprocess.PIPE)
            procs.append((p, out, k))
        results = [None] * len(cases)
        for (p, out, k) in procs:
            _, err = p.communicate()
            out.close()
            lines = open(os.path.join(rundir, 'model_out_%d.txt' % k)).read().split('\n')
            idxs = list(range(k, len(cases), shards))
            if p.returncode != 0 or len(lines) - 1 != len(idxs):
                raise RuntimeError('model runner failed (shard %d, rc %s, %d/%d lines): %s' % (k, p.returncode, len(lines) - 1, len(idxs), err[-500:]))
            for i, ln in zip(idxs, lines):
                results[i] = parse_sx(ln)
        return results
    marg = None
    def run1(self, fn, arg):
        if self.marg:
            arg = norm(self.marg(fn, arg))
        p = subprocess.run(['bash', '-c', 'ulimit -s unlimited 2>/dev/null; exec "%s"' % self.path], input='%d %s\n' % (fn, sx(arg)), capture_output=True, text=True)
        return parse_sx(p.stdout.strip())

# ---- non-termination guard.  Every call of an implementation wrapper made by core (sharded run, shrinking,
# order replay, --replay) runs under a CPU-time limit (ITIMER_PROF, so a loaded machine does not trip it; the
# property modules' own, shorter guards use other timers).  A call that exceeds it answers ['HANG', seconds],
# which run_check reports as a violation with that input as the replay; after MAX_HANGS_PER_WORKER such cases a
# worker skips the rest of its shard (['HANG-SKIPPED']) so that the check itself still terminates.
HANG_CPU_S = int(os.environ.get('VERIF_HANG_CPU_S', '60'))
MAX_HANGS_PER_WORKER = 2
_hang_limit = [HANG_CPU_S]     # lowered for the shrinking / search phase once the sharded run has met a hang
class ImplHang(BaseException):
    pass
def _on_prof(sig, frm):
    raise ImplHang()
def is_hang(o):
    return isinstance(o, list) and len(o) > 0 and o[0] in ('HANG', 'HANG-SKIPPED')
def hang_guard(f):
    def g(arg):
        import signal
        try:
            old = signal.signal(signal.SIGPROF, _on_prof)
        except ValueError:            # not in the main thread: no guard available
            return f(arg)
        try:
            signal.setitimer(signal.ITIMER_PROF, _hang_limit[0])
            try:
                return f(arg)
            finally:
                signal.setitimer(signal.ITIMER_PROF, 0)
        except ImplHang:
            return ['HANG', _hang_limit[0]]
        finally:
            signal.signal(signal.SIGPROF, old)
    g.__wrapped__ = f
    return g

_IMPL_FUNCS = None
_ORACLE = None
def _impl_worker(chunk):
    """runs the implementation wrapper and (in the same worker) the property oracle on its output;
    returns a list of (output, oracle_message_or_None)"""
    out = []
    hangs = 0
    for fn, arg in chunk:
        if hangs >= MAX_HANGS_PER_WORKER:
            out.append((['HANG-SKIPPED'], None))
            continue
        try:
            o = _IMPL_FUNCS[fn](arg)
        except BaseException as e:   # harness-level failure, reported as such
            out.append((['HARNESS', repr(e), traceback.format_exc()[-800:]], None))
            continue
        if is_hang(o):
            hangs += 1
            out.append((o, None))
            continue
        msg = None
        if _ORACLE is not None:
            try:
                msg = _ORACLE(fn, arg, o)
            except Exception as e:
                msg = 'oracle raised %r' % (e,)
        out.append((o, msg))
    return out

def run_impl(funcs, cases, procs=NPROC, oracle=None, pairs=False):
    """funcs: {fn: callable(arg)->canonical result}.  fork-based pool so pybtex is the
    working tree imported by this process.  Returns the list of outputs; with pairs=True a list of
    (output, oracle message) -- the oracle then runs in the workers, right after the implementation."""
    global _IMPL_FUNCS, _ORACLE
    _IMPL_FUNCS = funcs
    _ORACLE = oracle if pairs else None
    if not cases:
        return []
    if len(cases) < 400 or procs <= 1:
        res = _impl_worker(cases)
    else:
        n = min(procs, (len(cases) + 199) // 200)
        chunks = [cases[i::n] for i in range(n)]
        ctx = mp.get_context('fork')
        with ctx.Pool(n) as pool:
            outs = pool.map(_impl_worker, chunks)
        res = [None] * len(cases)
        for k, o in enumerate(outs):
            for i, r in zip(range(k, len(cases), n), o):
                res[i] = r
    return res if pairs else [r[0] for r in res]

# ----------------------------------------------------------------------------------------
def ensure_built(log):
    """(re)build the static Coq development and the extracted runners if stale."""
    lock = open(os.path.join(VERIF, '.build.lock'), 'w')
    fcntl.flock(lock, fcntl.LOCK_EX)
    try:
        newest_src = 0
        for root, _, files in os.walk(COQ):
            for f in files:
                if f.endswith('.v') and not f.startswith('_goal'):
                    newest_src = max(newest_src, os.path.getmtime(os.path.join(root, f)))
        newest_src = max(newest_src, os.path.getmtime(os.path.join(VERIF, 'extract', 'driver.ml')))
        stamp = os.path.join(VERIF, '_build', 'stamp')
        if (not os.path.exists(stamp)) or os.path.getmtime(stamp) < newest_src or not os.path.exists(os.path.join(VERIF, '_pydeps', 'six.py')):
            t = time.time()
            p = subprocess.run(['bash', os.path.join(VERIF, 'setup.sh')], capture_output=True, text=True)
            log('setup.sh rc=%d (%.1fs)' % (p.returncode, time.time() - t))
            if p.returncode != 0:
                return False, p.stdout[-3000:] + p.stderr[-2000:]
            open(stamp, 'w').write(str(time.time()))
        return True, ''
    finally:
        fcntl.flock(lock, fcntl.LOCK_UN)

def _strip_coq_comments(txt):
    out = []; d = 0; i = 0; n = len(txt)
    while i < n:
        if txt.startswith('(*', i):
            d += 1; i += 2; continue
        if txt.startswith('*)', i) and d > 0:
            d -= 1; i += 2; continue
        if d == 0 or txt[i] == '\n':
            out.append(txt[i])
        i += 1
    return ''.join(out)

def scan_forbidden():
    """forbidden words anywhere in the development, and Variable/Hypothesis/Context declarations
    outside a Section (each of which would declare an axiom)"""
    hits = []
    for root, _, files in os.walk(COQ):
        for f in files:
            if f.endswith('.v') and not f.startswith('_goal'):
                p = os.path.join(root, f)
                txt = _strip_coq_comments(open(p).read())
                for m in FORBIDDEN.finditer(txt):
                    hits.append('%s: %s' % (os.path.relpath(p, COQ), m.group(0)))
                stack = []
                for ln, line in enumerate(txt.split('\n'), 1):
                    m = re.match(r'\s*(Section|Module(?:\s+Type)?)\s+([A-Za-z0-9_\']+)', line)
                    if m and ':=' not in line:
                        stack.append(m.group(1))
                    elif re.match(r'\s*End\s+[A-Za-z0-9_\']+\s*\.', line) and stack:
                        stack.pop()
                    if re.match(r'\s*(Variable|Variables|Hypothesis|Hypotheses|Context)\b', line) and 'Section' not in stack:
                        hits.append('%s:%d: %s outside a Section' % (os.path.relpath(p, COQ), ln, line.strip()[:50]))
    return hits

def proof_step(pid, rundir, extra_files=()):
    """compile Props/<pid>.v (and per-run generated files) with coqc, fresh, and audit
    its Print Assumptions output.  Returns dict."""
    res = {'theorems': [], 'obligations': 0, 'discharged': 0, 'axioms': [], 'failed': [], 'log': ''}
    props = os.path.join(COQ, 'Props', pid + '.v')
    src = open(props).read()
    names = re.findall(r'^\s*(?:Theorem|Corollary)\s+([A-Za-z0-9_\']+)', src, flags=re.M)
    res['theorems'] = names
    res['examples'] = re.findall(r'^\s*Example\s+([A-Za-z0-9_\']+)', src, flags=re.M)
    res['obligations'] = len(names)
    forb = scan_forbidden()
    if forb:
        res['failed'].append('forbidden constructs in the development: ' + '; '.join(forb[:10]))
    cmdline = 'coqc -Q %s Pybtex -o %s %s' % (COQ, os.path.join(rundir, pid + '.vo'), props)
    res['checker_cmd'] = 'cd %s && make ' % COQ + '  (all Model/Spec/Proofs/Props files, full .vo);  then fresh on every run: ' + cmdline
    t = time.time()
    p = subprocess.run(['timeout', '900'] + cmdline.split(), capture_output=True, text=True, cwd=rundir)
    res['coqc_s'] = round(time.time() - t, 2)
    out = p.stdout + p.stderr
    res['log'] = out[-4000:]
    if p.returncode != 0:
        res['failed'].append('coqc failed on Props/%s.v: %s' % (pid, out[-1500:]))
        return res
    # Print Assumptions blocks, in order of the theorems
    blocks = re.split(r'(?=Closed under the global context|Axioms:)', out)
    blocks = [b for b in blocks if b.startswith('Closed under') or b.startswith('Axioms:')]
    n_pa = len(re.findall(r'^\s*Print Assumptions', src, flags=re.M))
    if n_pa < len(names):
        res['failed'].append('%d theorems but only %d Print Assumptions commands' % (len(names), n_pa))
    closed = 0
    for b in blocks:
        if b.startswith('Closed under'):
            closed += 1
        else:
            axs = re.findall(r'^([A-Za-z0-9_\.\']+)\s*:', b, flags=re.M)
            bad = [a for a in axs if a not in STD_AXIOMS_OK and a.split('.')[-1] not in STD_AXIOMS_OK]
            res['axioms'].extend(axs)
            if bad:
                res['failed'].append('theorem depends on non-standard-library axioms: %s' % bad)
            else:
                closed += 1
    if len(blocks) != n_pa:
        res['failed'].append('expected %d Print Assumptions results, saw %d' % (n_pa, len(blocks)))
    res['discharged'] = min(closed, len(names)) if not res['failed'] else 0
    for extra in extra_files:
        pass
    return res

def coqc_file(path, rundir, extra_Q=()):
    cmd = ['timeout', '600', 'coqc', '-Q', COQ, 'Pybtex']
    for (d, n) in extra_Q:
        cmd += ['-Q', d, n]
    cmd += [path]
    p = subprocess.run(cmd, capture_output=True, text=True, cwd=rundir)
    return p.returncode, (p.stdout + p.stderr)


# ----------------------------------------------------------------------------------------
# thorough tier: cross-check extraction against the kernel's evaluator, and coqchk
def _coq_sx(v):
    if isinstance(v, int):
        return '(A (%d))' % v if v < 0 else '(A %d)' % v
    return '(L [' + '; '.join(_coq_sx(x) for x in v) + '])'

VM_HEADER = r"""From Pybtex Require Import Base.Prelude.
Require Import %s.
Open Scope Z_scope.
Fixpoint sx_eqb (a b : sexp) {struct a} : bool :=
  match a, b with
  | A x, A y => Z.eqb x y
  | L xs, L ys =>
      (fix go (xs ys : list sexp) {struct xs} : bool :=
         match xs, ys with
         | nil, nil => true
         | x :: xs', y :: ys' => andb (sx_eqb x y) (go xs' ys')
         | _, _ => false
         end) xs ys
  | _, _ => false
  end.
Definition bad (cs : list (Z * sexp * sexp)) : nat :=
  length (filter (fun c => negb (sx_eqb (dispatch (fst (fst c)) (snd (fst c))) (snd c))) cs).
"""

def vm_crosscheck(ck, pid, mcases, mouts, n=240, maxlen=1500):
    """evaluate `dispatch` inside Coq (vm_compute) on a sample of the cases the extracted runner
    executed and compare with the runner's outputs.  Returns dict(evaluated, disagreements, log)."""
    idxs = [i for i, (fn, arg) in enumerate(mcases) if len(sx(arg)) <= maxlen and len(sx(mouts[i])) <= 4 * maxlen]
    if not idxs:
        return {'evaluated': 0, 'disagreements': 0, 'log': 'no case small enough'}
    step = max(1, len(idxs) // n)
    pick = idxs[::step][:n]
    extr_dir = os.path.join(VERIF, '_build', 'extract', pid.lower())
    files = []
    per = 60
    for k in range(0, len(pick), per):
        path = os.path.join(ck.rundir, 'VmCases%d.v' % (k // per))
        with open(path, 'w') as f:
            f.write(VM_HEADER % pid)
            f.write('Definition cases : list (Z * sexp * sexp) := [\n')
            f.write(';\n'.join('(%d, %s, %s)' % (mcases[i][0], _coq_sx(mcases[i][1]), _coq_sx(mouts[i])) for i in pick[k:k + per]))
            f.write('].\nEval vm_compute in (bad cases).\n')
        files.append(path)
    procs = [subprocess.Popen(['bash', '-c', 'ulimit -s unlimited 2>/dev/null; exec timeout 900 coqc -Q %s Pybtex -Q %s "" %s' % (COQ, extr_dir, f)],
                              stdout=subprocess.PIPE, stderr=subprocess.STDOUT, text=True, cwd=ck.rundir) for f in files]
    dis = 0; log = ''; done = 0
    for p, f, k in zip(procs, files, range(0, len(pick), per)):
        out, _ = p.communicate()
        m = re.search(r'=\s*(\d+)(?:%nat)?\s*:\s*nat', out)
        if p.returncode != 0 or not m:
            dis += 1; log += 'coqc failed on %s: %s\n' % (os.path.basename(f), out[-600:])
        else:
            dis += int(m.group(1)); done += len(pick[k:k + per])
    return {'evaluated': done, 'disagreements': dis, 'log': log[-1500:]}

def coqchk_step(pid):
    t = time.time()
    p = subprocess.run(['timeout', '1500', 'coqchk', '-o', '-silent', '-Q', COQ, 'Pybtex', 'Pybtex.Props.' + pid], capture_output=True, text=True)
    out = p.stdout + p.stderr
    m = re.search(r'\* Axioms:(.*?)\n\s*\n\* Constants/Inductives relying on type-in-type:(.*?)\n\s*\n\* Constants/Inductives relying on unsafe \(co\)fixpoints:(.*?)\n\s*\n\* Inductives whose positivity is assumed:(.*?)\n', out, flags=re.S)
    res = {'rc': p.returncode, 'wall_s': round(time.time() - t, 1), 'cmd': 'coqchk -o -silent -Q %s Pybtex Pybtex.Props.%s' % (COQ, pid)}
    if m:
        res.update({'axioms': ' '.join(m.group(1).split()), 'type_in_type': ' '.join(m.group(2).split()),
                    'unsafe_fixpoints': ' '.join(m.group(3).split()), 'positivity_assumed': ' '.join(m.group(4).split())})
        res['clean'] = p.returncode == 0 and all(res[k] == '<none>' for k in ('type_in_type', 'unsafe_fixpoints', 'positivity_assumed'))
        axs = [] if res['axioms'] == '<none>' else re.findall(r'([A-Za-z0-9_\.\']+)\s*:', res['axioms']) or [res['axioms']]
        res['nonstd_axioms'] = [a for a in axs if a not in STD_AXIOMS_OK and a.split('.')[-1] not in STD_AXIOMS_OK]
        if res['nonstd_axioms']:
            res['clean'] = False
    else:
        res['clean'] = False; res['tail'] = out[-800:]
    return res



# ----------------------------------------------------------------------------------------
# order independence: the implementation's answer for a case must not depend on which other cases
# ran before it in the same process (caches keyed on too little, class-level or module-level state,
# shared mutable defaults).  The sharded run executes every case once, in a fixed order; here a
# stratified sample is re-run in ONE fresh child process, shuffled, forwards and then backwards.
def _run_sequence_in_child(funcs, seq):
    """seq: list of (fn, arg); returns the list of outputs, computed in order in a forked child"""
    ctx = mp.get_context('fork')
    parent, child = ctx.Pipe(duplex=False)
    def work(conn):
        outs = []
        for fn, arg in seq:
            try:
                outs.append(funcs[fn](arg))
            except BaseException as e:
                outs.append(['HARNESS', repr(e)])
        try:
            conn.send(outs)
        finally:
            conn.close()
            os._exit(0)
    pr = ctx.Process(target=work, args=(child,))
    pr.start()
    child.close()
    try:
        if parent.poll(600):
            outs = parent.recv()
        else:
            outs = None
    except EOFError:
        outs = None
    pr.join(5)
    if pr.is_alive():
        pr.kill()
    return outs

def order_independence(ck, mod, funcs, canon, plain, iouts, rng, budget_cases, budget_s):
    byfn = {}
    for idx, (fn, arg) in enumerate(plain):
        byfn.setdefault(fn, []).append(idx)
    skip = set(getattr(mod, 'ORDER_REPLAY_SKIP_FUNCS', ()))
    pick = []
    fns = [f for f in byfn if f not in skip]
    if not fns:
        return {'cases': 0, 'deviations': []}
    for fn in fns:
        idxs = byfn[fn]
        share = max(1, budget_cases // len(fns))
        if len(idxs) > share:
            # half of the share as runs of NEIGHBOURING cases (same text with other options ...), half at random
            runs = []
            for _ in range(max(1, share // 16)):
                a = rng.randrange(0, len(idxs))
                runs.extend(idxs[a:a + 8])
            idxs = list(dict.fromkeys(runs + rng.sample(idxs, share // 2)))
        pick.extend(idxs)
    rng.shuffle(pick)
    seq = pick + pick[::-1]
    t = time.time()
    outs = _run_sequence_in_child(funcs, [plain[i] for i in seq])
    if outs is None:
        return {'cases': len(seq), 'deviations': [], 'note': 'the replay child did not answer (skipped)'}
    devs = []
    for pos, (i, o) in enumerate(zip(seq, outs)):
        fn = plain[i][0]
        if isinstance(o, list) and o and o[0] == 'HARNESS':
            continue
        if canon(fn, o) != canon(fn, iouts[i]):
            devs.append((pos, i, o))
            if len(devs) >= 3:
                break
    res = {'cases': len(seq), 'wall_s': round(time.time() - t, 1), 'deviations': []}
    for (pos, i, o) in devs[:2]:
        fn, arg = plain[i]
        # shrink the prefix: keep the last case, drop chunks of what ran before it while it still deviates
        prefix = seq[:pos]
        def deviates(pre):
            r = _run_sequence_in_child(funcs, [plain[j] for j in pre] + [plain[i]])
            return r is not None and canon(fn, r[-1]) != canon(fn, iouts[i])
        if not deviates(prefix):
            res['deviations'].append({'fn': fn, 'arg': arg, 'history': None, 'out': o, 'note': 'not reproducible from the recorded prefix'})
            continue
        tries = 0
        chunk = max(1, len(prefix) // 2)
        while chunk >= 1 and tries < 40 and time.time() - t < budget_s:
            k = 0; progressed = False
            while k < len(prefix) and tries < 40:
                cand = prefix[:k] + prefix[k + chunk:]
                tries += 1
                if deviates(cand):
                    prefix = cand; progressed = True
                else:
                    k += chunk
            if not progressed or chunk == 1:
                chunk //= 2
        r = _run_sequence_in_child(funcs, [plain[j] for j in prefix] + [plain[i]])
        res['deviations'].append({'fn': fn, 'arg': arg, 'history': [plain[j] for j in prefix], 'out': r[-1] if r else o, 'alone': iouts[i]})
    return res

# ----------------------------------------------------------------------------------------
# thorough tier: which lines of the anchored code the implementation-side cases execute
def impl_line_coverage(pid, funcs, cases, sample=12000, budget_s=150):
    """runs a strided sample of the cases in this process under coverage.py, restricted to the files the
    property is anchored in (properties.jsonl), and reports executed/executable statements per file and
    inside the anchored line ranges (widened by 15 lines, since fix: commits shift them).  Information
    about generator blind spots; never a verdict."""
    try:
        import coverage
    except Exception as e:
        return {'available': False, 'why': repr(e)}
    anchors = None
    for l in open(os.path.join(VERIF, 'properties.jsonl')):
        d = json.loads(l)
        if d['id'] == pid:
            anchors = d.get('anchors', {})
    if not anchors:
        return {'available': False, 'why': 'no anchors'}
    files = [os.path.join(REPO, f) for f in anchors.get('files', []) if os.path.exists(os.path.join(REPO, f))]
    ranges = {}
    for m in anchors.get('mechanism', []):
        for part in re.findall(r'([\w/\.]+\.py):([\d,\-]+)', m.get('where', '')):
            for r in part[1].split(','):
                if r:
                    a, _, b = r.partition('-')
                    ranges.setdefault(os.path.join(REPO, part[0]), []).append((int(a) - 15, int(b or a) + 15))
    byfn = {}
    for c in cases:
        byfn.setdefault(c[0], []).append(c)
    pick = []
    for fn, cs in byfn.items():     # an even share per compared function, strided over its cases
        share = max(1, sample // len(byfn))
        step = max(1, len(cs) // share)
        pick.extend(cs[::step][:share])
    cov = coverage.Coverage(include=files, data_file=None)
    t = time.time(); done = 0
    cov.start()
    try:
        for fn, arg in pick:
            try:
                funcs[fn](arg)
            except BaseException:
                pass
            done += 1
            if time.time() - t > budget_s:
                break
    finally:
        cov.stop()
    out = {'available': True, 'cases_run': done, 'files': {}}
    for f in files:
        try:
            _, stmts, _, missing, _ = cov.analysis2(f)
        except Exception as e:
            out['files'][os.path.relpath(f, REPO)] = {'error': repr(e)}
            continue
        src = open(f).read().split('\n')
        def body(n):   # statements executed at import time (def/class/decorator/import lines) are not counted
            line = src[n - 1].strip() if 0 < n <= len(src) else ''
            return not re.match(r'(def |class |@|import |from |"""|r"""|\'\'\')', line)
        stmts = [n for n in stmts if body(n)]
        missing = [n for n in missing if body(n)]
        rec = {'statements': len(stmts), 'executed': len(stmts) - len(missing)}
        rs = ranges.get(f)
        if rs:
            inr = lambda n: any(a <= n <= b for a, b in rs)
            st_r = [n for n in stmts if inr(n)]; mi_r = [n for n in missing if inr(n)]
            rec['anchored_ranges'] = {'statements': len(st_r), 'executed': len(st_r) - len(mi_r), 'not_executed_lines': mi_r[:60]}
        out['files'][os.path.relpath(f, REPO)] = rec
    return out

# ----------------------------------------------------------------------------------------
def load_known():
    out = []
    p = os.path.join(VERIF, 'known_findings.json')
    if os.path.exists(p):
        out.extend(json.load(open(p)).get('findings', []))
    d = os.path.join(VERIF, 'known_findings.d')
    if os.path.isdir(d):
        for f in sorted(os.listdir(d)):
            if f.endswith('.json'):
                out.extend(json.load(open(os.path.join(d, f))).get('findings', []))
    return out

class Check:
    """One run of one property's check."""
    def __init__(self, mod, tier, seed):
        self.mod = mod
        self.pid = mod.ID
        self.tier = tier
        self.seed = seed
        self.t0 = time.time()
        self.rundir = os.path.join(VERIF, '_run', '%s-%d' % (self.pid, os.getpid()))
        shutil.rmtree(self.rundir, ignore_errors=True)
        os.makedirs(self.rundir)
        # every temporary file of this run (workers' mkdtemp included: pool workers end without running their
        # atexit handlers) goes below one private directory that cleanup() removes
        import tempfile
        self.tmpdir = os.path.join(tempfile.gettempdir(), 'verif-%s-%d' % (self.pid, os.getpid()))
        shutil.rmtree(self.tmpdir, ignore_errors=True)
        os.makedirs(self.tmpdir)
        os.environ['TMPDIR'] = self.tmpdir
        tempfile.tempdir = None
        self.logs = []
        self.violations = []   # dicts
        self.known_hits = {}   # finding id -> count
        self.known = [k for k in load_known() if k.get('property') == self.pid]
        self.model = Model(self.pid)

    def log(self, msg):
        self.logs.append('[%6.1fs] %s' % (time.time() - self.t0, msg))
        if os.environ.get('VERIF_VERBOSE'):
            print(self.logs[-1], file=sys.stderr)

    def match_known(self, kind, fn, arg, detail):
        """does this failing case fall under a listed (status=known) finding?"""
        for k in self.known:
            if k.get('status') != 'known':
                continue
            pred = getattr(self.mod, 'KNOWN_SIGNATURES', {}).get(k['id'])
            try:
                if pred and pred(kind, fn, arg, detail):
                    return k
            except Exception:
                continue
        return None

    def write_replay(self, rec):
        d = os.path.join(os.environ.get('VERIF_REPLAY_DIR') or os.path.join(VERIF, 'replays'), self.pid)
        os.makedirs(d, exist_ok=True)
        h = hashlib.sha1(json.dumps(rec, sort_keys=True, default=str).encode()).hexdigest()[:12]
        path = os.path.join(d, h + '.json')
        json.dump(rec, open(path, 'w'), indent=1, default=str)
        return path

    def cleanup(self):
        shutil.rmtree(self.rundir, ignore_errors=True)
        shutil.rmtree(self.tmpdir, ignore_errors=True)


def describe(mod, fn, arg):
    d = getattr(mod, 'describe', None)
    if d:
        try:
            return d(fn, arg)
        except Exception:
            pass
    return {'fn': fn, 'arg': arg}


def run_check(mod, tier, seed):
    ck = Check(mod, tier, seed)
    pid = mod.ID
    rng = random.Random(seed)
    ev = {'property_id': pid, 'tier': tier, 'seed': seed, 'level': 'proof'}
    cov = {}
    violations = []       # (kind, fn, arg, detail, failing_input_found)
    known_lines = []
    try:
        ok, msg = ensure_built(ck.log)
        broken_obligations = []
        if not ok:
            broken_obligations.append('build of the Coq development / extracted runner failed: ' + msg[-1500:])
            pr = {'theorems': [], 'obligations': 1, 'discharged': 0, 'axioms': [], 'failed': ['build failed'], 'checker_cmd': 'bash /verif/setup.sh', 'log': msg[-2000:], 'examples': []}
        else:
            pr = proof_step(pid, ck.rundir)
            broken_obligations.extend(pr['failed'])
        # per-run generated obligations (tables regenerated from /repo)
        gen = getattr(mod, 'generated_obligations', None)
        gen_info = []
        if gen and ok:
            for g in gen(ck):
                gen_info.append({k: g[k] for k in ('name', 'what', 'ok') if k in g})
                pr['obligations'] += 1
                if g['ok']:
                    pr['discharged'] += 1
                else:
                    broken_obligations.append('per-run table lemma %s no longer checks: %s' % (g['name'], g.get('log', '')[-800:]))
        if broken_obligations:
            pr['discharged'] = min(pr['discharged'], max(0, pr['obligations'] - len(broken_obligations)))
        ck.log('proof step: %d/%d obligations' % (pr['discharged'], pr['obligations']))

        # ---- correspondence + oracle
        funcs = mod.FUNCS            # fn -> (name, impl, schema)
        implf = {fn: hang_guard(v[1]) for fn, v in funcs.items()}
        canon = getattr(mod, 'canon', lambda fn, r: canon_res(r))
        oracle = getattr(mod, 'oracle', None)
        nontrivial = getattr(mod, 'nontrivial', lambda fn, arg, out: out[:1] == [0] and len(sx(out)) > 8)
        streams = {}
        seen = set()
        cases = []
        for stream, fn, arg in mod.gen(tier, rng):
            arg = norm(arg)
            cases.append((stream, fn, arg))
        ck.log('generated %d cases' % len(cases))
        plain = [(fn, arg) for (_, fn, arg) in cases]
        model_ok = ok
        mouts = []
        marg = getattr(mod, 'model_arg', None)
        if marg:
            ck.model.marg = marg
        if ok:
            try:
                mouts = ck.model.run([(fn, norm(marg(fn, arg))) for (fn, arg) in plain] if marg else plain, ck.rundir)
            except Exception as e:
                model_ok = False
                broken_obligations.append('extracted model runner failed: %r' % (e,))
        ck.log('model done')
        thorough_info = {}
        if tier == 'thorough' and ok and model_ok and not os.environ.get('VERIF_SKIP_KERNEL_XCHECK'):
            mcases = [(fn, norm(marg(fn, arg))) for (fn, arg) in plain] if marg else plain
            try:
                vm = vm_crosscheck(ck, pid, mcases, mouts)
            except Exception as e:
                vm = {'evaluated': 0, 'disagreements': 1, 'log': repr(e)}
            thorough_info['vm_compute_crosscheck'] = vm
            ck.log('vm_compute cross-check: %s' % vm)
            if vm['disagreements']:
                broken_obligations.append('extracted runner and vm_compute evaluation of dispatch disagree (or the cross-check failed to compile): ' + vm['log'][-600:])
            ch = coqchk_step(pid)
            thorough_info['coqchk'] = ch
            ck.log('coqchk: %s' % ch)
            if not ch['clean']:
                broken_obligations.append('coqchk -o on Props/%s did not come back clean: %s' % (pid, json.dumps(ch)[-600:]))
        ipairs = run_impl(implf, plain, oracle=oracle, pairs=True)
        iouts = [p[0] for p in ipairs]
        omsgs = [p[1] for p in ipairs]
        del ipairs
        ck.log('impl + oracle done')
        if tier == 'thorough' and not os.environ.get('VERIF_SKIP_COVERAGE'):
            try:
                thorough_info['impl_line_coverage'] = impl_line_coverage(pid, implf, plain)
            except Exception as e:
                thorough_info['impl_line_coverage'] = {'available': False, 'why': repr(e)}
            ck.log('line coverage of the anchored files: %s' % json.dumps(thorough_info['impl_line_coverage'])[:600])
        mismatches = []
        oracle_fail = []
        distinct = set()
        nontriv = 0
        stream_stats = {}
        errkinds = {}
        harness_errors = []
        hangs = []
        hang_skipped = 0
        for idx, (stream, fn, arg) in enumerate(cases):
            io = iouts[idx]
            st = stream_stats.setdefault(stream, {'cases': 0, 'mismatch': 0, 'oracle_fail': 0})
            st['cases'] += 1
            if isinstance(io, list) and io and io[0] == 'HARNESS':
                harness_errors.append((fn, arg, io))
                continue
            if is_hang(io):
                if io[0] == 'HANG':
                    hangs.append((idx, fn, arg)); st['hang'] = st.get('hang', 0) + 1
                else:
                    hang_skipped += 1
                continue
            kind = {0: 'ok', 1: 'pybtex_error', 2: 'crash'}.get(io[0] if isinstance(io, list) and io and isinstance(io[0], int) else 0, 'ok')
            errkinds[kind] = errkinds.get(kind, 0) + 1
            if model_ok:
                mo = mouts[idx]
                if canon(fn, mo) != canon(fn, io):
                    mismatches.append((idx, fn, arg, mo, io)); st['mismatch'] += 1
                key = (fn, sx(arg))
                if key not in distinct:
                    distinct.add(key)
                    try:
                        if nontrivial(fn, arg, mo):
                            nontriv += 1
                    except Exception:
                        pass
            if oracle:
                msg = omsgs[idx]
                if msg:
                    oracle_fail.append((idx, fn, arg, msg, io)); st['oracle_fail'] += 1
        ck.log('compared: %d mismatches, %d oracle failures, %d harness errors' % (len(mismatches), len(oracle_fail), len(harness_errors)))
        if harness_errors:
            fn, arg, io = harness_errors[0]
            broken_obligations.append('implementation-side harness failed on %d cases, e.g. fn=%s arg=%s: %s' % (len(harness_errors), fn, sx(arg)[:200], io[1:]))

        # extra, property-specific checks (pattern sweeps, glue oracles ...)
        extra = getattr(mod, 'extra_checks', None)
        extra_info = {}
        if extra:
          try:
            for item in extra(ck, tier, rng):
                  # item: dict(name, evaluations, failures=[(desc, detail)], info)
                  extra_info[item['name']] = {k: item[k] for k in item if k not in ('failures',)}
                  for (desc, detail, found) in item.get('failures', []):
                      k = ck.match_known('extra', item['name'], desc, detail)
                      if k:
                          ck.known_hits[k['id']] = ck.known_hits.get(k['id'], 0) + 1
                      else:
                          violations.append({'kind': 'extra:' + item['name'], 'case': desc, 'detail': detail, 'failing_input_found': found})
          except Exception as e:
            violations.append({'kind': 'extra:crashed', 'what': 'a property-specific extra check raised %r (the implementation no longer offers what the check observes, or the harness is broken)\n%s' % (e, traceback.format_exc()[-1200:]), 'failing_input_found': False})

        # ---- order independence of the implementation's answers (see order_independence)
        order_info = {}
        if hangs:
            _hang_limit[0] = min(_hang_limit[0], 3)
        if not harness_errors and not hangs and not getattr(mod, 'NO_ORDER_REPLAY', False) and not os.environ.get('VERIF_SKIP_ORDER_REPLAY'):
            try:
                oi = order_independence(ck, mod, implf, canon, plain, iouts, random.Random(seed ^ 0x5eed),
                                        budget_cases=(2500 if tier == 'quick' else 12000), budget_s=(40 if tier == 'quick' else 240))
            except Exception as e:
                oi = {'cases': 0, 'deviations': [], 'note': 'replay failed: %r' % (e,)}
            order_info = {k: oi[k] for k in oi if k != 'deviations'}
            order_info['deviating_cases'] = len(oi['deviations'])
            ck.log('order-independence replay: %s' % order_info)
            for dv in oi['deviations']:
                fn = dv['fn']; arg = dv['arg']
                msg = None
                if oracle:
                    try:
                        msg = oracle(fn, arg, dv['out'])
                    except Exception as e:
                        msg = None
                detail = {'history_len': None if dv['history'] is None else len(dv['history']), 'oracle': msg}
                k = ck.match_known('history', fn, arg, detail)
                if k:
                    ck.known_hits[k['id']] = ck.known_hits.get(k['id'], 0) + 1
                    continue
                violations.append({'kind': 'history', 'fn': fn, 'function': funcs[fn][0], 'arg': arg, 'readable': describe(mod, fn, arg),
                                   'history_before_the_case': None if dv['history'] is None else [describe(mod, f2, a2) for (f2, a2) in dv['history']],
                                   'history_raw': dv['history'],
                                   'impl_output_in_this_history': dv['out'], 'impl_output_alone': dv.get('alone'),
                                   'what': 'the implementation answers this case differently after the listed earlier calls in the same process than on its own'
                                           + ((' -- and the answer violates the property: ' + msg) if msg else ' (results depend on what the process did before)'),
                                   'failing_input_found': bool(msg)})
        # ---- non-termination: the implementation gave no answer at all on these inputs
        fn_seen = set()
        for (idx, fn, arg) in hangs:
            if fn in fn_seen or len(fn_seen) >= 3:
                continue
            msg = 'the implementation did not return within %d s of CPU time on this input (%d such cases, %d more cases skipped after them)' % (HANG_CPU_S, len(hangs), hang_skipped)
            if ck.match_known('oracle', fn, arg, msg):
                continue
            fn_seen.add(fn)
            violations.append({'kind': 'hang', 'fn': fn, 'function': funcs[fn][0], 'arg': arg, 'readable': describe(mod, fn, arg),
                               'model_output': mouts[idx] if model_ok and idx < len(mouts) else None,
                               'what': msg + ': every clause of the property speaks about what the call returns, and the model (proved total) returns the listed answer',
                               'failing_input_found': True})

        # ---- classify oracle failures (each is a concrete failing input on the implementation)
        new_oracle = []
        for (idx, fn, arg, msg, io) in oracle_fail:
            k = ck.match_known('oracle', fn, arg, msg)
            if k:
                ck.known_hits[k['id']] = ck.known_hits.get(k['id'], 0) + 1
            else:
                new_oracle.append((idx, fn, arg, msg, io))
        sig_seen = set()
        for (idx, fn, arg, msg, io) in new_oracle[:2000]:
            sig = (fn, re.sub(r'[0-9]+', '#', msg)[:60])
            if sig in sig_seen:
                continue
            sig_seen.add(sig)
            sch = funcs[fn][2]
            def still(a, fn=fn):
                o = implf[fn](a)
                m = oracle(fn, a, o)
                return bool(m) and not ck.match_known('oracle', fn, a, m)
            small = shrink(sch, arg, still)
            o = implf[fn](small)
            violations.append({'kind': 'oracle', 'fn': fn, 'function': funcs[fn][0], 'arg': small, 'readable': describe(mod, fn, small),
                               'what': oracle(fn, small, o), 'impl_output': o, 'original_arg': arg, 'failing_input_found': True})
            if len(sig_seen) >= 5:
                break

        # ---- classify mismatches: look for a property-failing input near them
        sig_seen = set()
        for (idx, fn, arg, mo, io) in mismatches[:2000]:
            sig = (fn, canon(fn, mo)[:1] == canon(fn, io)[:1])
            if sig in sig_seen:
                continue
            sig_seen.add(sig)
            sch = funcs[fn][2]
            def still_mis(a, fn=fn):
                return canon(fn, ck.model.run1(fn, a)) != canon(fn, implf[fn](a))
            small = shrink(sch, arg, still_mis, budget=150)
            mo2 = ck.model.run1(fn, small); io2 = implf[fn](small)
            found = None
            if oracle:
                # search: the mismatching inputs themselves, the shrunk one, and all other mismatches
                cands = [small, arg] + [a for (_, f2, a, _, _) in mismatches[:300] if f2 == fn]
                for a in cands:
                    try:
                        m = oracle(fn, a, implf[fn](a))
                    except Exception as e:
                        m = None
                    if m and not ck.match_known('oracle', fn, a, m):
                        found = (a, m); break
                srch = getattr(mod, 'search_failing', None)
                if not found and srch:
                    found = srch(ck, fn, small, rng)
            k = ck.match_known('mismatch', fn, small, (mo2, io2))
            if k:
                ck.known_hits[k['id']] = ck.known_hits.get(k['id'], 0) + 1
                continue
            rec = {'kind': 'correspondence', 'fn': fn, 'function': funcs[fn][0], 'arg': small, 'readable': describe(mod, fn, small),
                   'model_output': mo2, 'impl_output': io2, 'original_arg': arg,
                   'what': 'model (about which the theorems are proved) and implementation disagree on %s' % funcs[fn][0]}
            if found:
                rec['failing_input_found'] = True
                rec['property_failing_arg'] = found[0]
                rec['property_failing_readable'] = describe(mod, fn, found[0])
                rec['property_failure'] = found[1]
            else:
                rec['failing_input_found'] = False
            violations.append(rec)
            if len(sig_seen) >= 5:
                break

        # ---- broken obligations: search for a failing input through the oracle (already run above)
        # (a broken obligation is always reported, also when some other violation already has a failing input)
        for b in broken_obligations:
            violations.append({'kind': 'obligation', 'what': b, 'failing_input_found': False})

        # ---- known findings: replay the pinned input of each listed finding
        replay_known = getattr(mod, 'replay_known', None)
        for k in ck.known:
            if k.get('status') != 'known':
                continue
            still = None
            if replay_known:
                try:
                    still = replay_known(k)
                except Exception as e:
                    still = 'replay raised %r' % (e,)
            if still:
                known_lines.append('KNOWN-FINDING: property=%s %s [%s] (%s)' % (pid, k['what'], k['id'], still))
            elif ck.known_hits.get(k['id']):
                known_lines.append('KNOWN-FINDING: property=%s %s [%s]' % (pid, k['what'], k['id']))

        # ---- evidence
        samples = []
        per_stream = {}
        for idx, (stream, fn, arg) in enumerate(cases):
            if per_stream.get(stream, 0) < 2:
                per_stream[stream] = per_stream.get(stream, 0) + 1
                samples.append({'stream': stream, 'function': funcs[fn][0], 'input': describe(mod, fn, arg),
                                'model': mouts[idx] if model_ok and idx < len(mouts) else None, 'impl': iouts[idx]})
        cov.update({
            'obligations': pr['obligations'], 'discharged': pr['discharged'],
            'checker_cmd': pr.get('checker_cmd', ''),
            'trusted_base': getattr(mod, 'TRUSTED_BASE', []) + COMMON_TRUSTED,
            'theorems': pr['theorems'], 'examples': pr.get('examples', []),
            'axioms_reported_by_Print_Assumptions': sorted(set(pr['axioms'])) or ['none: every theorem is "Closed under the global context"'],
            'generated_obligations': gen_info,
            'partial': getattr(mod, 'PARTIAL', []),
            'evaluations': len(cases),
            'distinct_nontrivial': nontriv,
            'rule': getattr(mod, 'RULE', ''),
            'samples': samples[:12],
            'streams': stream_stats,
            'impl_outcome_kinds': errkinds,
            'extra_checks': extra_info,
            'exhaustive': bool(getattr(mod, 'EXHAUSTIVE', {}).get(tier)),
            'exhaustive_scope': getattr(mod, 'EXHAUSTIVE', {}).get(tier, ''),
            'mismatches': len(mismatches), 'oracle_failures': len(oracle_fail),
            'known_findings_reproduced': ck.known_hits,
            'functions_compared': sorted(v[0] for v in funcs.values()),
            'kernel_crosschecks': thorough_info,
            'order_independence_replay': order_info,
            'vm_compute_crosschecked': thorough_info.get('vm_compute_crosscheck', {}).get('evaluated', 0),
        })
        ev['assumptions'] = getattr(mod, 'ASSUMPTIONS', [])
    except Exception as e:
        violations.append({'kind': 'obligation', 'what': 'check machinery failed: %r\n%s' % (e, traceback.format_exc()[-1500:]), 'failing_input_found': False})
        cov.setdefault('obligations', 1); cov.setdefault('discharged', 0)
        cov.setdefault('checker_cmd', 'n/a'); cov.setdefault('trusted_base', [])
        cov.setdefault('evaluations', 0); cov.setdefault('distinct_nontrivial', 0)
    rc = 0
    out_lines = []
    vrecs = []
    for v in violations:
        v['property'] = pid; v['tier'] = tier; v['seed'] = seed
        path = ck.write_replay(v)
        vrecs.append({'replay': path, 'kind': v['kind'], 'what': str(v.get('what', ''))[:300]})
        line = 'VIOLATION property=%s replay=%s' % (pid, path)
        if not v.get('failing_input_found'):
            line += ' no-failing-input-found'
        out_lines.append(line)
        rc = 1
    cov['violation_records'] = vrecs
    ev['coverage'] = cov
    ev['violations'] = len(violations)
    ev['known_findings'] = known_lines
    ev['wall_s'] = round(time.time() - ck.t0, 2)
    ev['log'] = ck.logs
    # evidence goes to /verif/evidence unless the run is a self-test against a scratch copy of the repository
    evdir = os.environ.get('VERIF_EVIDENCE_DIR') or os.path.join(VERIF, 'evidence')
    os.makedirs(evdir, exist_ok=True)
    json.dump(ev, open(os.path.join(evdir, pid + '.json'), 'w'), indent=1, default=str)
    for l in known_lines:
        print(l)
    for l in out_lines:
        print(l)
    print('%s %s: obligations %s/%s, %s cases, %d violations, %.1fs' % (pid, tier, cov.get('discharged'), cov.get('obligations'), cov.get('evaluations'), len(violations), ev['wall_s']))
    ck.cleanup()
    return rc

COMMON_TRUSTED = [
    'Coq 8.16.1 kernel as run by coqc (vm_compute used in Examples and finite table lemmas; native_compute not used)',
    'Coq OCaml extraction with the directives of ExtrOcamlBasic only (bool, option, list, prod, unit, sumbool, sumor -> OCaml types; nat/positive/N/Z stay extracted inductives); OCaml 4.13.1 ocamlopt; /verif/extract/driver.ml (s-expression reader/printer, int<->Z)',
    'the Python harness under /verif/harness (generators, implementation wrappers, comparator, shrinker, oracles)',
    'CPython 3.12 and the libraries pybtex imports (re, latexcodec, PyYAML, xml)',
    'the hand-written Gallina model is NOT trusted: it is compared with the implementation on every run (correspondence), but that comparison is testing, exhaustive only up to the stated small-scope bounds',
]

def replay(mod, path):
    rec = json.load(open(path))
    print(json.dumps({k: rec[k] for k in rec if k in ('kind', 'function', 'readable', 'what', 'property_failure')}, indent=1, default=str))
    if 'fn' in rec and 'arg' in rec and isinstance(rec['fn'], int):
        fn = rec['fn']; arg = rec['arg']
        if rec.get('property_failing_arg') is not None:
            arg = rec['property_failing_arg']
        mdl = Model(mod.ID)
        mdl.marg = getattr(mod, 'model_arg', None)
        m = mdl.run1(fn, arg)
        i = hang_guard(mod.FUNCS[fn][1])(arg)
        print('model :', m)
        print('impl  :', i)
        oracle = getattr(mod, 'oracle', None)
        if is_hang(i):
            print('oracle: the implementation did not return within %d s of CPU time on this input' % HANG_CPU_S)
            return 1
        msg = oracle(fn, arg, i) if oracle else None
        print('oracle:', msg or 'property holds on this input')
        return 1 if (msg or canon_res(m) != canon_res(i)) else 0
    return 1
