(* Generic driver: one line "fn sexp" in, one line sexp out.  All encoding/decoding of
   model data happens in Gallina (dispatch); this file only converts integers. *)
open Model
let rec pos_of_int i = if i = 1 then XH else if i land 1 = 0 then XO (pos_of_int (i lsr 1)) else XI (pos_of_int (i lsr 1))
let z_of_int i = if i = 0 then Z0 else if i > 0 then Zpos (pos_of_int i) else Zneg (pos_of_int (-i))
let rec int_of_pos = function XH -> 1 | XO p -> 2 * int_of_pos p | XI p -> 2 * int_of_pos p + 1
let int_of_z = function Z0 -> 0 | Zpos p -> int_of_pos p | Zneg p -> - (int_of_pos p)
let parse (s:Stdlib.String.t) : sexp =   (* not `string`: an extracted model may define its own type of that name *)
  let n = String.length s in let i = ref 0 in
  let skip () = while !i < n && s.[!i] = ' ' do incr i done in
  let rec item () : sexp =
    skip ();
    if s.[!i] = '(' then begin
      incr i; let acc = ref [] in skip ();
      while s.[!i] <> ')' do acc := item () :: !acc; skip () done;
      incr i; L (List.rev !acc) end
    else begin
      let j = !i in
      while !i < n && s.[!i] <> ' ' && s.[!i] <> ')' && s.[!i] <> '(' do incr i done;
      A (z_of_int (int_of_string (String.sub s j (!i - j)))) end
  in item ()
let rec print b = function
  | A z -> Buffer.add_string b (string_of_int (int_of_z z))
  | L l -> Buffer.add_char b '('; List.iteri (fun k x -> if k > 0 then Buffer.add_char b ' '; print b x) l; Buffer.add_char b ')'
let () =
  try while true do
    let line = input_line stdin in
    let sp = String.index line ' ' in
    let fn = int_of_string (String.sub line 0 sp) in
    let arg = parse (String.sub line (sp+1) (String.length line - sp - 1)) in
    let b = Buffer.create 64 in
    (try print b (dispatch (z_of_int fn) arg) with Stack_overflow -> Buffer.add_string b "(9)");
    print_endline (Buffer.contents b)
  done with End_of_file -> ()
