import sys, io
sys.path[:0] = ['/repo', '/dev/shm/wk/c14/_pydeps']
from pybtex.database import BibliographyData, Entry, Person
from pybtex import errors
from pybtex.bibtex import bst
from pybtex.bibtex.interpreter import Interpreter, Field, Crossref, MissingField
a = Entry('misc', fields=[('crossref','B')], persons={'editor':[Person('Donald E. Knuth'), Person('Foo, Bar')]})
b = Entry('misc', fields=[('title','T'), ('crossref', 'c')])
with errors.capture() as errs:
    bd = BibliographyData([('a',a),('b',b)])
print(a._find_field('title', bd), a._find_field('EDITOR', bd))
class FakeParser:
    def __init__(self, **kw): self.kw = kw
    def parse_files(self, files): return files[0]
script = bst.parse_string('''ENTRY { title year editor } {} {}
FUNCTION {out} { cite$ write$ newline$ title missing$ { "?" } { "<" title * ">" * } if$ write$ newline$
 crossref missing$ { "?" } { "<" crossref * ">" * } if$ write$ newline$ }
READ
ITERATE {out}
''')
with errors.capture() as errs:
    it = Interpreter(FakeParser, None)
    out = it.run(script, ['A','b', 'zz'], [bd], 2)
    print(repr(out), errs, it.citations)
try:
    it = Interpreter(FakeParser, None)
    out = it.run(bst.parse_string('ENTRY {title}{}{} READ'), ['A','b', 'zz'], [bd], 2)
except Exception as e: print(type(e), e)
from pybtex.style.formatting.unsrt import Style as Unsrt
from pybtex.style.template import field, optional, join, first_of
class St(Unsrt):
    def get_misc_template(self, e):
        return join(sep='|')[[first_of[optional[join['<', field(f, raw=True), '>']], 'MISSING'] for f in ['title','editor','crossref']]]
with errors.capture() as errs:
    fb = St().format_bibliography(bd, ['A','b','zz'])
    for fe in fb: print(fe.key, str(fe.text), fe.label)
    print(errs)
try:
    fb = St().format_bibliography(bd, ['A','b','zz'])
    print(list(fb))
except Exception as e: print(type(e), e)
print(repr(field('title', raw=True).format_data({'entry': a, 'bib_data': bd})))
# deep chain
import sys
N=400
es=[('k%d'%i, Entry('misc', fields=[('crossref','k%d'%(i+1))])) for i in range(N)]
bd2 = BibliographyData(es+[('k%d'%N, Entry('misc', fields=[('title','x')]))])
for n in (100,200,240,250,300,330,400):
    try:
        print(n, bd2.entries['k%d'%(N-n)]._find_field('title', bd2))
    except RecursionError as e: print(n,'RecursionError')
