#!/bin/bash
# setup_cmd: offline build of everything the checks need.
#  1. six (from the offline wheelhouse) into $HERE/_pydeps so that latexcodec imports
#  2. the Coq development (full .vo build)
#  3. one extracted OCaml runner per property
set -e
HERE="$(cd "$(dirname "${BASH_SOURCE[0]}")" && pwd)"
export HERE
cd "$HERE"
export PIP_NO_INDEX=1
if [ ! -f _pydeps/six.py ]; then
  mkdir -p _pydeps
  /venv/bin/pip install -q --no-index --find-links /opt/veriftools/wheels --target $HERE/_pydeps six >/dev/null 2>&1 || \
  /venv/bin/python - <<'PY'
import zipfile,glob
w=sorted(glob.glob('/opt/veriftools/wheels/six-*.whl'))[-1]
import os; zipfile.ZipFile(w).extractall(os.environ['HERE']+'/_pydeps')
PY
fi
./gen_coqproject.sh
( cd coq && timeout 3000 make -j16 > ../_build_coq.log 2>&1 ) || { tail -30 _build_coq.log; echo "coq build failed"; exit 1; }
mkdir -p _build/bin
build_one() {
  id=$1
  d=$HERE/_build/extract/$id
  mkdir -p $d && cd $d
  src=$HERE/coq/Extr/$(echo $id | tr a-z A-Z).v
  timeout 600 coqc -Q $HERE/coq Pybtex -o $d/$(basename $src .v).vo $src > $d/coqc.log 2>&1 || { cat $d/coqc.log; echo "extraction failed for $id"; return 1; }
  cp $HERE/extract/driver.ml $d/driver.ml
  timeout 600 ocamlfind ocamlopt -O3 -w -a model.mli model.ml driver.ml -o $HERE/_build/bin/$id > $d/ocaml.log 2>&1 || \
  timeout 600 ocamlfind ocamlopt -w -a model.mli model.ml driver.ml -o $HERE/_build/bin/$id > $d/ocaml.log 2>&1 || { cat $d/ocaml.log; echo "ocaml build failed for $id"; return 1; }
}
export -f build_one
ls coq/Extr/*.v | sed 's|.*/||; s|\.v$||' | tr A-Z a-z | xargs -P 16 -I{} bash -c 'build_one {}'
date +%s > "$HERE/_build/stamp"
echo "setup ok"
