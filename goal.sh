#!/bin/sh
# usage: goal.sh <file.v relative to coq/> <line>  -- show the proof state after that line
cd "$(dirname "$0")/coq"
f=$1; n=$2
tmp=_goal_tmp_$$.v
head -n $n $f > $tmp
echo "Show. " >> $tmp
timeout 120 coqc -Q . Pybtex $tmp 2>&1 | tail -${3:-40}
rm -f $tmp _goal_tmp_$$.vo _goal_tmp_$$.glob ._goal_tmp_$$.aux _goal_tmp_$$.vok _goal_tmp_$$.vos
