(* Spec/CIMap.v -- the reference model of property C13, written without looking at how pybtex
   computes it: "an insertion-ordered map keyed by the lower-cased key that remembers the most
   recently written spelling".  A state is a list of (lower-cased key, (spelling, value)) in order
   of first insertion.  Only the vocabulary of operations and results (op, ret, eres) is shared
   with the model.  No proofs in this file. *)
From Pybtex Require Import Base.Prelude Model.CIDict.

Section Spec.
Variables K V : Type.
Variable keqb : K -> K -> bool.
Variable lower : K -> K.

Definition smap := list (K * (K * V)).

Fixpoint sm_find (kl : K) (m : smap) : option (K * V) :=
  match m with
  | [] => None
  | (k', e) :: r => if keqb kl k' then Some e else sm_find kl r
  end.
(* writing keeps the position of an existing key and replaces spelling and value; a new key goes last *)
Fixpoint sm_put (kl sp : K) (v : V) (m : smap) : smap :=
  match m with
  | [] => [(kl, (sp, v))]
  | (k', e) :: r => if keqb kl k' then (k', (sp, v)) :: r else (k', e) :: sm_put kl sp v r
  end.
Fixpoint sm_drop (kl : K) (m : smap) : smap :=
  match m with
  | [] => []
  | (k', e) :: r => if keqb kl k' then r else (k', e) :: sm_drop kl r
  end.

Definition sm_set (m : smap) (k : K) (v : V) : smap := sm_put (lower k) k v m.
Definition sm_get (m : smap) (k : K) : option V := option_map snd (sm_find (lower k) m).
Definition sm_has (m : smap) (k : K) : bool := match sm_find (lower k) m with Some _ => true | None => false end.
Definition sm_spelling (m : smap) (k : K) : option K := option_map fst (sm_find (lower k) m).
Definition sm_keys (m : smap) : list K := map (fun e => fst (snd e)) m.              (* iteration *)
Definition sm_items (m : smap) : list (K * V) := map (fun e => snd e) m.            (* items *)
Definition sm_len (m : smap) : nat := length m.
Definition sm_lower (m : smap) : smap := map (fun e => (fst e, (fst e, snd (snd e)))) m.
Definition sm_update (m : smap) (kvs : list (K * V)) : smap :=
  fold_left (fun acc p => sm_set acc (fst p) (snd p)) kvs m.

(* one operation on the reference map.  dflt = Some d0 for the defaulting variant: a lookup -- c[k] or
   c.get(k, d) -- of an absent key yields d0 ("its default") and does not insert; everything else,
   setdefault included, is as for the plain map.
   popitem removes the FIRST item (the property does not fix which; this is collections.abc's choice). *)
Definition spec_step (dflt : option V) (m : smap) (o : op K V) : smap * eres (ret K V) :=
  match o with
  | OSet k v => (sm_set m k v, EOk RNone)
  | OGet k =>
    (m, match sm_get m k, dflt with
        | Some v, _ => EOk (RVal v)
        | None, Some d0 => EOk (RVal d0)
        | None, None => EExn KeyError
        end)
  | ODel k => if sm_has m k then (sm_drop (lower k) m, EOk RNone) else (m, EExn KeyError)
  | OContains k => (m, EOk (RBool (sm_has m k)))
  | OGetD k d =>
    (m, match sm_get m k, dflt with
        | Some v, _ => EOk (RVal v)
        | None, Some d0 => EOk (RVal d0)
        | None, None => EOk (match d with Some x => RVal x | None => RNone end)
        end)
  | OPop k d =>
    match sm_get m k with
    | Some v => (sm_drop (lower k) m, EOk (RVal v))
    | None => (m, match d with Some x => EOk (RVal x) | None => EExn KeyError end)
    end
  | OPopitem =>
    match m with
    | [] => (m, EExn KeyError)
    | (_, (sp, v)) :: r => (r, EOk (RItem sp v))
    end
  | OSetdefault k d =>
    match sm_get m k with
    | Some v => (m, EOk (RVal v))
    | None => (sm_set m k d, EOk (RVal d))
    end
  | OUpdate kvs => (sm_update m kvs, EOk RNone)
  | OClear => ([], EOk RNone)
  | OLower => (sm_lower m, EOk RNone)
  | OMutate k f =>
    (* the object a lookup of k yields is mutated in place: a stored value changes (same position, same
       spelling); the default yielded for an absent key is a fresh one, so nothing changes *)
    match sm_find (lower k) m, dflt with
    | Some (sp, v), _ =>
      match f v with Some v' => (sm_put (lower k) sp v' m, EOk RNone) | None => (m, EExn TypeError) end
    | None, Some d0 => (m, match f d0 with Some _ => EOk RNone | None => EExn TypeError end)
    | None, None => (m, EExn KeyError)
    end
  end.

(* what the public protocol shows of a reference map *)
Definition spec_observe (dflt : option V) (probes : list K) (m : smap) : obs K V :=
  mkobs K V (sm_keys m) (EOk (sm_items m)) (sm_len m) (EOk (sm_items m))
        (map (sm_has m) probes)
        (map (fun p => match sm_get m p, dflt with
                       | Some v, _ => EOk v
                       | None, Some d0 => EOk d0
                       | None, None => EExn KeyError
                       end) probes).

Fixpoint spec_run (dflt : option V) (probes : list K) (m : smap) (ops : list (op K V)) : list (eres (ret K V) * obs K V) :=
  match ops with
  | [] => []
  | o :: r => let (m', x) := spec_step dflt m o in (x, spec_observe dflt probes m') :: spec_run dflt probes m' r
  end.
Fixpoint spec_state (dflt : option V) (m : smap) (ops : list (op K V)) : smap :=
  match ops with
  | [] => m
  | o :: r => spec_state dflt (fst (spec_step dflt m o)) r
  end.

(* ---- the set: lower-cased key -> last written spelling *)
Definition sset := list (K * K).
Fixpoint ss_find (kl : K) (m : sset) : option K :=
  match m with [] => None | (k', sp) :: r => if keqb kl k' then Some sp else ss_find kl r end.
Fixpoint ss_put (kl sp : K) (m : sset) : sset :=
  match m with
  | [] => [(kl, sp)]
  | (k', e) :: r => if keqb kl k' then (k', sp) :: r else (k', e) :: ss_put kl sp r
  end.
Fixpoint ss_drop (kl : K) (m : sset) : sset :=
  match m with [] => [] | (k', e) :: r => if keqb kl k' then r else (k', e) :: ss_drop kl r end.
Definition ss_add (m : sset) (k : K) : sset := ss_put (lower k) k m.
Definition ss_discard (m : sset) (k : K) : sset := ss_drop (lower k) m.
Definition ss_has (m : sset) (k : K) : bool := match ss_find (lower k) m with Some _ => true | None => false end.

(* pop removes the (lower-cased) element the caller names: any member may come out *)
Definition sspec_step (m : sset) (o : sop K) : option (sset * eres (sret K)) :=
  match o with
  | SAdd k => Some (ss_add m k, EOk SRNone)
  | SDiscard k => Some (ss_discard m k, EOk SRNone)
  | SRemove k => Some (if ss_has m k then (ss_discard m k, EOk SRNone) else (m, EExn KeyError))
  | SContains k => Some (m, EOk (SRBool (ss_has m k)))
  | SCanonical k => Some (m, match ss_find (lower k) m with Some sp => EOk (SRKey sp) | None => EExn KeyError end)
  | SLower => Some (map (fun e => (fst e, fst e)) m, EOk SRNone)
  | SClear => Some ([], EOk SRNone)
  | SIor l => Some (fold_left ss_add l m, EOk SRNone)
  | SIsub l => Some (fold_left ss_discard l m, EOk SRNone)
  | SPop ch =>
    match m with
    | [] => Some (m, EExn KeyError)
    | _ => match ss_find ch m with Some _ => Some (ss_drop ch m, EOk (SRKey ch)) | None => None end
    end
  end.
Fixpoint sspec_run (m : sset) (ops : list (sop K)) : option (list (eres (sret K)) * sset) :=
  match ops with
  | [] => Some ([], m)
  | o :: r =>
    match sspec_step m o with
    | None => None
    | Some (m', x) =>
      match sspec_run m' r with
      | None => None
      | Some (xs, mf) => Some (x :: xs, mf)
      end
    end
  end.
End Spec.
