(* Spec/BibtexStrSpec.v -- the mathematical notions property C12 refers to, written
   without looking at how pybtex computes them: brace depth as a running count,
   balancedness, BibTeX's text length, and BibTeX's substring$ as in bibtex.web. *)
From Pybtex Require Import Base.Prelude Base.PyChar Base.PyStr.

(* brace depth after reading [s], starting at depth [d]; [None] as soon as a closing
   brace has no opener (the running count would go negative) *)
Fixpoint depth_from (d : nat) (s : str) : option nat :=
  match s with
  | [] => Some d
  | c :: t =>
    if N.eqb c c_lbrace then depth_from (S d) t
    else if N.eqb c c_rbrace then match d with O => None | S d' => depth_from d' t end
    else depth_from d t
  end.

(* balanced: the count never goes negative and ends at zero *)
Definition balanced (s : str) : Prop := depth_from 0 s = Some 0.

(* the same count where a closing brace without opener is an ordinary character
   (what BibTeX and pybtex do with unbalanced input) *)
Fixpoint cdepth_from (d : nat) (s : str) : nat :=
  match s with
  | [] => d
  | c :: t =>
    if N.eqb c c_lbrace then cdepth_from (S d) t
    else if N.eqb c c_rbrace then cdepth_from (pred d) t
    else cdepth_from d t
  end.

(* some opening brace reaches a nesting level above [limit] *)
Fixpoint too_deep (limit d : nat) (s : str) : bool :=
  match s with
  | [] => false
  | c :: t =>
    if N.eqb c c_lbrace then Nat.ltb limit (S d) || too_deep limit (S d) t
    else if N.eqb c c_rbrace then too_deep limit (pred d) t
    else too_deep limit d t
  end.

Definition is_prefix (p s : str) : Prop := exists r, s = p ++ r.

(* BibTeX's text.length$: every character outside braces-only positions counts one,
   braces count nothing, and a special character -- an opening brace at depth 0
   immediately followed by a backslash, up to its matching closing brace or the end
   of the string -- counts one.  [sp = Some k]: inside a special character, [k] braces
   deep inside it. *)
Fixpoint text_len_go (s : str) (d : nat) (sp : option nat) : nat :=
  match s with
  | [] => match sp with None => 0 | Some _ => 1 end
  | c :: t =>
    match sp with
    | Some k =>
      if N.eqb c c_lbrace then text_len_go t d (Some (S k))
      else if N.eqb c c_rbrace then
        match k with O => S (text_len_go t 0 None) | S k' => text_len_go t d (Some k') end
      else text_len_go t d (Some k)
    | None =>
      if N.eqb c c_lbrace then
        if Nat.eqb d 0 && (match t with b :: _ => N.eqb b c_bslash | [] => false end)
        then text_len_go t 0 (Some 0)
        else text_len_go t (S d) None
      else if N.eqb c c_rbrace then text_len_go t (pred d) None
      else S (text_len_go t d None)
    end
  end.
Definition text_len (s : str) : nat := text_len_go s 0 None.

(* BibTeX's substring$ (bibtex.web, x_substring): 1-based start; a negative start counts
   from the end and selects towards the beginning; the length is clamped to what is
   available; nothing for len <= 0, start = 0 or |start| > |s|. *)
Definition substring_spec (s : str) (start len : Z) : str :=
  let n := Z.of_nat (length s) in
  if (len <=? 0)%Z || (start =? 0)%Z || (n <? Z.abs start)%Z then []
  else if (0 <? start)%Z then
    let l := Z.min len (n - (start - 1)) in
    firstn (Z.to_nat l) (skipn (Z.to_nat (start - 1)) s)
  else
    let st := (- start)%Z in
    let l := Z.min len (n - (st - 1)) in
    let e := (n - (st - 1))%Z in
    firstn (Z.to_nat l) (skipn (Z.to_nat (e - l)) s).

(* does the string end inside a special character that is never closed?  ([sp = Some k]:
   inside a special character, [k] braces deep inside it; [d]: brace depth outside) *)
Fixpoint ends_in_special_go (s : str) (d : nat) (sp : option nat) : bool :=
  match s with
  | [] => match sp with None => false | Some _ => true end
  | c :: t =>
    match sp with
    | Some k =>
      if N.eqb c c_lbrace then ends_in_special_go t d (Some (S k))
      else if N.eqb c c_rbrace then
        match k with O => ends_in_special_go t 0 None | S k' => ends_in_special_go t d (Some k') end
      else ends_in_special_go t d (Some k)
    | None =>
      if N.eqb c c_lbrace then
        if Nat.eqb d 0 && (match t with b :: _ => N.eqb b c_bslash | [] => false end)
        then ends_in_special_go t 0 (Some 0)
        else ends_in_special_go t (S d) None
      else if N.eqb c c_rbrace then ends_in_special_go t (pred d) None
      else ends_in_special_go t d None
    end
  end.
Definition ends_in_special (s : str) : bool := ends_in_special_go s 0 None.
