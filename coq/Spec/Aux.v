(* Spec/Aux.v -- what "reading an .aux file" means, stated without the parser's machinery
   (no context object, no recursion through handlers): the document is first flattened --
   \@input files read in place -- into the sequence of its command lines, each with the file
   and line where it stands; everything the property says is then a statement about that
   sequence.  Only the line splitter (lines_of) and the command-line recogniser
   (match_command) are shared with the model; both are characterised on their own
   (Proofs/Aux.v: match_command_spec, lines_of_concat). *)
From Pybtex Require Import Base.Prelude Base.PyChar Base.PyStr Model.Aux.

(* a command line other than \@input, with where it stands: file, 1-based line number, and
   the text of the line without surrounding whitespace *)
Record visit := mkvisit { v_file : str; v_lineno : nat; v_line : str; v_cmd : cmdname; v_val : str }.

(* how far the flattening got: all of the document / up to an input that cannot be opened /
   up to the nesting bound *)
Inductive status := Complete | Missing (name : str) | Deep.

Fixpoint expand_lines (erec : str -> list visit * status) (name : str) (lines : list str) (n : nat)
  : list visit * status :=
  match lines with
  | [] => ([], Complete)
  | l :: rest =>
    match match_command l with
    | None => expand_lines erec name rest (S n)
    | Some (CInput, v) =>
      match erec v with
      | (vs, Complete) => let (vs', s') := expand_lines erec name rest (S n) in (vs ++ vs', s')
      | (vs, s) => (vs, s)
      end
    | Some (c, v) =>
      let (vs', s') := expand_lines erec name rest (S n) in
      (mkvisit name n (strip l) c v :: vs', s')
    end
  end.

Fixpoint expand (fuel : nat) (fs : str -> option str) (name : str) : list visit * status :=
  match fuel with
  | O => ([], Deep)
  | S f =>
    match fs name with
    | None => ([], Missing name)
    | Some content => expand_lines (expand f fs) name (lines_of content) 1
    end
  end.

(* where a visit stands, as an error context *)
Definition ctx_of (v : visit) : ctx := mkctx (v_file v) (Some (v_lineno v)) (Some (v_line v)).

Definition is_cmd (c : cmdname) (v : visit) : bool :=
  match c, v_cmd v with
  | CCitation, CCitation | CBibdata, CBibdata | CBibstyle, CBibstyle | CInput, CInput => true
  | _, _ => false
  end.

(* the keys of a \citation line: the comma list expanded *)
Definition keys_of (v : visit) : list str := split_on [c_comma] (v_val v).
Definition citation_keys (vs : list visit) : list str := flat_map keys_of (filter (is_cmd CCitation) vs).

(* every cited key with the visit it stands in, in reading order *)
Definition occurrences (vs : list visit) : list (str * visit) :=
  flat_map (fun v => map (fun k => (k, v)) (keys_of v)) (filter (is_cmd CCitation) vs).

(* a key is reported when the most recent earlier citation of the same key (compared
   lower-cased) spells it differently; hist = the earlier keys, most recent first *)
Definition same_key (k k' : str) : bool := str_eqb (lower k') (lower k).
Fixpoint mismatches (hist : list str) (occ : list (str * visit)) : list err :=
  match occ with
  | [] => []
  | (k, v) :: r =>
    match find (same_key k) hist with
    | Some k' => if str_eqb k k' then [] else [mkerr (EMismatch k k') (Some (ctx_of v))]
    | None => []
    end ++ mismatches (k :: hist) r
  end.

Definition is_kind_style (e : err) : bool := match e_kind e with EStyle => true | _ => false end.
Definition is_kind_data (e : err) : bool := match e_kind e with EData => true | _ => false end.
Definition is_kind_mismatch (e : err) : bool := match e_kind e with EMismatch _ _ => true | _ => false end.

(* all the errors reading reports (when reporting does not raise), in order: has_style /
   has_data = a \bibstyle / \bibdata was seen before; hist = the keys cited before, most recent first *)
Fixpoint reports (has_style has_data : bool) (hist : list str) (vs : list visit) : list err :=
  match vs with
  | [] => []
  | v :: r =>
    match v_cmd v with
    | CCitation =>
      mismatches hist (map (fun k => (k, v)) (keys_of v)) ++ reports has_style has_data (rev (keys_of v) ++ hist) r
    | CBibstyle =>
      (if has_style then [mkerr EStyle (Some (ctx_of v))] else []) ++ reports true has_data hist r
    | CBibdata =>
      (if has_data then [mkerr EData (Some (ctx_of v))] else []) ++ reports has_style true hist r
    | CInput => reports has_style has_data hist r
    end
  end.

(* the two fatal errors name the top file and no line *)
Definition fatal (k : ekind) (top : str) : err := mkerr k (Some (mkctx top None None)).

(* the flattened document a top file stands for, and how far the flattening got *)
Definition doc_visits (fuel : nat) (fs : str -> option str) (top : str) : list visit := fst (expand fuel fs top).
Definition doc_status (fuel : nat) (fs : str -> option str) (top : str) : status := snd (expand fuel fs top).

(* an error of kind k located at a visit *)
Definition err_at (k : ekind) (v : visit) : err := mkerr k (Some (ctx_of v)).

(* two outcomes that read the same: same citations, style, data, reported errors, same error raised *)
Definition same_fields (a b : aux) : Prop :=
  a_cits a = a_cits b /\ a_style a = a_style b /\ a_data a = a_data b /\ a_errs a = a_errs b.
Definition same_reading (r1 r2 : outcome aux) : Prop :=
  match r1, r2 with
  | Ret a, Ret b => same_fields a b
  | Raise e a, Raise e' b => e = e' /\ same_fields a b
  | CrashO, CrashO | NoFuel, NoFuel => True
  | _, _ => False
  end.

(* one flattened piece after another: the second is reached only if the first was complete *)
Definition seq_doc (e1 e2 : list visit * status) : list visit * status :=
  match e1 with
  | (vs, Complete) => let (vs', s') := e2 in (vs ++ vs', s')
  | (vs, s) => (vs, s)
  end.

(* a visit stands in the document: its file exists, its line is the v_lineno-th line of that
   file, command_re recognises it as that command with that value, v_line is its stripped text *)
Definition stands_in (fs : str -> option str) (v : visit) : Prop :=
  exists content l, fs (v_file v) = Some content /\
    nth_error (lines_of content) (pred (v_lineno v)) = Some l /\ 1 <= v_lineno v /\
    match_command l = Some (v_cmd v, v_val v) /\ v_line v = strip l /\ v_cmd v <> CInput.

(* universal newlines: \r\n and \r read as \n (after_cr = the previous character was \r) *)
Local Open Scope N_scope.
Fixpoint translate_nl (s : str) (after_cr : bool) : str :=
  match s with
  | [] => []
  | c :: t =>
    if (c =? 10) && after_cr then translate_nl t false
    else if c =? 13 then 10 :: translate_nl t true
    else c :: translate_nl t false
  end.

Local Close Scope N_scope.

(* ---- a small document used by the Examples of Props/C20.v *)
Definition ln (s : string) : str := s2l s ++ [c_nl].
Definition ex_fs : str -> option str := fs_of
  [ (s2l "a.aux", concat [ln "\relax"; ln "\citation{k,K}"; ln "\@input{b.aux}"; ln "\bibstyle{t}";
                          ln "\bibdata{d,e}"; ln "\citation{*}"]);
    (s2l "b.aux", concat [ln "\bibstyle{s}"; ln "  \citation{ignored}"; ln "\citation{k}"; ln "\bibdata{x,y}"]) ].
Definition at_ (f : string) (n : nat) (l : string) : option ctx := Some (mkctx (s2l f) (Some n) (Some (s2l l))).

