(* Spec/Flat.v -- what "the corresponding Python string operation" does to a sequence of
   (atom, markup stack) pairs.  Written without looking at how richtext.py computes it. *)
From Pybtex Require Import Base.Prelude Base.PyChar Base.PyStr Model.RtTypes.

Definition pair := (atom * list markup)%type.

(* markup up to what the code identifies: the `external` flag of a hyperlink is forgotten (the
   flag richtext.py loses, finding F10) and the deprecated tag name "emph" is read as "em" *)
Definition canon_name (n : str) : str :=
  if str_eqb n [101; 109; 112; 104]%N then [101; 109]%N else n.
Definition erase_m (m : markup) : markup :=
  match m with MHRef u _ => MHRef u false | MTag n => MTag (canon_name n) | MProt => MProt end.
Definition erase_p (p : pair) : pair := (fst p, map erase_m (snd p)).
Definition erase (f : flat_text) : flat_text := map erase_p f.

Definition is_prot (m : markup) : bool := match m with MProt => true | _ => false end.
Definition protected (p : pair) : bool := existsb is_prot (snd p).

(* str.upper / str.lower on one pair: a protected pair and a symbol are left alone *)
Definition conv_atom (up : bool) (a : atom) : atom :=
  match a with ACh c => ACh (if up then to_upper c else to_lower c) | ASym _ => a end.
Definition conv_pair (up : bool) (p : pair) : pair :=
  if protected p then p else (conv_atom up (fst p), snd p).

(* str(text): a symbol prints as <name> *)
Definition atom_str (a : atom) : str :=
  match a with ACh c => [c] | ASym n => (60%N :: n) ++ [62%N] end.
Definition flat_str (f : flat_text) : str := flat_map (fun p : pair => atom_str (fst p)) f.

(* putting a piece of text inside a markup *)
Definition push_m (m : markup) (f : flat_text) : flat_text := map (fun p : pair => (fst p, m :: snd p)) f.

(* sep.join(items) on sequences *)
Fixpoint join_flat (sep : flat_text) (items : list flat_text) : flat_text :=
  match items with
  | [] => []
  | [x] => x
  | x :: r => x ++ sep ++ join_flat sep r
  end.

(* s[i] for an int i: the element, or None where Python raises IndexError *)
Definition pyindex {X} (l : list X) (i : Z) : option X :=
  let n := Z.of_nat (length l) in
  if ((- n <=? i) && (i <? n))%Z then nth_error l (Z.to_nat (if (i <? 0)%Z then n + i else i)) else None.
