(* Spec/CIMultiSpec.v -- the reference for SEVERAL live containers: one reference map (with its optional
   default) per container; an operation touches the map of its target only; lower() and construction from
   an existing container yield a NEW, independent map (the lower-cased copy / an equal copy); update(other)
   inserts the other map's items into the target.  Definitions only. *)
From Pybtex Require Import Base.Prelude Model.CIDict Model.CIMulti Spec.CIMap Spec.CIRel.

Section MultiSpec.
Variables K V : Type.
Variable keqb : K -> K -> bool.
Variable lower : K -> K.

Definition mstate := list (option V * smap K V).

Definition mspec_step (sp : mstate) (m : mop K V) : mstate * eres (ret K V) :=
  match m with
  | MOp i o =>
    match nth_error sp i with
    | Some (d, mm) => let (mm', r) := spec_step K V keqb lower d mm o in (upd_nth i (d, mm') sp, r)
    | None => (sp, EExn KeyError)
    end
  | MLower i =>
    match nth_error sp i with
    | Some (d, mm) => (sp ++ [(d, sm_lower K V mm)], EOk RNone)
    | None => (sp, EExn KeyError)
    end
  | MCopy i _ | MCopyItems i _ =>
    match nth_error sp i with
    | Some (_, mm) => (sp ++ [(None, mm)], EOk RNone)
    | None => (sp, EExn KeyError)
    end
  | MUpdateFrom i j =>
    match nth_error sp i, nth_error sp j with
    | Some (d, mi), Some (_, mj) => (upd_nth i (d, sm_update K V keqb lower mi (sm_items K V mj)) sp, EOk RNone)
    | _, _ => (sp, EExn KeyError)
    end
  | MNew _ pairs => (sp ++ [(None, sm_update K V keqb lower [] pairs)], EOk RNone)
  | MNewDefault d0 => (sp ++ [(Some d0, [])], EOk RNone)
  end.

Fixpoint mspec_run (probes : list K) (sp : mstate) (ops : list (mop K V)) : list (eres (ret K V) * list (obs K V)) :=
  match ops with
  | [] => []
  | m :: r =>
    let (sp', x) := mspec_step sp m in
    (x, map (fun dm => spec_observe K V keqb lower (fst dm) probes (snd dm)) sp') :: mspec_run probes sp' r
  end.

(* only the plain and the ordered class are constructed from pairs or from another container *)
Definition mop_wf (m : mop K V) : bool :=
  match m with
  | MCopy _ ClsDefault | MCopyItems _ ClsDefault | MNew ClsDefault _ => false
  | _ => true
  end.

(* the relation between the live containers and their reference maps *)
Definition mrel (st : list (cid K V)) (sp : mstate) : Prop :=
  Forall2 (fun c dm => inv K V lower c /\ cls_ok K V c (fst dm) /\ abs K V c = snd dm) st sp.
End MultiSpec.

Section MultiSetSpec.
Variable K : Type.
Variable keqb : K -> K -> bool.
Variable lower : K -> K.

(* one reference map "lower-cased key -> last written spelling" per live set *)
Definition smspec_step (sp : list (sset K)) (m : smop K) : option (list (sset K) * eres (sret K)) :=
  match m with
  | SMOp i o =>
    match nth_error sp i with
    | Some mm => match sspec_step K keqb lower mm o with Some (mm', r) => Some (upd_nth i mm' sp, r) | None => None end
    | None => None
    end
  | SMLower i | SMCopy i =>
    match nth_error sp i with
    | Some mm => Some (sp ++ [map (fun e => (fst e, fst e)) mm], EOk SRNone)
    | None => None
    end
  | SMIorFrom i j =>
    match nth_error sp i, nth_error sp j with
    | Some mi, Some mj => Some (upd_nth i (fold_left (ss_add K keqb lower) (map fst mj) mi) sp, EOk SRNone)
    | _, _ => None
    end
  | SMIsubFrom i j =>
    match nth_error sp i, nth_error sp j with
    | Some mi, Some mj => Some (upd_nth i (fold_left (ss_discard K keqb lower) (map fst mj) mi) sp, EOk SRNone)
    | _, _ => None
    end
  | SMNew l => Some (sp ++ [fold_left (ss_add K keqb lower) l []], EOk SRNone)
  end.
Fixpoint smspec_run (sp : list (sset K)) (ops : list (smop K)) : option (list (eres (sret K)) * list (sset K)) :=
  match ops with
  | [] => Some ([], sp)
  | m :: r =>
    match smspec_step sp m with
    | None => None
    | Some (sp', x) =>
      match smspec_run sp' r with
      | None => None
      | Some (xs, spf) => Some (x :: xs, spf)
      end
    end
  end.
Definition smrel (st : list (cis K)) (sp : list (sset K)) : Prop :=
  Forall2 (fun s m => set_inv K lower s /\ s_keys K s = m) st sp.
(* the final state of a multi-set history *)
Fixpoint smrun_state (st : list (cis K)) (ops : list (smop K)) : option (list (cis K)) :=
  match ops with
  | [] => Some st
  | m :: r => match smstep K keqb lower st m with None => None | Some (st', _) => smrun_state st' r end
  end.
End MultiSetSpec.
