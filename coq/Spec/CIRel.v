(* Spec/CIRel.v -- the vocabulary in which the theorems of C13 relate the model of the mapping
   classes (Model/CIDict.v) to the reference map (Spec/CIMap.v): abstraction function, invariant,
   reachable states, and which operations of the defaulting variant the refinement covers.
   Definitions only. *)
From Pybtex Require Import Base.Prelude Model.CIDict Spec.CIMap.

Section Rel.
Variables K V : Type.
Variable keqb : K -> K -> bool.
Variable lower : K -> K.

(* abstraction: read the pair (_dict, _keys) position by position *)
Fixpoint zip3 (d : list (K * V)) (ks : list (K * K)) : smap K V :=
  match d, ks with
  | (kl, v) :: d', (_, sp) :: ks' => (kl, (sp, v)) :: zip3 d' ks'
  | _, _ => []
  end.
Definition abs (c : cid K V) : smap K V := zip3 (c_dict K V c) (c_keys K V c).

(* the lock-step invariant of CaseInsensitiveDict: _dict and _keys have the same keys in the same
   order, without repetition, and every stored spelling lower-cases to its key *)
Definition lockstep (c : cid K V) : Prop :=
  map fst (c_dict K V c) = map fst (c_keys K V c) /\
  NoDup (map fst (c_keys K V c)) /\
  Forall (fun p => lower (snd p) = fst p) (c_keys K V c).

(* the same, as used in the proofs *)
Definition lock (d : list (K * V)) (ks : list (K * K)) : Prop := map fst d = map fst ks.
Definition sinv (m : smap K V) : Prop :=
  NoDup (map fst m) /\ Forall (fun e => lower (fst (snd e)) = fst e) m.
Definition inv (c : cid K V) : Prop := lock (c_dict K V c) (c_keys K V c) /\ sinv (abs c).

Definition same_kind (c c' : cid K V) : Prop := c_cls K V c' = c_cls K V c /\ c_fac K V c' = c_fac K V c.
(* the class of the container and the reference map's default agree: plain / ordered <-> no default;
   defaulting variant with a working factory returning d0 <-> Some d0 *)
Definition cls_ok (c : cid K V) (dflt : option V) : Prop :=
  match c_cls K V c with
  | ClsDefault => match dflt with Some d0 => c_fac K V c = FacVal d0 | None => False end
  | _ => dflt = None
  end.

(* a lookup in the reference map *)
Definition lookup_spec (dflt : option V) (m : smap K V) (k : K) : eres V :=
  match sm_get K V keqb lower m k, dflt with
  | Some v, _ => EOk v
  | None, Some d0 => EOk d0
  | None, None => EExn KeyError
  end.

(* Operations of the defaulting variant that the refinement does NOT cover (they are the findings
   C13-F1/F2 and the documented reading of get/setdefault): lower(); get-with-default, setdefault and
   pop-with-default of an ABSENT key.  For the plain and the ordered class every operation is covered. *)
Definition op_ok (dflt : option V) (m : smap K V) (o : op K V) : bool :=
  match dflt with
  | None => true
  | Some _ =>
    match o with
    | OLower => false
    | OGetD k _ => sm_has K V keqb lower m k
    | OSetdefault k _ => sm_has K V keqb lower m k
    | OPop k (Some _) => sm_has K V keqb lower m k
    | _ => true
    end
  end.
Fixpoint ops_ok (dflt : option V) (m : smap K V) (ops : list (op K V)) : bool :=
  match ops with
  | [] => true
  | o :: r => op_ok dflt m o && ops_ok dflt (fst (spec_step K V keqb lower dflt m o)) r
  end.

(* states reachable through the public protocol *)
Inductive reachable : cid K V -> Prop :=
| r_init cl pairs : cl <> ClsDefault -> reachable (ci_init K V keqb lower cl pairs)
| r_default d0 : reachable (default_init K V (FacVal d0))
| r_step c o : reachable c -> reachable (fst (step K V keqb lower c o)).
End Rel.

Section RelSet.
Variable K : Type.
Variable keqb : K -> K -> bool.
Variable lower : K -> K.
Variable ksort : list K -> list K.
(* invariant of CaseInsensitiveSet: _set is the key set of _keys (the model keeps it in the same order,
   which is never observed), without repetition, and every remembered spelling lower-cases to its key *)
Definition set_inv (s : cis K) : Prop :=
  s_set K s = map fst (s_keys K s) /\ NoDup (map fst (s_keys K s)) /\
  Forall (fun p => lower (snd p) = fst p) (s_keys K s).
Inductive set_reachable : cis K -> Prop :=
| sr_init l : set_reachable (cs_init K keqb lower l)
| sr_step s o s' r : set_reachable s -> sstep K keqb lower s o = Some (s', r) -> set_reachable s'.
End RelSet.
