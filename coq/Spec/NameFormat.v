(* Spec/NameFormat.v -- independent, elementary definitions the C11 statements refer to:
   brace balance, the letter runs at brace level 1 of each {...} group of a format string,
   interleaving of tokens and separators, BibTeX's tie-or-space separator rule.
   Written from the property text / BibTeX's documentation, not from pybtex's parser. *)
From Pybtex Require Import Base.Prelude Base.PyChar Base.PyStr.

Definition lbrace (c : char) : bool := N.eqb c 123.
Definition rbrace (c : char) : bool := N.eqb c 125.

(* brace depth after reading s starting at depth d; None when a closing brace has no partner *)
Fixpoint walk (s : str) (d : nat) : option nat :=
  match s with
  | [] => Some d
  | c :: t =>
    if lbrace c then walk t (S d)
    else if rbrace c then match d with O => None | S d' => walk t d' end
    else walk t d
  end.
Definition balanced (s : str) : Prop := walk s 0 = Some 0.

(* the maximal runs of letters at brace level 1, for each level-1 group of the string, in order.
   [runs]: completed runs of the current group; [cur]: the run being read, reversed. *)
Definition flush (runs : list str) (cur : str) : list str :=
  match cur with [] => runs | _ => runs ++ [rev cur] end.
Fixpoint l1_scan (s : str) (depth : nat) (runs : list str) (cur : str) : list (list str) :=
  match s with
  | [] => []
  | c :: t =>
    match depth with
    | O => if lbrace c then l1_scan t 1 [] [] else l1_scan t 0 [] []
    | 1 =>
      if is_alpha c then l1_scan t 1 runs (c :: cur)
      else if lbrace c then l1_scan t 2 (flush runs cur) []
      else if rbrace c then flush runs cur :: l1_scan t 0 [] []
      else l1_scan t 1 (flush runs cur) []
    | S (S d as d1) =>
      if lbrace c then l1_scan t (S depth) runs []
      else if rbrace c then l1_scan t d1 runs []
      else l1_scan t depth runs []
    end
  end.
Definition level1_letter_runs (f : str) : list (list str) := l1_scan f 0 [] [].

(* the eight legal letter groups, caselessly: f ff l ll v vv j jj *)
Definition legal_letters (r : str) : bool :=
  let v := lower r in
  existsb (str_eqb v) (map s2l ["f"; "ff"; "l"; "ll"; "v"; "vv"; "j"; "jj"]%string).
(* a group may have no letters, or exactly one legal run *)
Definition legal_group (runs : list str) : bool :=
  match runs with [] => true | [r] => legal_letters r | _ => false end.

(* w0 s0 w1 s1 ... wn *)
Fixpoint interleave (ws seps : list str) : str :=
  match ws with
  | [] => []
  | [w] => w
  | w :: ws' => match seps with
                | s :: seps' => w ++ s ++ interleave ws' seps'
                | [] => w ++ interleave ws' []
                end
  end.

(* BibTeX's rule for the separator after token i (0-based) of n tokens: a tie before the last
   token and after a short first token, otherwise a space *)
Definition sep_rule (n : nat) (short_first : bool) (tie space : str) (i : nat) : str :=
  if Nat.eqb (S (S i)) n || (Nat.eqb i 0 && short_first) then tie else space.
Definition seps_rule (n : nat) (short_first : bool) (tie space : str) : list str :=
  map (sep_rule n short_first tie space) (seq 0 (pred n)).

(* the characters of s at brace level 0 (braces themselves excluded), reading from depth d *)
Fixpoint level0_text (s : str) (d : nat) : str :=
  match s with
  | [] => []
  | c :: t =>
    if lbrace c then level0_text t (S d)
    else if rbrace c then level0_text t (pred d)
    else match d with O => c :: level0_text t 0 | _ => level0_text t d end
  end.

(* the grammar of the text of a {...} part around its letters: characters that are neither
   braces, letters nor underscores, and balanced {...} groups *)
Definition vchar (c : char) : bool :=
  negb (lbrace c) && negb (rbrace c) && negb (is_alpha c) && negb (N.eqb c 95).
Inductive verb : str -> Prop :=
| verb_nil : verb []
| verb_char c s : vchar c = true -> verb s -> verb (c :: s)
| verb_group body s : walk body 0 = Some 0 -> verb s -> verb (123%N :: body ++ 125%N :: s).

(* the grammar of well-formed format strings: level-0 characters and {...} parts; a part is
   text only, or pre-text, one legal letter group, an optional {separator}, post-text *)
Inductive wf_group : str -> Prop :=
| wfg_plain pre : verb pre -> wf_group pre
| wfg_sep pre ls dl post : verb pre -> legal_letters ls = true -> walk dl 0 = Some 0 -> verb post ->
    wf_group (pre ++ ls ++ 123%N :: dl ++ 125%N :: post)
| wfg_default pre ls post : verb pre -> legal_letters ls = true -> verb post -> lbrace (hd 0%N post) = false ->
    wf_group (pre ++ ls ++ post).
Inductive wf_format : str -> Prop :=
| wf_nil : wf_format []
| wf_char c s : lbrace c = false -> rbrace c = false -> wf_format s -> wf_format (c :: s)
| wf_grp body s : wf_group body -> wf_format s -> wf_format (123%N :: body ++ 125%N :: s).

(* ---- hyphen-aware abbreviation of a word without braces ---- *)
Definition no_lbrace (s : str) : bool := forallb (fun c => negb (lbrace c)) s.
Definition nonempty (s : str) : bool := negb (match s with [] => true | _ => false end).

(* the first ASCII letter of a string, as a one-character string; "" if there is none *)
Fixpoint first_alpha (s : str) : str :=
  match s with [] => [] | c :: t => if is_alpha c then [c] else first_alpha t end.

(* str.split(c) for a single character *)
Fixpoint split_char (c : char) (s acc : str) : list str :=
  match s with
  | [] => [rev acc]
  | x :: t => if N.eqb x c then rev acc :: split_char c t [] else split_char c t (x :: acc)
  end.

Definition delim_or_default (d : option str) : str := match d with None => [46%N; 45%N] | Some d => d end.

