(* Spec/FlatOps.v -- the markup a constructor / a receiver puts around text (needs the
   model's `kind` and `rt` types only). *)
From Pybtex Require Import Base.Prelude Base.PyChar Base.PyStr Model.RtTypes Model.RichText Spec.Flat.

(* the markup of a constructor call: Text -> none, Tag(name), HRef(url, external), Protected *)
Definition km (k : kind) : option markup :=
  match k with
  | KText => None
  | KTag n => Some (MTag n)
  | KHRef u e => Some (MHRef u e)
  | KProt => Some MProt
  end.
Definition pushk (k : kind) (f : flat_text) : flat_text :=
  match km k with None => f | Some m => push_m m f end.

(* the markup an existing text object carries at its top level *)
Definition top_markup (t : rt) : option markup :=
  match t with
  | RTag n _ => Some (MTag n)
  | RHRef u e _ => Some (MHRef u e)
  | RProt _ => Some MProt
  | _ => None
  end.
Definition push_top (t : rt) (f : flat_text) : flat_text :=
  match top_markup t with None => f | Some m => push_m m f end.

(* str.capitalize-like operations on a pair sequence *)
Definition capfirst_flat (f : flat_text) : flat_text :=
  map (conv_pair true) (firstn 1 f) ++ skipn 1 f.
Definition capitalize_flat (f : flat_text) : flat_text :=
  map (conv_pair true) (firstn 1 f) ++ map (conv_pair false) (skipn 1 f).


(* ------------------------------------------------------------------------------ *)
(* operations applied on top of one another: an evaluator of expressions on plain pair
   sequences, written from the string operations only *)
Definition mapO {X Y} (f : X -> option Y) : list X -> option (list Y) :=
  fix go (l : list X) : option (list Y) :=
    match l with
    | [] => Some []
    | x :: r => match f x, go r with Some y, Some ys => Some (y :: ys) | _, _ => None end
    end.

Definition push_opt (m : option markup) (f : flat_text) : flat_text :=
  match m with None => f | Some m => push_m m f end.

(* a value of the specification: (top-level markup, pair sequence), both up to `erase` *)
Definition sval := (option markup * flat_text)%type.

Definition sctor (m : option markup) (vs : list sval) : sval :=
  (m, push_opt m (concat (map snd vs))).

Fixpoint spec (e : expr) : option sval :=
  match e with
  | EStr s => Some (None, map (fun c => (ACh c, [])) s)
  | ESym n => Some (None, [(ASym n, [])])
  | EText ps => option_map (sctor None) (mapO spec ps)
  | ETag n ps => option_map (sctor (Some (MTag (canon_name n)))) (mapO spec ps)
  | EHRef u x ps => option_map (sctor (Some (MHRef u false))) (mapO spec ps)
  | EProt ps => option_map (sctor (Some MProt)) (mapO spec ps)
  | EUpper a => option_map (fun r : sval => (fst r, map (conv_pair true) (snd r))) (spec a)
  | ELower a => option_map (fun r : sval => (fst r, map (conv_pair false) (snd r))) (spec a)
  | ESlice a i j => option_map (fun r : sval => (fst r, pyslice (snd r) i j)) (spec a)
  | ECapfirst a =>
    option_map (fun r : sval => (match fst r with Some MProt => fst r | _ => None end, capfirst_flat (snd r))) (spec a)
  | ECapitalize a =>
    option_map (fun r : sval => (match fst r with Some MProt => fst r | _ => None end, capitalize_flat (snd r))) (spec a)
  | EAdd a b =>
    match spec a, spec b with
    | Some ra, Some rb => Some (None, snd ra ++ snd rb)
    | _, _ => None
    end
  | EAppend a b =>
    match spec a, spec b with
    | Some ra, Some rb => Some (fst ra, snd ra ++ push_opt (fst ra) (snd rb))
    | _, _ => None
    end
  | EJoin s es =>
    match spec s, mapO spec es with
    | Some rs, Some rl => Some (None, join_flat (snd rs) (map snd rl))
    | _, _ => None
    end
  | _ => None      (* not covered: malformed parts, int index, add_period, abbreviate, split *)
  end.

Definition top_e (t : rt) : option markup := option_map erase_m (top_markup t).
Definition agrees (v : rt) (r : sval) : Prop := top_e v = fst r /\ erase (flat v) = snd r.

