(* Spec/FlatOps.v -- the markup a constructor / a receiver puts around text (needs the
   model's `kind` and `rt` types only). *)
From Pybtex Require Import Base.Prelude Base.PyChar Base.PyStr Model.RtTypes Model.RichText Spec.Flat.

(* the markup of a constructor call: Text -> none, Tag(name), HRef(url, external), Protected *)
Definition km (k : kind) : option markup :=
  match k with
  | KText => None
  | KTag n => Some (MTag n)
  | KHRef u e => Some (MHRef u e)
  | KProt => Some MProt
  end.
Definition pushk (k : kind) (f : flat_text) : flat_text :=
  match km k with None => f | Some m => push_m m f end.
(* ... as the constructor really applies it: Tag('emph', ...) is Tag('em', ...) *)
Definition pushk_e (k : kind) (f : flat_text) : flat_text :=
  match km k with None => f | Some m => push_m (erase_m m) f end.

(* the markup an existing text object carries at its top level *)
Definition top_markup (t : rt) : option markup :=
  match t with
  | RTag n _ => Some (MTag n)
  | RHRef u e _ => Some (MHRef u e)
  | RProt _ => Some MProt
  | _ => None
  end.
Definition push_top (t : rt) (f : flat_text) : flat_text :=
  match top_markup t with None => f | Some m => push_m m f end.

(* str.capitalize-like operations on a pair sequence *)
Definition capfirst_flat (f : flat_text) : flat_text :=
  map (conv_pair true) (firstn 1 f) ++ skipn 1 f.
Definition capitalize_flat (f : flat_text) : flat_text :=
  map (conv_pair true) (firstn 1 f) ++ map (conv_pair false) (skipn 1 f).


(* ------------------------------------------------------------------------------ *)
(* operations applied on top of one another: an evaluator of expressions on plain pair
   sequences, written from the string operations only *)
Definition mapO {X Y} (f : X -> option Y) : list X -> option (list Y) :=
  fix go (l : list X) : option (list Y) :=
    match l with
    | [] => Some []
    | x :: r => match f x, go r with Some y, Some ys => Some (y :: ys) | _, _ => None end
    end.

Definition push_opt (m : option markup) (f : flat_text) : flat_text :=
  match m with None => f | Some m => push_m m f end.

(* a value of the specification: (top-level markup, pair sequence), both up to `erase` *)
Definition sval := (option markup * flat_text)%type.

Definition sctor (m : option markup) (vs : list sval) : sval :=
  (m, push_opt m (concat (map snd vs))).

(* text[i] on a sequence; add_period on a sequence *)
Definition last_atom (f : flat_text) : option atom :=
  match rev f with p :: _ => Some (fst p) | [] => None end.
Definition is_term (c : char) : bool := N.eqb c 46 || N.eqb c 63 || N.eqb c 33.     (* . ? ! *)
Definition terminated_flat (f : flat_text) : bool :=
  match last_atom f with Some (ACh c) => is_term c | _ => false end.
Definition add_period_flat (m : option markup) (f : flat_text) (p : str) : flat_text :=
  if negb (Nat.eqb (length f) 0) && negb (terminated_flat f)
  then f ++ push_opt m (map (fun c => (ACh c, [])) p) else f.
(* str.isalpha on a sequence (ASCII letters; a symbol is not a letter) *)
Definition isalpha_flat (f : flat_text) : bool :=
  negb (Nat.eqb (length f) 0) && forallb (fun p : pair => match fst p with ACh c => is_alpha c | ASym _ => false end) f.

Fixpoint spec (e : expr) : option sval :=
  match e with
  | EStr s => Some (None, map (fun c => (ACh c, [])) s)
  | ESym n => Some (None, [(ASym n, [])])
  | EText ps => option_map (sctor None) (mapO spec ps)
  | ETag n ps => option_map (sctor (Some (MTag (canon_name n)))) (mapO spec ps)
  | EHRef u x ps => option_map (sctor (Some (MHRef u x))) (mapO spec ps)
  | EProt ps => option_map (sctor (Some MProt)) (mapO spec ps)
  | EUpper a => option_map (fun r : sval => (fst r, map (conv_pair true) (snd r))) (spec a)
  | ELower a => option_map (fun r : sval => (fst r, map (conv_pair false) (snd r))) (spec a)
  | ESlice a i j => option_map (fun r : sval => (fst r, pyslice (snd r) i j)) (spec a)
  | EIndex a i =>     (* outside the bounds str raises IndexError (multipart texts do not: F23): not covered *)
    match spec a with
    | Some r => match pyindex (snd r) i with Some p => Some (fst r, [p]) | None => None end
    | None => None
    end
  | EAddPeriod a p => option_map (fun r : sval => (fst r, add_period_flat (fst r) (snd r) p)) (spec a)
  | ECapfirst a =>
    option_map (fun r : sval => (match fst r with Some MProt => fst r | _ => None end, capfirst_flat (snd r))) (spec a)
  | ECapitalize a =>
    option_map (fun r : sval => (match fst r with Some MProt => fst r | _ => None end, capitalize_flat (snd r))) (spec a)
  | EAdd a b =>
    match spec a, spec b with
    | Some ra, Some rb => Some (None, snd ra ++ snd rb)
    | _, _ => None
    end
  | EAppend a b =>
    match spec a, spec b with
    | Some ra, Some rb => Some (fst ra, snd ra ++ push_opt (fst ra) (snd rb))
    | _, _ => None
    end
  | EJoin s es =>
    match spec s, mapO spec es with
    | Some rs, Some rl => Some (None, join_flat (snd rs) (map snd rl))
    | _, _ => None
    end
  | _ => None      (* not covered: malformed parts, abbreviate, split (F17s) *)
  end.

Definition top_e (t : rt) : option markup := option_map erase_m (top_markup t).
Definition agrees (v : rt) (r : sval) : Prop := top_e v = fst r /\ erase (flat v) = snd r.


(* ------------------------------------------------------------------------------ *)
(* well-formed texts: no Tag carries the deprecated name "emph" (the constructor renames it to
   "em", so every text the API can build is well-formed) *)
Fixpoint wfb (t : rt) : bool :=
  match t with
  | RStr _ | RSym _ => true
  | RText ps | RHRef _ _ ps | RProt ps => forallb wfb ps
  | RTag n ps => str_eqb (canon_name n) n && forallb wfb ps
  end.
Definition wf (t : rt) : Prop := wfb t = true.

(* the sequence of markup stacks of a rendering, position by position *)
Definition stacks (f : flat_text) : list (list markup) := map snd f.

(* ------------------------------------------------------------------------------ *)
(* observers on the character sequence *)
Definition atoms (f : flat_text) : list atom := map fst f.
Definition occurs {X} (needle hay : list X) : Prop := exists a b, hay = a ++ needle ++ b.
Definition prefix_of {X} (p l : list X) : Prop := exists b, l = p ++ b.
Definition suffix_of {X} (p l : list X) : Prop := exists a, l = a ++ p.

(* the String leaves of a text, and the first / last leaf a prefix / suffix test looks at *)
Fixpoint leaves (t : rt) : list str :=
  match t with
  | RStr s => [s]
  | RSym _ => []
  | RText ps | RTag _ ps | RHRef _ _ ps | RProt ps => flat_map leaves ps
  end.
Fixpoint first_leaf (t : rt) : option str :=
  match t with
  | RStr s => Some s
  | RSym _ => None
  | RText ps | RTag _ ps | RHRef _ _ ps | RProt ps =>
    match ps with [] => None | q :: _ => first_leaf q end
  end.
Fixpoint last_leaf (t : rt) : option str :=
  match t with
  | RStr s => Some s
  | RSym _ => None
  | RText ps | RTag _ ps | RHRef _ _ ps | RProt ps =>
    (fix go (l : list rt) : option str :=
       match l with [] => None | [q] => last_leaf q | _ :: r => go r end) ps
  end.

(* split(): the pairs that survive text.split() -- an unprotected whitespace character is a
   separator and disappears, everything else (protected whitespace included) is kept *)
Definition ws_sep (p : pair) : bool :=
  negb (protected p) && match fst p with ACh c => is_space c | ASym _ => false end.
Definition drop_ws (f : flat_text) : flat_text := filter (fun p => negb (ws_sep p)) f.

(* ------------------------------------------------------------------------------ *)
(* the normal form the constructor produces: parts are non-empty, never a Text, themselves
   normal, and two neighbours never have the same type information (except Symbols) *)
Definition not_text (t : rt) : bool := match t with RText _ => false | _ => true end.
Definition adj_ok (p q : rt) : bool :=
  negb (tinfo_eqb (typeinfo p) (typeinfo q)) || match typeinfo p with TINone => true | _ => false end.
Fixpoint adjacent_ok (ps : list rt) : bool :=
  match ps with
  | p :: r => match r with q :: _ => adj_ok p q | [] => true end && adjacent_ok r
  | [] => true
  end.
Fixpoint normal (t : rt) : bool :=
  match t with
  | RStr _ | RSym _ => true
  | RText ps | RTag _ ps | RHRef _ _ ps | RProt ps =>
    forallb (fun p => nonempty p && not_text p && normal p) ps && adjacent_ok ps
  end.
Definition normal_parts (ps : list rt) : bool :=
  forallb (fun p => nonempty p && not_text p && normal p) ps && adjacent_ok ps.

(* the texts the API builds: in normal form and well-formed (Proofs: mkc_good, eval_good) *)
Definition good (t : rt) : Prop := normal t = true /\ wf t.

(* ------------------------------------------------------------------------------ *)
(* histories with split as a step: a relational semantics on pair sequences.  Every clause is
   the string operation on the sequence; the two stated exceptions are explicit clauses:
   an int index outside the bounds (F23: str raises, a multipart text returns some text -- the
   result is left unspecified) and split, whose pieces are specified by their laws (they
   re-assemble, Protected is one piece, every piece keeps the top-level markup) but not by the
   positions of the cuts at part boundaries (F17s). *)
Definition split_law (sep : sepk) (r : sval) (pieces : list flat_text) : Prop :=
  match sep with
  | SepNone => concat pieces = drop_ws (snd r)
  | SepDelim => concat pieces = snd r
  | _ => False
  end /\ (fst r = Some MProt -> pieces = [snd r]).

Definition cap_top (m : option markup) : option markup := match m with Some MProt => m | _ => None end.

Inductive hsem : expr -> sval -> Prop :=
| hs_str s : hsem (EStr s) (None, map (fun c => (ACh c, [])) s)
| hs_sym n : hsem (ESym n) (None, [(ASym n, [])])
| hs_text ps rs : Forall2 hsem ps rs -> hsem (EText ps) (sctor None rs)
| hs_tag n ps rs : Forall2 hsem ps rs -> hsem (ETag n ps) (sctor (Some (MTag (canon_name n))) rs)
| hs_href u x ps rs : Forall2 hsem ps rs -> hsem (EHRef u x ps) (sctor (Some (MHRef u x)) rs)
| hs_prot ps rs : Forall2 hsem ps rs -> hsem (EProt ps) (sctor (Some MProt) rs)
| hs_upper a r : hsem a r -> hsem (EUpper a) (fst r, map (conv_pair true) (snd r))
| hs_lower a r : hsem a r -> hsem (ELower a) (fst r, map (conv_pair false) (snd r))
| hs_capitalize a r : hsem a r -> hsem (ECapitalize a) (cap_top (fst r), capitalize_flat (snd r))
| hs_capfirst a r : hsem a r -> hsem (ECapfirst a) (cap_top (fst r), capfirst_flat (snd r))
| hs_addperiod a r p : hsem a r -> hsem (EAddPeriod a p) (fst r, add_period_flat (fst r) (snd r) p)
| hs_slice a r i j : hsem a r -> hsem (ESlice a i j) (fst r, pyslice (snd r) i j)
| hs_index a r i p : hsem a r -> pyindex (snd r) i = Some p -> hsem (EIndex a i) (fst r, [p])
| hs_index_f23 a r i q : hsem a r -> pyindex (snd r) i = None -> hsem (EIndex a i) (fst r, q)
| hs_add a b ra rb : hsem a ra -> hsem b rb -> hsem (EAdd a b) (None, snd ra ++ snd rb)
| hs_append a b ra rb : hsem a ra -> hsem b rb -> hsem (EAppend a b) (fst ra, snd ra ++ push_opt (fst ra) (snd rb))
| hs_join s es rs rl : hsem s rs -> Forall2 hsem es rl -> hsem (EJoin s es) (None, join_flat (snd rs) (map snd rl))
| hs_split a r sep keep k pieces q : hsem a r -> split_law sep r pieces -> nth_error pieces k = Some q ->
    hsem (ESplitNth a sep keep k) (fst r, q).

(* the expressions covered: everything but abbreviate (not in the property) and split on a string
   separator *)
Fixpoint covered (e : expr) : bool :=
  match e with
  | EStr _ | ESym _ | EBad => true
  | EText ps | ETag _ ps | EHRef _ _ ps | EProt ps => forallb covered ps
  | EUpper a | ELower a | ECapitalize a | ECapfirst a | EAddPeriod a _ | ESlice a _ _ | EIndex a _ => covered a
  | EAbbrev _ => false
  | EAdd a b | EAppend a b => covered a && covered b
  | EJoin s es => covered s && forallb covered es
  | ESplitNth a sep _ _ => covered a && match sep with SepNone | SepDelim => true | _ => false end
  end.

(* a text that is one String wrapped in any nesting of Text / Tag / HRef / Protected, each with that
   single part: all its characters lie in one part, so no needle can span a part boundary *)
Inductive chain : rt -> str -> Prop :=
| ch_str s : chain (RStr s) s
| ch_text q s : chain q s -> chain (RText [q]) s
| ch_tag n q s : chain q s -> chain (RTag n [q]) s
| ch_href u e q s : chain q s -> chain (RHRef u e [q]) s
| ch_prot q s : chain q s -> chain (RProt [q]) s.

(* the splittable one-String texts: a String, or a Text / Tag / HRef around a (Tag / HRef)* nest
   around one String -- what the constructors build from Tag(HRef(...'a b c'...)) *)
Inductive chain_in : rt -> str -> Prop :=
| ci_str s : chain_in (RStr s) s
| ci_tag n q s : chain_in q s -> chain_in (RTag n [q]) s
| ci_href u e q s : chain_in q s -> chain_in (RHRef u e [q]) s.
Inductive chain_s : rt -> str -> Prop :=
| cs_in t s : chain_in t s -> chain_s t s
| cs_text q s : chain_in q s -> chain_s (RText [q]) s.

(* the same nest around another string (an empty inner text disappears, as in the constructor) *)
Fixpoint rechain (t : rt) (w : str) : rt :=
  match t with
  | RStr _ => RStr w
  | RSym n => RSym n
  | RText ps | RTag _ ps | RHRef _ _ ps | RProt ps =>
    build (kind_of t) (filter nonempty (map (fun q => rechain q w) ps))
  end.
