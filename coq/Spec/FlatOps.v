(* Spec/FlatOps.v -- the markup a constructor / a receiver puts around text (needs the
   model's `kind` and `rt` types only). *)
From Pybtex Require Import Base.Prelude Model.RtTypes Model.RichText Spec.Flat.

(* the markup of a constructor call: Text -> none, Tag(name), HRef(url, external), Protected *)
Definition km (k : kind) : option markup :=
  match k with
  | KText => None
  | KTag n => Some (MTag n)
  | KHRef u e => Some (MHRef u e)
  | KProt => Some MProt
  end.
Definition pushk (k : kind) (f : flat_text) : flat_text :=
  match km k with None => f | Some m => push_m m f end.

(* the markup an existing text object carries at its top level *)
Definition top_markup (t : rt) : option markup :=
  match t with
  | RTag n _ => Some (MTag n)
  | RHRef u e _ => Some (MHRef u e)
  | RProt _ => Some MProt
  | _ => None
  end.
Definition push_top (t : rt) (f : flat_text) : flat_text :=
  match top_markup t with None => f | Some m => push_m m f end.
