(* Spec/BstDoc.v -- what each built-in that runs no code does, one rule per built-in, written from the
   BibTeX documentation (btxhak.tex, "built-in functions"), for operands of the documented kinds only.
   "first" = the literal on top of the stack (popped first), "second" = the one below it.
   The string primitives named in the rules (bibtex_substring, bibtex_prefix, bibtex_len, bibtex_purify,
   change_case, bibtex_width, split_name_list, wrap) are those of C12 / C19, format_name is C11's. *)
From Pybtex Require Import Base.Prelude Base.PyChar Base.PyStr Model.BibtexStr Model.Wrap Model.Bst.
Local Open Scope Z_scope.

Section Doc.
  Variable fmt_name : str -> str -> res str.
  Variable cw : char -> Z.

  Definition b2z (b : bool) : value := VInt (if b then 1 else 0).
  (* a string literal: an ordinary string, or a missing field (which is the empty string) *)
  Definition str_of (v : value) (s : str) : Prop := v = VStr s \/ (exists n, v = VMissing n) /\ s = [].
  Definition all_strs (l : list value) (ss : list str) : Prop := Forall2 str_of l ss.
  (* what top$ / stack$ print for an integer or string literal *)
  Definition prints_as (v : value) (t : str) : Prop := (exists z, v = VInt z /\ t = Z_to_str z) \/ str_of v t.

  Inductive builtin_doc : builtin -> state -> state -> Prop :=
  (* ">" "<" "=": pop two integers, compare the second with the first, push 1 or 0; "=" also on strings *)
  | D_gt st x y r : st_stack st = VInt x :: VInt y :: r ->
      builtin_doc B_gt st (set_stack st (b2z (x <? y) :: r))
  | D_lt st x y r : st_stack st = VInt x :: VInt y :: r ->
      builtin_doc B_lt st (set_stack st (b2z (y <? x) :: r))
  | D_eq_int st x y r : st_stack st = VInt x :: VInt y :: r ->
      builtin_doc B_eq st (set_stack st (b2z (y =? x) :: r))
  | D_eq_str st a b s t r : st_stack st = a :: b :: r -> str_of a s -> str_of b t ->
      builtin_doc B_eq st (set_stack st (b2z (str_eqb t s) :: r))
  (* "+" "-": the sum; the second minus the first *)
  | D_plus st x y r : st_stack st = VInt x :: VInt y :: r ->
      builtin_doc B_plus st (set_stack st (VInt (y + x) :: r))
  | D_minus st x y r : st_stack st = VInt x :: VInt y :: r ->
      builtin_doc B_minus st (set_stack st (VInt (y - x) :: r))
  (* "*": the second followed by the first *)
  | D_concat st a b s t r : st_stack st = a :: b :: r -> str_of a s -> str_of b t ->
      builtin_doc B_concat st (set_stack st (VStr (t ++ s) :: r))
  (* ":=": assigns to the first (a quoted variable) the value of the second, of the variable's type *)
  | D_assign_int st x old z r : st_stack st = VRef x :: VInt z :: r ->
      alookup str_eqb x (st_vars st) = Some (OInt old) ->
      builtin_doc B_assign st (set_vars (set_stack st r) (aset str_eqb x (OInt (VInt z)) (st_vars st)))
  | D_assign_str st x old v s r : st_stack st = VRef x :: v :: r -> str_of v s ->
      alookup str_eqb x (st_vars st) = Some (OStr old) ->
      builtin_doc B_assign st (set_vars (set_stack st r) (aset str_eqb x (OStr v) (st_vars st)))
  | D_assign_eint st x name key e z r : st_stack st = VRef x :: VInt z :: r ->
      alookup str_eqb x (st_vars st) = Some (OEInt name) -> st_cur st = Some (key, e) ->
      builtin_doc B_assign st
        (set_evars (set_stack st r) (aset str_eqb key (aset str_eqb name (VInt z) (frame st key)) (st_evars st)))
  | D_assign_estr st x name key e v s r : st_stack st = VRef x :: v :: r -> str_of v s ->
      alookup str_eqb x (st_vars st) = Some (OEStr name) -> st_cur st = Some (key, e) ->
      builtin_doc B_assign st
        (set_evars (set_stack st r) (aset str_eqb key (aset str_eqb name v (frame st key)) (st_evars st)))
  (* add.period$: adds a period unless the string is empty or its last non-"}" character is . ? or ! *)
  | D_add_period_empty st v r : st_stack st = v :: r -> str_of v [] ->
      builtin_doc B_add_period st st
  | D_add_period st c s r : st_stack st = VStr (c :: s) :: r ->
      builtin_doc B_add_period st
        (set_stack st (VStr (if ends_with_terminator (c :: s) then c :: s else (c :: s) ++ [46%N]) :: r))
  (* change.case$: first = the conversion (t, l or u, either case), second = the string *)
  | D_change_case st c m v s k t r : st_stack st = VStr (c :: m) :: v :: r -> str_of v s ->
      (to_lower c = 108%N /\ k = 0%nat \/ to_lower c = 117%N /\ k = 1%nat \/ to_lower c = 116%N /\ k = 2%nat) ->
      change_case s k = Ok t ->
      builtin_doc B_change_case st (set_stack st (VStr t :: r))
  (* chr.to.int$ / int.to.chr$ / int.to.str$ *)
  | D_chr_to_int st c r : st_stack st = VStr [c] :: r ->
      builtin_doc B_chr_to_int st (set_stack st (VInt (Z.of_N c) :: r))
  | D_int_to_chr st z r : st_stack st = VInt z :: r -> 0 <= z <= 1114111 ->
      builtin_doc B_int_to_chr st (set_stack st (VStr [Z.to_N z] :: r))
  | D_int_to_str st z r : st_stack st = VInt z :: r ->
      builtin_doc B_int_to_str st (set_stack st (VStr (Z_to_str z) :: r))
  (* cite$ / type$ / preamble$ *)
  | D_cite st key e : st_cur st = Some (key, e) -> builtin_doc B_cite st (push (VStr key) st)
  | D_type st key e : st_cur st = Some (key, e) -> builtin_doc B_type st (push (VStr (e_type e)) st)
  | D_preamble st d : st_db st = Some d -> builtin_doc B_preamble st (push (VStr (r_preamble d)) st)
  (* duplicate$ pop$ swap$ skip$ quote$ *)
  | D_duplicate st v r : st_stack st = v :: r -> builtin_doc B_duplicate st (set_stack st (v :: v :: r))
  | D_pop st v r : st_stack st = v :: r -> builtin_doc B_pop st (set_stack st r)
  | D_swap st a b r : st_stack st = a :: b :: r -> builtin_doc B_swap st (set_stack st (b :: a :: r))
  | D_skip st : builtin_doc B_skip st st
  | D_quote st : builtin_doc B_quote st (push (VStr [c_quote]) st)
  (* empty$: 1 for a missing field or a string without non-white-space characters; missing$: 1 for a missing field *)
  | D_empty st v s r : st_stack st = v :: r -> str_of v s ->
      builtin_doc B_empty st (set_stack st (b2z (forallb is_space s) :: r))
  | D_missing st v s r : st_stack st = v :: r -> str_of v s ->
      builtin_doc B_missing st (set_stack st (b2z (match v with VMissing _ => true | _ => false end) :: r))
  (* format.name$: first = the format string, second = the (1-based) index, third = the name list *)
  | D_format_name st f fs k v names parts t r : st_stack st = f :: VInt k :: v :: r ->
      str_of f fs -> str_of v names -> split_name_list names = Ok parts ->
      1 <= k <= Z.of_nat (length parts) -> fmt_name (nth (Z.to_nat (k - 1)) parts []) fs = Ok t ->
      builtin_doc B_format_name st (set_stack st (VStr t :: r))
  | D_num_names st v s parts r : st_stack st = v :: r -> str_of v s -> split_name_list s = Ok parts ->
      builtin_doc B_num_names st (set_stack st (VInt (Z.of_nat (length parts)) :: r))
  (* purify$ text.length$ width$ *)
  | D_purify st v s t r : st_stack st = v :: r -> str_of v s -> bibtex_purify s = Ok t ->
      builtin_doc B_purify st (set_stack st (VStr t :: r))
  | D_text_length st v s n r : st_stack st = v :: r -> str_of v s -> bibtex_len s = Ok n ->
      builtin_doc B_text_length st (set_stack st (VInt (Z.of_nat n) :: r))
  | D_width st v s w r : st_stack st = v :: r -> str_of v s -> bibtex_width cw s = Ok w ->
      builtin_doc B_width st (set_stack st (VInt w :: r))
  (* substring$: first = length, second = start, third = the string; text.prefix$: first = count, second = string *)
  | D_substring st len start v s r : st_stack st = VInt len :: VInt start :: v :: r -> str_of v s ->
      builtin_doc B_substring st (set_stack st (VStr (bibtex_substring s start len) :: r))
  | D_text_prefix st n v s t r : st_stack st = VInt n :: v :: r -> str_of v s -> bibtex_prefix s n = Ok t ->
      builtin_doc B_text_prefix st (set_stack st (VStr t :: r))
  (* write$ appends to the output buffer; newline$ writes the buffer as one (wrapped) line *)
  | D_write st v s r : st_stack st = v :: r -> str_of v s ->
      builtin_doc B_write st (set_out (set_stack st r) (st_buf st ++ [v]) (st_lines st))
  | D_newline st ss w : all_strs (st_buf st) ss -> wrap (concat ss) 79 [c_space; c_space] = Ok w ->
      builtin_doc B_newline st (set_out st [] (st_lines st ++ [w; [c_nl]]))
  (* top$ pops and prints the top literal, stack$ all of them; warning$ pops and reports a string *)
  | D_top_int st z r : st_stack st = VInt z :: r ->
      builtin_doc B_top st (add_print (set_stack st r) (Z_to_str z ++ [c_nl]))
  | D_top_str st v s r : st_stack st = v :: r -> str_of v s ->
      builtin_doc B_top st (add_print (set_stack st r) (s ++ [c_nl]))
  | D_stack st ts : Forall2 prints_as (st_stack st) ts ->
      builtin_doc B_stack st (add_print (set_stack st []) (concat (map (fun t => t ++ [c_nl]) ts)))
  | D_warning st v s r : st_stack st = v :: r -> str_of v s ->
      builtin_doc B_warning st (add_warn (set_stack st r) [WUser v]).
End Doc.
