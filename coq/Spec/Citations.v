(* Spec/Citations.v -- what property C05 says, written without looking at how pybtex computes it.
   Keys and databases are those of Model/Citations.v (a database in file order is a list of
   (key, optional cross-reference)); `keyb` is equality of keys up to letter case. *)
From Pybtex Require Import Base.Prelude Base.PyChar Base.PyStr Model.Citations.

(* de-duplication up to letter case, keeping the first occurrence (and its spelling) *)
Fixpoint dedup_ci (l : list key) : list key :=
  match l with
  | [] => []
  | k :: r => k :: filter (fun x => negb (keyb k x)) (dedup_ci r)
  end.

(* no two keys of the list are equal up to letter case *)
Fixpoint nodup_cib (l : list key) : bool :=
  match l with
  | [] => true
  | k :: r => negb (existsb (keyb k) r) && nodup_cib r
  end.

(* the explicitly cited keys: first-citation order, '*' standing for every database entry in
   database order, de-duplicated case-insensitively *)
Definition explicit_spec (E : edict) (cites : list key) : list key :=
  dedup_ci (flat_map (fun c => if str_eqb c star then ed_keys E else [c]) cites).

(* the database entry (its stored key) that the cross-reference of citation c resolves to *)
Definition parent_of (E : edict) (c : key) : option key :=
  match ed_get c E with
  | Some (_, Some p) => match ed_get p E with Some (pk, _) => Some pk | None => None end
  | _ => None
  end.
(* how many of the citations cs cross-reference the entry pk *)
Definition refs (E : edict) (pk : key) (cs : list key) : nat :=
  length (filter (fun c => match parent_of E c with Some q => keyb pk q | None => false end) cs).
(* position by position: citation c (after the citations pre) brings in its parent exactly when the
   parent is not itself cited and c is the citation at which the number of references to the
   parent reaches the threshold m *)
Fixpoint threshold_hits (E : edict) (m : nat) (cited pre rest : list key) : list key :=
  match rest with
  | [] => []
  | c :: r =>
    (match parent_of E c with
     | Some pk => if Nat.eqb (refs E pk (pre ++ [c])) m && negb (existsb (keyb pk) cited) then [pk] else []
     | None => []
     end) ++ threshold_hits E m cited (pre ++ [c]) r
  end.
(* min_crossrefs below 1 behaves like 1 *)
Definition threshold (m : Z) : nat := Z.to_nat (Z.max m 1).
Definition crossrefs_spec (E : edict) (cs : list key) (m : Z) : list key :=
  threshold_hits E (threshold m) cs [] cs.

(* repeated citations of one key are spelled alike (the property's quantifier) *)
Definition consistent (cites : list key) : Prop :=
  forall a b, In a cites -> In b cites -> keyb a b = true -> a = b.

(* the cited keys missing from the database / the dangling cross-references of cited entries *)
Definition missing_of (E : edict) (cs : list key) : list key := filter (fun c => negb (ed_mem c E)) cs.
Definition dangling_of (E : edict) (cs : list key) : list (key * key) :=
  flat_map (fun c => match ed_get c E with
                     | Some (_, Some p) => if ed_mem p E then [] else [(c, p)]
                     | _ => [] end) cs.
Definition missing_reports (rs : list report) : list key :=
  flat_map (fun r => match r with RMissing c => [c] | _ => [] end) rs.
Definition badxref_reports (rs : list report) : list (key * key) :=
  flat_map (fun r => match r with RBadXref c p => [(c, p)] | _ => [] end) rs.

(* BibTeX's documented ordering rule, for the citations at hand: a cross-referenced entry that is not
   itself cited comes after every cited entry that refers to it ('*' cites everything) *)
Fixpoint first_index (k : key) (db : list entry) : option nat :=
  match db with
  | [] => None
  | e :: r => if keyb k (fst e) then Some 0 else option_map S (first_index k r)
  end.
Definition cited_by (cites : list key) (k : key) : bool := existsb (keyb k) cites || existsb (keyb star) cites.
Definition parents_follow_children (db : list entry) (cites : list key) : Prop :=
  forall i c p j, nth_error db i = Some (c, Some p) -> first_index c db = Some i -> cited_by cites c = true ->
    first_index p db = Some j -> cited_by cites p = true \/ i < j.

(* ---- cross-reference chains: which entries a reading must keep *)
(* the first entry of the file whose key is q (up to case) *)
Definition first_entry (q : key) (db : list entry) : option entry := find (fun e => keyb q (fst e)) db.
(* reachable from the citations: cited, or named by the crossref of (the first entry of) a reachable key *)
Inductive reach (db : list entry) (cites : list key) : key -> Prop :=
| reach_cited q : cited_by cites q = true -> reach db cites q
| reach_step c ck p : reach db cites c -> first_entry c db = Some (ck, Some p) -> reach db cites p.
(* the ordering rule along whole chains: the (uncited) cross-reference target of every REACHABLE entry comes
   after it in the file *)
Definition ancestors_follow_descendants (db : list entry) (cites : list key) : Prop :=
  forall c ck p i j, reach db cites c -> first_entry c db = Some (ck, Some p) ->
    first_index c db = Some i -> first_index p db = Some j -> cited_by cites p = true \/ i < j.
