(* Spec/BstSem.v -- the documented semantics of the BST language as an inductive big-step
   relation (no fuel): sequencing, literals, quoting, calls of user functions, if$, while$ and
   call.type$ are given by rules written from the BibTeX documentation ("if$ pops the top three
   literals (they are two function literals and an integer literal, in that order); if the integer
   is greater than 0, it executes the second literal, else it executes the first"; "while$ pops the
   top two (function) literals, and keeps executing the second as long as the (integer) literal left
   on the stack by executing the first is greater than 0"; "call.type$ executes the function whose
   name is the entry type of an entry", default.type for an unknown type).
   The built-ins that do not run code (arithmetic, strings, stack, output ...) enter through one rule,
   parametrised by the relation [simple] that says what such a built-in does: instantiated with the
   documented behaviour ([builtin_doc] of Spec/BstDoc.v, one rule per built-in written from the BibTeX
   documentation) and with the model's one-step function ([model_simple]). *)
From Pybtex Require Import Base.Prelude Base.PyChar Base.PyStr Model.BibtexStr Model.Wrap Model.Bst.

Section Sem.
  Variable fmt_name : str -> str -> res str.
  Variable cw : char -> Z.
  Variable simple : builtin -> state -> state -> Prop.

  (* built-ins that run code popped from the stack or named by the entry type *)
  Definition control (b : builtin) : bool :=
    match b with B_if | B_while | B_call_type => true | _ => false end.

  Definition no_rec : state -> list instr -> res state := fun _ _ => Crash.
  Definition no_wh : state -> value -> value -> res state := fun _ _ _ => Crash.

  Inductive bigsteps : state -> list instr -> state -> Prop :=
  | BS_nil st : bigsteps st [] st
  | BS_cons st i st1 r st2 : bigstep st i st1 -> bigsteps st1 r st2 -> bigsteps st (i :: r) st2
  with bigstep : state -> instr -> state -> Prop :=
  | BS_int st z : bigstep st (IInt z) (push (VInt z) st)
  | BS_str st s : bigstep st (IStr s) (push (VStr s) st)
  | BS_fun st body : bigstep st (IFun body) (push (VFun body) st)
  | BS_quote_fun st name body : vlookup name (st_vars st) = Some (OFun body) ->
      bigstep st (IQuote name) (push (VFun body) st)
  | BS_quote_var st name o : vlookup name (st_vars st) = Some o ->
      (forall body, o <> OFun body) -> bigstep st (IQuote name) (push (VRef (lower name)) st)
  (* an identifier naming a user function runs its body *)
  | BS_call st name body st' : vlookup name (st_vars st) = Some (OFun body) ->
      bigsteps st body st' -> bigstep st (IId name) st'
  (* a variable or field pushes its value *)
  | BS_var st name o st' : vlookup name (st_vars st) = Some o ->
      (forall body, o <> OFun body) -> (forall b, o <> OBuiltin b) ->
      exec_obj fmt_name cw no_rec no_wh o st = Ok st' -> bigstep st (IId name) st'
  (* a built-in that runs no code *)
  | BS_builtin st name b st' : vlookup name (st_vars st) = Some (OBuiltin b) -> control b = false ->
      simple b st st' -> bigstep st (IId name) st'
  | BS_if_true st name f1 f2 z r st' : vlookup name (st_vars st) = Some (OBuiltin B_if) ->
      st_stack st = f1 :: f2 :: VInt z :: r -> (0 < z)%Z ->
      callv (set_stack st r) f2 st' -> bigstep st (IId name) st'
  | BS_if_false st name f1 f2 z r st' : vlookup name (st_vars st) = Some (OBuiltin B_if) ->
      st_stack st = f1 :: f2 :: VInt z :: r -> (z <= 0)%Z ->
      callv (set_stack st r) f1 st' -> bigstep st (IId name) st'
  | BS_while st name f p r st' : vlookup name (st_vars st) = Some (OBuiltin B_while) ->
      st_stack st = f :: p :: r ->
      whilerel (set_stack st r) p f st' -> bigstep st (IId name) st'
  | BS_call_type st name key e st' : vlookup name (st_vars st) = Some (OBuiltin B_call_type) ->
      st_cur st = Some (key, e) -> vlookup (e_type e) (st_vars st) <> None ->
      bigstep st (IId (e_type e)) st' -> bigstep st (IId name) st'
  | BS_call_type_default st name key e st' : vlookup name (st_vars st) = Some (OBuiltin B_call_type) ->
      st_cur st = Some (key, e) -> vlookup (e_type e) (st_vars st) = None ->
      vlookup nm_default_type (st_vars st) <> None ->
      bigstep (add_warn st [WType]) (IId nm_default_type) st' -> bigstep st (IId name) st'
  | BS_call_type_none st name key e : vlookup name (st_vars st) = Some (OBuiltin B_call_type) ->
      st_cur st = Some (key, e) -> vlookup (e_type e) (st_vars st) = None ->
      vlookup nm_default_type (st_vars st) = None ->
      bigstep st (IId name) (add_warn st [WType])
  (* executing a value popped from the stack *)
  with callv : state -> value -> state -> Prop :=
  | CV_fun st body st' : bigsteps st body st' -> callv st (VFun body) st'
  | CV_ref st n st' : bigstep st (IId n) st' -> callv st (VRef n) st'
  with whilerel : state -> value -> value -> state -> Prop :=
  | W_stop st p f st1 z r : callv st p st1 -> st_stack st1 = VInt z :: r -> (z <= 0)%Z ->
      whilerel st p f (set_stack st1 r)
  | W_loop st p f st1 z r st2 st3 : callv st p st1 -> st_stack st1 = VInt z :: r -> (0 < z)%Z ->
      callv (set_stack st1 r) f st2 -> whilerel st2 p f st3 -> whilerel st p f st3.

  Scheme bigsteps_ind' := Minimality for bigsteps Sort Prop
    with bigstep_ind' := Minimality for bigstep Sort Prop
    with callv_ind' := Minimality for callv Sort Prop
    with whilerel_ind' := Minimality for whilerel Sort Prop.
  Combined Scheme bigstep_mutind from bigsteps_ind', bigstep_ind', callv_ind', whilerel_ind'.
End Sem.

(* what the model's one-step function says a code-free built-in does *)
Definition model_simple (fmt_name : str -> str -> res str) (cw : char -> Z) : builtin -> state -> state -> Prop :=
  fun b st st' => builtin_step fmt_name cw no_rec no_wh b st = Ok st'.
