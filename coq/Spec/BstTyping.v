(* Spec/BstTyping.v -- a type checker for the generated program family (an abstract interpreter over
   value kinds): integers, strings (a missing field is one), function literals, quoted variables.
   [check] follows user-function calls and the literals consumed by if$ / while$; it is a plain
   computable function, so "this program is well-typed" is decided by evaluation.
   call.type$ is checked for every entry type of the database ([tys]): the type's function -- or default.type,
   or nothing -- must preserve the stack shape.
   Not accepted (the checker answers None): top$/stack$/int.to.str$ on anything but integers and strings
   (Python would print the repr of an interpreter object), mixed-kind comparisons. *)
From Pybtex Require Import Base.Prelude Base.PyChar Base.PyStr Model.BibtexStr Model.Wrap Model.Bst.
Local Open Scope Z_scope.

Inductive aval :=
| AInt                       (* some integer *)
| AIntK (z : Z)              (* this integer *)
| AStr                       (* a string or a missing field *)
| AFn (body : list instr)    (* this function literal *)
| ARef (name : str).         (* 'name *)

Definition is_aint (a : aval) : bool := match a with AInt | AIntK _ => true | _ => false end.
Definition is_astr (a : aval) : bool := match a with AStr => true | _ => false end.

Definition aval_eqb (a b : aval) : bool :=
  match a, b with
  | AInt, AInt | AStr, AStr => true
  | AIntK x, AIntK y => Z.eqb x y
  | AFn p, AFn q => instrs_eqb p q
  | ARef n, ARef m => str_eqb n m
  | _, _ => false
  end.
(* two branches agree up to forgetting which integer it is *)
Definition weaken (a : aval) : aval := match a with AIntK _ => AInt | _ => a end.
Fixpoint stack_eqb (s t : list aval) : bool :=
  match s, t with
  | [], [] => true
  | a :: s', b :: t' => aval_eqb (weaken a) (weaken b) && stack_eqb s' t'
  | _, _ => false
  end.

Section Check.
  Variable G : list (str * obj).      (* interpreter.vars when the program starts *)
  Variable ent : bool.                (* running under ITERATE / REVERSE, after READ *)
  Variable tys : list str.            (* the entry types that occur in the database *)

  (* one built-in, given how to check code popped from the stack *)
  Definition branch_ok (o : option (list aval)) (r : list aval) : bool :=
    match o with Some s2 => stack_eqb s2 r | None => false end.

  Definition check_builtin (call : list aval -> aval -> option (list aval))
             (cid : list aval -> str -> option (list aval)) (b : builtin) (s : list aval)
    : option (list aval) :=
    match b, s with
    | (B_gt | B_lt), x :: y :: r =>        (* integers only, as in BibTeX (Python would also compare strings) *)
      if is_aint x && is_aint y then Some (AInt :: r) else None
    | B_eq, x :: y :: r =>
      if (is_aint x && is_aint y) || (is_astr x && is_astr y) then Some (AInt :: r) else None
    | B_concat, x :: y :: r => if is_astr x && is_astr y then Some (AStr :: r) else None
    | (B_plus | B_minus), x :: y :: r => if is_aint x && is_aint y then Some (AInt :: r) else None
    | B_assign, ARef n :: v :: r =>
      match alookup str_eqb n G with
      | Some (OInt _) => if is_aint v then Some r else None
      | Some (OStr _) => if is_astr v then Some r else None
      | Some (OEInt _) => if ent && is_aint v then Some r else None
      | Some (OEStr _) => if ent && is_astr v then Some r else None
      | _ => None
      end
    | B_add_period, x :: r => if is_astr x then Some (AStr :: r) else None
    | B_change_case, m :: x :: r => if is_astr m && is_astr x then Some (AStr :: r) else None
    | B_chr_to_int, x :: r => if is_astr x then Some (AInt :: r) else None
    | B_cite, r => if ent then Some (AStr :: r) else None
    | B_call_type, r =>
      (* whichever entry type the current entry has: its function (or default.type, or nothing) must leave the
         stack as it found it *)
      let r' := map weaken r in
      if ent && forallb (fun t =>
                  match vlookup t G with
                  | Some _ => branch_ok (cid r' t) r'
                  | None => match vlookup nm_default_type G with
                            | Some _ => branch_ok (cid r' nm_default_type) r'
                            | None => true
                            end
                  end) tys
      then Some r' else None
    | B_stack, r => if forallb (fun a => is_aint a || is_astr a) r then Some [] else None
    | B_duplicate, x :: r => Some (x :: x :: r)
    | B_empty, x :: r => if is_astr x then Some (AInt :: r) else None
    | B_format_name, f :: n :: x :: r => if is_astr f && is_aint n && is_astr x then Some (AStr :: r) else None
    | B_if, f1 :: f2 :: c :: r =>
      if is_aint c then
        match call r f1, call r f2 with
        | Some s1, Some s2 => if stack_eqb s1 s2 then Some (map weaken s1) else None
        | _, _ => None
        end
      else None
    | B_int_to_chr, x :: r => if is_aint x then Some (AStr :: r) else None
    | B_int_to_str, x :: r => if is_aint x then Some (AStr :: r) else None
    | B_missing, x :: r => if is_astr x then Some (AInt :: r) else None
    | B_newline, r => Some r
    | B_num_names, x :: r => if is_astr x then Some (AInt :: r) else None
    | B_pop, _ :: r => Some r
    | B_preamble, r => if ent then Some (AStr :: r) else None
    | B_purify, x :: r => if is_astr x then Some (AStr :: r) else None
    | B_quote, r => Some (AStr :: r)
    | B_skip, r => Some r
    | B_substring, l :: st :: x :: r => if is_aint l && is_aint st && is_astr x then Some (AStr :: r) else None
    | B_swap, x :: y :: r => Some (y :: x :: r)
    | B_text_length, x :: r => if is_astr x then Some (AInt :: r) else None
    | B_text_prefix, n :: x :: r => if is_aint n && is_astr x then Some (AStr :: r) else None
    | B_top, x :: r => if is_aint x || is_astr x then Some r else None
    | B_type, r => if ent then Some (AStr :: r) else None
    | B_warning, x :: r => if is_astr x then Some r else None
    | B_while, f :: p :: r =>
      (* the condition leaves exactly one more integer, the body leaves the stack as it was; nothing is
         assumed about which integers are below *)
      let r' := map weaken r in
      match call r' p with
      | Some (c :: s1) =>
        if is_aint c && stack_eqb s1 r' then
          match call r' f with
          | Some s2 => if stack_eqb s2 r' then Some r' else None
          | None => None
          end
        else None
      | _ => None
      end
    | B_width, x :: r => if is_astr x then Some (AInt :: r) else None
    | B_write, x :: r => if is_astr x then Some r else None
    | _, _ => None
    end.

  Fixpoint check (fuel : nat) (s : list aval) (p : list instr) {struct fuel} : option (list aval) :=
    match p with
    | [] => Some s
    | i :: rest =>
      match fuel with
      | O => None
      | S f =>
        let call := fun (s : list aval) (a : aval) =>
                      match a with
                      | AFn body => check f s body
                      | ARef n => check f s [IId n]
                      | _ => None
                      end in
        let r :=
          match i with
          | IInt z => Some (AIntK z :: s)
          | IStr _ => Some (AStr :: s)
          | IFun body => Some (AFn body :: s)
          | IQuote name =>
            match vlookup name G with
            | Some (OFun body) => Some (AFn body :: s)
            | Some _ => Some (ARef (lower name) :: s)
            | None => None
            end
          | IId name =>
            match vlookup name G with
            | Some (OFun body) => check f s body
            | Some (OInt _) => Some (AInt :: s)
            | Some (OStr _) => Some (AStr :: s)
            | Some (OEInt _) => if ent then Some (AInt :: s) else None
            | Some (OEStr _) | Some (OField _) | Some OCrossref => if ent then Some (AStr :: s) else None
            | Some (OBuiltin b) => check_builtin call (fun s n => check f s [IId n]) b s
            | None => None
            end
          end in
        match r with
        | Some s' => check f s' rest
        | None => None
        end
      end
    end.
End Check.

(* the context itself must be sane: variables hold values of their kind, and no entry-variable name is
   declared both as an integer and as a string *)
Definition obj_ok (o : obj) : bool :=
  match o with
  | OInt (VInt _) => true
  | OInt _ => false
  | OStr (VStr _) | OStr (VMissing _) => true
  | OStr _ => false
  | _ => true
  end.
Definition evar_clash (G : list (str * obj)) : bool :=
  existsb (fun p => match snd p with
                    | OEInt n => existsb (fun q => match snd q with OEStr m => str_eqb n m | _ => false end) G
                    | _ => false
                    end) G.
Definition ctx_ok (G : list (str * obj)) : bool := forallb (fun p => obj_ok (snd p)) G && negb (evar_clash G).
