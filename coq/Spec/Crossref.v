(* Spec/Crossref.v -- what "the value of a field along the cross-reference chain" means,
   written without looking at how Entry._find_field computes it (no visited set, no fuel
   of its own: the chain is followed for as many hops as asked). *)
From Pybtex Require Import Base.Prelude Base.PyChar Base.PyStr Model.Crossref.

(* what an entry defines by itself: a field of that name, else a person role of that name
   (its persons joined by " and ") *)
Definition defines (e : entry) (f : str) : option str :=
  match ci_get (e_fields e) f with
  | Some v => Some v
  | None => match ci_get (e_persons e) f with
            | Some ps => Some (join s_and ps)
            | None => None
            end
  end.

(* the entry its crossref field names, if it has one and the database has that key *)
Definition parent (d : db) (e : entry) : option entry :=
  match ci_get (e_fields e) s_crossref with
  | None => None
  | Some cr => ci_get d cr
  end.

(* the k-th entry along the chain e, parent e, parent (parent e), ... *)
Fixpoint ancestor (d : db) (k : nat) (e : entry) : option entry :=
  match k with
  | O => Some e
  | S k' => match parent d e with None => None | Some p => ancestor d k' p end
  end.

(* value defined by the first of the entries e = ancestor 0, ..., ancestor n that defines f *)
Fixpoint chain_find (n : nat) (d : db) (e : entry) (f : str) : option str :=
  match defines e f with
  | Some v => Some v
  | None => match n with
            | O => None
            | S n' => match parent d e with
                      | None => None
                      | Some p => chain_find n' d p f
                      end
            end
  end.

(* object identity: among the entries of the database and the start entry, the same
   identity means the same object (hence the same content) *)
Definition ids_wf (d : db) (e0 : entry) : Prop :=
  forall x y, In x (e0 :: map snd d) -> In y (e0 :: map snd d) -> e_id x = e_id y -> x = y.
