(* Spec/Names.v -- what the property text of C04 refers to, written without looking at how pybtex
   computes it: the comma parts of the three BibTeX name forms, the brace level of a character,
   the case of a token ("its first brace-level-0 letter or special character"), and the
   brace-level tokenizer.  No proofs here. *)
From Pybtex Require Import Base.Prelude Base.PyChar Base.PyStr Model.NamesUni.

(* ---- the comma parts: "von Last, First" has two, "von Last, Jr, First" three; with more commas
        everything after the second comma counts as the First part (re-joined with single spaces) ---- *)
Definition jr_part (parts : list str) : str := if Nat.eqb (length parts) 2 then [] else nth 1 parts [].
Definition first_part (parts : list str) : str :=
  if Nat.eqb (length parts) 2 then nth 1 parts [] else join [c_space] (skipn 2 parts).

(* ---- brace level: '{' opens, '}' closes (a '}' at level 0 is an ordinary character) ---- *)
Definition bl_step (d : nat) (c : char) : nat :=
  if N.eqb c c_lbrace then S d else if N.eqb c c_rbrace then pred d else d.
Definition brace_level_after (s : str) : nat := fold_left bl_step s 0.
(* every opened brace is closed again *)
Definition closed (s : str) : Prop := brace_level_after s = 0.

(* ---- the case of a token ---- (letters and their case: the table-driven classes of Model/NamesUni.v =
   Python's str.isalpha/islower; a caseless letter -- Hebrew, CJK ... -- is a letter that is not lowercase)
   A special character is a '{' at brace level 0 immediately followed by a backslash; it extends
   to the matching '}' (or to the end of the token).  Its case is that of the first letter after
   its control sequence (backslash + letters, or backslash + one non-letter). *)
Fixpoint special_body (s : str) (d : nat) : str :=    (* the text up to the brace that closes the special character *)
  match s with
  | [] => []
  | c :: t =>
    if N.eqb c c_lbrace then c :: special_body t (S d)
    else if N.eqb c c_rbrace then match d with O => [] | S d' => c :: special_body t d' end
    else c :: special_body t d
  end.
Fixpoint first_letter_lower (s : str) : bool :=
  match s with [] => false | c :: t => if uni_is_alpha c then uni_is_lower c else first_letter_lower t end.
Fixpoint skip_control_word (s : str) : str :=
  match s with [] => [] | c :: t => if uni_is_alpha c then skip_control_word t else t end.
(* [body] starts with the backslash *)
Definition special_is_lower (body : str) : bool := first_letter_lower (skip_control_word (skipn 1 body)).

(* Some true = lowercase, Some false = uppercase, None = caseless *)
Fixpoint token_case (s : str) (d : nat) : option bool :=
  match s with
  | [] => None
  | c :: t =>
    if N.eqb c c_lbrace then
      match d, t with
      | O, b :: _ => if N.eqb b c_bslash then Some (special_is_lower (special_body t 0)) else token_case t (S d)
      | _, _ => token_case t (S d)
      end
    else if N.eqb c c_rbrace then token_case t (pred d)
    else match d with
         | O => if uni_is_alpha c then Some (uni_is_lower c) else token_case t d
         | _ => token_case t d
         end
  end.
(* a "von" token is a lowercase token *)
Definition spec_is_von (tok : str) : bool := match token_case tok 0 with Some b => b | None => false end.

(* ---- the separator characters of a name: whitespace, tie, comma, and the backslash (of a control
        space); [content] is what is left of a string when they are removed ---- *)
Definition name_sep (c : char) : bool :=
  is_space c || N.eqb c c_tilde || N.eqb c c_bslash || N.eqb c c_comma.
Definition content (s : str) : str := filter (fun c => negb (name_sep c)) s.

(* ---- no whitespace at brace level 0: all characters of [s] met at brace level 0 (starting at level d)
        are not whitespace ---- *)
Definition nospace (c : char) : bool := negb (is_space c).
Fixpoint l0ok (s : str) (d : nat) : bool :=
  match s with
  | [] => true
  | c :: t => (match d with O => nospace c | _ => true end) && l0ok t (bl_step d c)
  end.

(* ---- the tokenizer of the property text: "split into tokens at brace-level-0 whitespace and ties".
   One pass over the characters with the brace level [d], whether the previous character was a
   backslash [pb], and the current token [cur] (reversed).  At brace level 0 a separator character
   ends the current token and is dropped: a whitespace character, a tie '~' that is not escaped by a
   preceding backslash, and the backslash of a control space "\ " (the space after it is whitespace
   anyway).  Everything else, and everything at brace level > 0, belongs to the current token. ---- *)
Definition flush (cur : str) (rest : list str) : list str :=
  match cur with [] => rest | _ :: _ => rev cur :: rest end.
Definition is_sep_at (pb : bool) (c : char) (next : option char) : bool :=
  is_space c
  || (N.eqb c c_tilde && negb pb)
  || (N.eqb c c_bslash && match next with Some n => N.eqb n c_space | None => false end).
Fixpoint spec_tok (s : str) (d : nat) (pb : bool) (cur : str) : list str :=
  match s with
  | [] => flush cur []
  | c :: t =>
    if Nat.eqb d 0 && is_sep_at pb c (hd_error t)
    then flush cur (spec_tok t 0 (N.eqb c c_bslash) [])
    else spec_tok t (bl_step d c) (N.eqb c c_bslash) (c :: cur)
  end.
Definition spec_tokens (s : str) : list str := spec_tok s 0 false [].

(* ---- the comma parts of a name: the pieces of the string between its brace-level-0 commas (one pass with
   the brace level [d] and the current piece [cur], reversed; every level-0 comma ends a piece -- also an
   empty one -- and nothing else does), and the number of those commas ---- *)
Fixpoint spec_cp (s : str) (d : nat) (cur : str) : list str :=
  match s with
  | [] => [rev cur]
  | c :: t =>
    if Nat.eqb d 0 && N.eqb c c_comma then rev cur :: spec_cp t 0 []
    else spec_cp t (bl_step d c) (c :: cur)
  end.
Definition spec_comma_pieces (s : str) : list str := spec_cp s 0 [].
Fixpoint level0_commas_from (s : str) (d : nat) : nat :=
  match s with
  | [] => 0
  | c :: t => if Nat.eqb d 0 && N.eqb c c_comma then S (level0_commas_from t 0) else level0_commas_from t (bl_step d c)
  end.
Definition level0_commas (s : str) : nat := level0_commas_from s 0.
