(* Spec/BstPrint.v -- the printer the property's "printing any program and parsing it back"
   refers to.  Written without looking at how pybtex parses: a program is flattened to its
   lexical tokens, and a layout (one gap string per position: before the first token, between
   consecutive tokens, after the last) is woven between them.  No proofs here. *)
From Pybtex Require Import Base.Prelude Base.PyChar Base.PyStr Model.BstParser.
Local Open Scope N_scope.

(* lexical tokens *)
Inductive ltok := LName (s : str) | LStr (s : str) | LInt (z : Z) | LL | LR.

(* decimal digits of a natural number, most significant first *)
Fixpoint digits_fuel (fuel : nat) (n : N) (acc : str) : str :=
  match fuel with
  | O => acc
  | S f =>
    let acc' := (48 + n mod 10) :: acc in
    if n / 10 =? 0 then acc' else digits_fuel f (n / 10) acc'
  end.
Definition N_digits (n : N) : str := digits_fuel (S (N.to_nat (N.log2 n))) n [].
Definition int_text (z : Z) : str :=
  c_hash :: (if (z <? 0)%Z then [c_hyphen] else []) ++ N_digits (Z.abs_N z).

Definition ltok_text (t : ltok) : str :=
  match t with
  | LName s => s
  | LStr s => c_quote :: s ++ [c_quote]
  | LInt z => int_text z
  | LL => [c_lbrace]
  | LR => [c_rbrace]
  end.

Fixpoint flat_tok (t : tok) : list ltok :=
  match t with
  | TInt z => [LInt z]
  | TStr s => [LStr s]
  | TQuote s => [LName (39 :: s)]
  | TId s => [LName s]
  | TFun body => LL :: flat_map flat_tok body ++ [LR]
  end.
Definition flat_group (g : list tok) : list ltok := LL :: flat_map flat_tok g ++ [LR].
Definition flat_command (c : command) : list ltok := LName (fst c) :: flat_map flat_group (snd c).
Definition flat_program (p : program) : list ltok := flat_map flat_command p.

(* weaving: gap, token, gap, token ... gap.  A layout that is too short is continued with
   single spaces (and an empty final gap). *)
Definition default_gap : str := [c_space].
Definition gap_hd (gs : list str) : str := match gs with g :: _ => g | [] => default_gap end.
Fixpoint weave (gs : list str) (ts : list ltok) : str :=
  match ts with
  | [] => match gs with g :: _ => g | [] => [] end
  | t :: ts' => gap_hd gs ++ ltok_text t ++ weave (tl gs) ts'
  end.

Definition print_bst (gaps : list str) (p : program) : str := weave gaps (flat_program p).
