(* Spec/BstPrint.v -- the printer the property's "printing any program and parsing it back"
   refers to.  Written without looking at how pybtex parses: a program is flattened to its
   lexical tokens, and a layout (one gap string per position: before the first token, between
   consecutive tokens, after the last) is woven between them.  No proofs here. *)
From Pybtex Require Import Base.Prelude Base.PyChar Base.PyStr Model.BstParser.
Local Open Scope N_scope.

(* lexical tokens *)
Inductive ltok := LName (s : str) | LStr (s : str) | LInt (z : Z) | LL | LR.

(* decimal digits of a natural number, most significant first *)
Fixpoint digits_fuel (fuel : nat) (n : N) (acc : str) : str :=
  match fuel with
  | O => acc
  | S f =>
    let acc' := (48 + n mod 10) :: acc in
    if n / 10 =? 0 then acc' else digits_fuel f (n / 10) acc'
  end.
Definition N_digits (n : N) : str := digits_fuel (S (N.to_nat (N.log2 n))) n [].
Definition int_text (z : Z) : str :=
  c_hash :: (if (z <? 0)%Z then [c_hyphen] else []) ++ N_digits (Z.abs_N z).

Definition ltok_text (t : ltok) : str :=
  match t with
  | LName s => s
  | LStr s => c_quote :: s ++ [c_quote]
  | LInt z => int_text z
  | LL => [c_lbrace]
  | LR => [c_rbrace]
  end.

Fixpoint flat_tok (t : tok) : list ltok :=
  match t with
  | TInt z => [LInt z]
  | TStr s => [LStr s]
  | TQuote s => [LName (39 :: s)]
  | TId s => [LName s]
  | TFun body => LL :: flat_map flat_tok body ++ [LR]
  end.
Definition flat_group (g : list tok) : list ltok := LL :: flat_map flat_tok g ++ [LR].
Definition flat_command (c : command) : list ltok := LName (fst c) :: flat_map flat_group (snd c).
Definition flat_program (p : program) : list ltok := flat_map flat_command p.

(* weaving: gap, token, gap, token ... gap.  A layout that is too short is continued with
   single spaces (and an empty final gap). *)
Definition default_gap : str := [c_space].
Definition gap_hd (gs : list str) : str := match gs with g :: _ => g | [] => default_gap end.
Fixpoint weave (gs : list str) (ts : list ltok) : str :=
  match ts with
  | [] => match gs with g :: _ => g | [] => [] end
  | t :: ts' => gap_hd gs ++ ltok_text t ++ weave (tl gs) ts'
  end.

Definition print_bst (gaps : list str) (p : program) : str := weave gaps (flat_program p).

(* ------------------------------------------------------------------------------------------- *)
(* the programs and layouts the round-trip statement is about (boolean, so that Examples can be
   checked by computation) *)

(* a name: non-empty, no whitespace, no hash, double quote or brace *)
Definition wf_nameb (s : str) : bool := match s with [] => false | _ => forallb is_name_char s end.
Definition digits_okb (z : Z) : bool := (Z.of_nat (length (N_digits (Z.abs_N z))) <=? max_str_digits)%Z.
Fixpoint wf_tokb (t : tok) : bool :=
  match t with
  | TInt z => digits_okb z                                   (* at most 4300 digits *)
  | TStr s => forallb not_quote s                            (* no double quote *)
  | TQuote s => forallb is_name_char s
  | TId s => wf_nameb s && negb (hd 0 s =? 39)               (* does not start with an apostrophe *)
  | TFun body => forallb wf_tokb body
  end.
(* a command: one of the ten names in any case, with exactly as many groups as its arity *)
Definition wf_commandb (c : command) : bool :=
  wf_nameb (fst c)
  && match arity (fst c) with Some n => Nat.eqb n (length (snd c)) | None => false end
  && forallb (forallb wf_tokb) (snd c).
Definition wf_programb (p : program) : bool := forallb wf_commandb p.

(* a layout: every gap is whitespace (any of Python's 29 whitespace characters, so any mixture of
   blanks, tabs and LF / CR / CRLF line ends), and a name is separated from a preceding name or
   integer by at least one character *)
Definition needs_gap (prev : option ltok) (t : ltok) : bool :=
  match prev, t with
  | Some (LName _), LName _ | Some (LInt _), LName _ => true
  | _, _ => false
  end.
Definition is_nil (g : str) : bool := match g with [] => true | _ => false end.
Fixpoint layout_okb (prev : option ltok) (gs : list str) (ts : list ltok) : bool :=
  match ts with
  | [] => forallb is_space (match gs with g :: _ => g | [] => [] end)
  | t :: ts' =>
    forallb is_space (gap_hd gs) && (negb (needs_gap prev t) || negb (is_nil (gap_hd gs)))
    && layout_okb (Some t) (tl gs) ts'
  end.

(* ------------------------------------------------------------------------------------------- *)
(* source-level layouts: gaps may also contain %-comments and every kind of line end.
   A gap is a list of items; a comment runs to a line end. *)
Inductive brk := BrCRLF | BrCR | BrChar (c : char).      (* c: a line-break character other than CR *)
Inductive gitem := GWs (c : char) | GBrk (b : brk) | GCom (cm : str) (b : brk).
Definition sgap := list gitem.

Definition brk_text (b : brk) : str := match b with BrCRLF => [13; 10] | BrCR => [13] | BrChar c => [c] end.
Definition gitem_text (i : gitem) : str :=
  match i with
  | GWs c => [c]
  | GBrk b => brk_text b
  | GCom cm b => c_percent :: cm ++ brk_text b
  end.
Definition sgap_text (g : sgap) : str := flat_map gitem_text g.

Definition brk_okb (b : brk) : bool :=
  match b with BrCRLF | BrCR => true | BrChar c => is_linebreak c && negb (c =? 13) end.
(* a bare CR must not be directly followed by LF (that would be a CRLF) *)
Definition ends_cr (i : gitem) : bool := match i with GBrk BrCR | GCom _ BrCR => true | _ => false end.
Definition starts_lf (items : list gitem) : bool :=
  match items with GBrk (BrChar c) :: _ => c =? 10 | _ => false end.
Fixpoint cr_okb (items : list gitem) : bool :=
  match items with
  | [] => true
  | i :: r => negb (ends_cr i && starts_lf r) && cr_okb r
  end.
Definition gitem_okb (i : gitem) : bool :=
  match i with
  | GWs c => is_space c && negb (is_linebreak c)             (* blank, tab, no-break space ... *)
  | GBrk b => brk_okb b                                      (* LF, CRLF, CR, VT, FF, FS, GS, RS, NEL, LS, PS *)
  | GCom cm b => forallb (fun c => negb (is_linebreak c)) cm && brk_okb b   (* any text without a line end *)
  end.
Definition default_sgap : sgap := [GWs c_space].
Definition sgap_hd (gs : list sgap) : sgap := match gs with g :: _ => g | [] => default_sgap end.
Fixpoint slayout_okb (prev : option ltok) (gs : list sgap) (ts : list ltok) : bool :=
  match ts with
  | [] => let g := match gs with g :: _ => g | [] => [] end in forallb gitem_okb g && cr_okb g
  | t :: ts' =>
    forallb gitem_okb (sgap_hd gs) && cr_okb (sgap_hd gs)
    && (negb (needs_gap prev t) || negb (match sgap_hd gs with [] => true | _ => false end))
    && slayout_okb (Some t) (tl gs) ts'
  end.

(* what the source level adds to wf_programb: a percent sign would start a comment inside a name,
   and a string literal must stay on its line *)
Definition no_percent (s : str) : bool := forallb (fun c => negb (c =? c_percent)) s.
Definition no_linebreak (s : str) : bool := forallb (fun c => negb (is_linebreak c)) s.
Fixpoint src_tokb (t : tok) : bool :=
  match t with
  | TInt _ => true
  | TStr s => no_linebreak s
  | TQuote s | TId s => no_percent s
  | TFun body => forallb src_tokb body
  end.
Definition src_programb (p : program) : bool :=
  forallb (fun c : command => no_percent (fst c) && forallb (forallb src_tokb) (snd c)) p.

(* layouts for which a text STREAM sees the same lines as parse_string's splitlines as far as
   comments are concerned: every comment is closed by LF or CRLF (a stream splits at LF only, so a
   comment closed by CR, VT, FF ... would run on to the next LF) *)
Definition stream_item_okb (i : gitem) : bool :=
  match i with
  | GCom _ BrCRLF => true
  | GCom _ (BrChar c) => c =? 10
  | GCom _ BrCR => false
  | _ => true
  end.
Definition stream_gaps_okb (gs : list sgap) : bool := forallb (forallb stream_item_okb) gs.

(* ... and for a FILE (universal newlines: CRLF and CR become LF before the lines are split): every
   comment is closed by LF, CRLF or CR *)
Definition file_item_okb (i : gitem) : bool :=
  match i with GCom _ (BrChar c) => c =? 10 | _ => true end.
Definition file_gaps_okb (gs : list sgap) : bool := forallb (forallb file_item_okb) gs.
