(* Model/EntryPoints.v -- the reader / writer entry points as compositions:
     pybtex/database/input/__init__.py:34-82   BaseParser.parse_file / parse_files / parse_string / parse_bytes
     pybtex/database/output/__init__.py:30-58  BaseWriter.write_file / _to_string_or_bytes / to_string / to_bytes
     pybtex/database/__init__.py:316-364, 929-974  BibliographyData.to_string / to_bytes / to_file,
                                                    parse_file / parse_string / parse_bytes
   over an abstract plug-in (its parse_stream / write_stream and its unicode_io flag), a codec
   (str.encode / bytes.decode for self.encoding) and the registry of Model/Plugins.v.
   Concrete codecs (UTF-8, Latin-1, ASCII) are given for the extracted runner.  No proofs here. *)
From Pybtex Require Import Base.Prelude Base.PyChar Base.PyStr Model.Plugins Model.IO.

(* what a stream yields on read(): text (code points) or bytes *)
Inductive stream := SText (t : str) | SBytes (b : str).

(* reading a whole text file opened with the codec (an incremental decoder): the text, a
   UnicodeDecodeError, or another exception ('utf-16' insists on a byte-order mark there:
   UnicodeError "UTF-16 stream does not start with BOM") *)
Inductive fdres := FText (t : str) | FDecodeError | FOtherError.
(* a codec: None = UnicodeEncodeError / UnicodeDecodeError *)
Record codec := { enc : str -> option str; dec : str -> option str; fdec : str -> fdres }.
Definition fdec_of_dec (dec : str -> option str) (b : str) : fdres :=
  match dec b with Some t => FText t | None => FDecodeError end.

(* universal newlines of a text file opened for reading with newline=None:
   "\r\n" and "\r" become "\n" *)
Fixpoint universal_newlines (s : str) : str :=
  match s with
  | [] => []
  | c :: t =>
    if N.eqb c 13 then
      match t with
      | d :: t' => if N.eqb d 10 then 10%N :: universal_newlines t' else 10%N :: universal_newlines t
      | [] => [10%N]
      end
    else c :: universal_newlines t
  end.

Definition cls_pybtex : N := 3.     (* a plain PybtexError (io._open, UnicodeDecodeError in parse_file) *)

(* what parse_file / write_file is handed, after pybtex.io._open has run *)
Inductive fsrc :=
| FStream (s : stream)      (* a file-like object passed by the caller: used as it is *)
| FOpened (content : str)   (* a named file that could be opened; its bytes *)
| FOpenErr                  (* _open raised PybtexError *)
| FOpenCrash.               (* _open let a foreign exception through *)

Section Reader.
  Variable db : Type.
  (* the plug-in's parse_stream(stream): reads the stream, updates self.data and returns it *)
  Variable ps : stream -> db -> res db.
  Variable cd : codec.
  Variable unicode_io : bool.

  (* input/__init__.py:46-56 parse_file.  A text file decodes lazily, inside parse_stream:
     the UnicodeDecodeError is turned into a PybtexError there. *)
  Definition parse_file (f : fsrc) (data : db) : res db :=
    match f with
    | FStream s => ps s data
    | FOpenErr => PyErr cls_pybtex (-1)
    | FOpenCrash => Crash
    | FOpened content =>
      if unicode_io then
        match fdec cd content with
        | FDecodeError => PyErr cls_pybtex (-1)
        | FOtherError => Crash
        | FText t => ps (SText (universal_newlines t)) data
        end
      else ps (SBytes content) data
    end.

  (* input/__init__.py:58-61 parse_files: the same parser object reads every file *)
  Fixpoint parse_files (fs : list fsrc) (data : db) : res db :=
    match fs with
    | [] => Ok data
    | f :: rest => do d <- parse_file f data; parse_files rest d
    end.

  (* input/__init__.py:63-70 parse_string / 72-79 parse_bytes (mutually recursive in the
     source; each calls the other at most once) *)
  Definition parse_string (value : str) (data : db) : res db :=
    if unicode_io then ps (SText value) data
    else match enc cd value with
         | None => Crash                         (* UnicodeEncodeError *)
         | Some b => ps (SBytes b) data
         end.
  Definition parse_bytes (value : str) (data : db) : res db :=
    if unicode_io then
      match dec cd value with
      | None => Crash                            (* UnicodeDecodeError, not converted here *)
      | Some t => ps (SText t) data
      end
    else ps (SBytes value) data.
End Reader.

(* where write_file writes *)
Inductive wdst :=
| WStream (text : bool)    (* a file-like object of the caller (io.StringIO / io.BytesIO) *)
| WOpened                  (* a named file that could be opened ('w' resp. 'wb') *)
| WOpenErr | WOpenCrash.

Section Writer.
  Variable wd : Type.
  (* the plug-in's write_stream(bib_data, stream): the chunks it passes to stream.write, in
     order, for a text (true) or binary (false) stream.  The chunks matter: a text file that
     is never written to stays empty, while encoding the empty document may yield a
     byte-order mark. *)
  Variable ws : bool -> wd -> res (list str).
  Variable cd : codec.
  Variable unicode_io : bool.

  (* output/__init__.py:47-50 _to_string_or_bytes: io.StringIO / io.BytesIO .getvalue() *)
  Definition to_string_or_bytes (d : wd) : res str := do cs <- ws unicode_io d; Ok (concat cs).
  (* output/__init__.py:52-54 to_string *)
  Definition to_string (d : wd) : res str :=
    do r <- to_string_or_bytes d;
    if unicode_io then Ok r
    else match dec cd r with Some t => Ok t | None => Crash end.
  (* output/__init__.py:56-58 to_bytes *)
  Definition to_bytes (d : wd) : res str :=
    do r <- to_string_or_bytes d;
    if unicode_io then match enc cd r with Some b => Ok b | None => Crash end
    else Ok r.

  (* what a text file opened with self.encoding contains after the chunks were written:
     io.TextIOWrapper encodes incrementally (a byte-order mark once, with the first write,
     even of an empty string); without any write nothing reaches the file *)
  Definition text_file_bytes (cs : list str) : option str :=
    match cs with
    | [] => Some []
    | _ => enc cd (concat cs)
    end.

  (* output/__init__.py:36-42 write_file: (return value, bytes or text that reached the
     destination).  A caller's stream has getvalue(): its content is returned.  (Newline
     translation of a text file is the identity on POSIX.) *)
  Definition write_file (d : wd) (dst : wdst) : res (option stream * option stream) :=
    match dst with
    | WOpenErr => PyErr cls_pybtex (-1)
    | WOpenCrash => Crash
    | WStream text =>
      do cs <- ws text d;
      let s := if text then SText (concat cs) else SBytes (concat cs) in
      Ok (Some s, Some s)
    | WOpened =>
      do cs <- ws unicode_io d;
      if unicode_io then
        match text_file_bytes cs with
        | Some b => Ok (None, Some (SBytes b))
        | None => Crash
        end
      else Ok (None, Some (SBytes (concat cs)))
    end.
End Writer.

(* ---- database/__init__.py: the module-level functions = find_plugin + the method ---- *)
Record plugin (db : Type) := {
  p_unicode : bool;
  p_ps : stream -> db -> res db;
  p_ws : bool -> db -> res (list str)
}.
Arguments p_unicode {db}. Arguments p_ps {db}. Arguments p_ws {db}.

Definition g_input : str := Eval vm_compute in s2l "pybtex.database.input".
Definition g_output : str := Eval vm_compute in s2l "pybtex.database.output".

Section Module.
  Variable db : Type.
  Variable plugins : klass -> option (plugin db).      (* the classes that can be loaded *)
  Variable r : rt.
  Variable inst : eps.
  Variable df : dflts.
  Variable cd : codec.                                  (* the encoding keyword *)
  Variable empty : db.                                  (* BibliographyData() of a new parser *)

  Definition instantiate (group : str) (name : pname) (filename : option str) : res (plugin db) :=
    do k <- find_plugin r inst df group name filename;
    match plugins k with Some p => Ok p | None => Crash end.

  (* database/__init__.py:929-946 parse_file(file, bib_format=None): [fname] is the file itself
     when it is a str, else its .name attribute (None when absent) *)
  Definition db_parse_file (f : fsrc) (fname : option str) (bib_format : pname) : res db :=
    do p <- instantiate g_input bib_format fname;
    parse_file db (p_ps p) cd (p_unicode p) f empty.
  (* :949-960 parse_string / :963-974 parse_bytes *)
  Definition db_parse_string (value : str) (bib_format : pname) : res db :=
    do p <- instantiate g_input bib_format None;
    parse_string db (p_ps p) cd (p_unicode p) value empty.
  Definition db_parse_bytes (value : str) (bib_format : pname) : res db :=
    do p <- instantiate g_input bib_format None;
    parse_bytes db (p_ps p) cd (p_unicode p) value empty.

  (* :316-364 BibliographyData.to_string / to_bytes / to_file *)
  Definition db_to_string (d : db) (bib_format : pname) : res str :=
    do p <- instantiate g_output bib_format None;
    to_string db (p_ws p) cd (p_unicode p) d.
  Definition db_to_bytes (d : db) (bib_format : pname) : res str :=
    do p <- instantiate g_output bib_format None;
    to_bytes db (p_ws p) cd (p_unicode p) d.
  Definition db_to_file (d : db) (dst : wdst) (fname : option str) (bib_format : pname) :=
    do p <- instantiate g_output bib_format fname;
    write_file db (p_ws p) cd (p_unicode p) d dst.
End Module.

(* ---- concrete codecs for the runner ---- *)
Definition all_below (n : N) (s : str) : bool := forallb (fun c => N.ltb c n) s.
Definition codec_latin1 : codec :=
  {| enc := fun s => if all_below 256 s then Some s else None;
     dec := fun b => Some b;
     fdec := fun b => FText b |}.
Definition codec_ascii : codec :=
  {| enc := fun s => if all_below 128 s then Some s else None;
     dec := fun b => if all_below 128 b then Some b else None;
     fdec := fdec_of_dec (fun b => if all_below 128 b then Some b else None) |}.

Definition utf8_enc_char (c : N) : option str :=
  if N.ltb c 128 then Some [c]
  else if N.ltb c 2048 then Some [192 + c / 64; 128 + c mod 64]%N
  else if N.ltb c 65536 then
    if N.leb 55296 c && N.leb c 57343 then None      (* surrogates *)
    else Some [224 + c / 4096; 128 + (c / 64) mod 64; 128 + c mod 64]%N
  else if N.ltb c 1114112 then
    Some [240 + c / 262144; 128 + (c / 4096) mod 64; 128 + (c / 64) mod 64; 128 + c mod 64]%N
  else None.
Fixpoint utf8_enc (s : str) : option str :=
  match s with
  | [] => Some []
  | c :: t => match utf8_enc_char c, utf8_enc t with
              | Some a, Some b => Some (a ++ b)
              | _, _ => None
              end
  end.
Definition is_cont (b : N) : bool := N.leb 128 b && N.leb b 191.
(* strict UTF-8 as CPython decodes it: no overlong forms, no surrogates, nothing above U+10FFFF.
   One character: the code point and the remaining bytes. *)
Definition utf8_step (b0 : N) (t : str) : option (N * str) :=
  if N.ltb b0 128 then Some (b0, t)
  else if N.leb 194 b0 && N.leb b0 223 then
    match t with
    | b1 :: t1 => if is_cont b1 then Some (((b0 - 192) * 64 + (b1 - 128))%N, t1) else None
    | _ => None
    end
  else if N.leb 224 b0 && N.leb b0 239 then
    match t with
    | b1 :: b2 :: t2 =>
      if N.leb (if N.eqb b0 224 then 160 else 128) b1 && N.leb b1 (if N.eqb b0 237 then 159 else 191) && is_cont b2
      then Some (((b0 - 224) * 4096 + (b1 - 128) * 64 + (b2 - 128))%N, t2) else None
    | _ => None
    end
  else if N.leb 240 b0 && N.leb b0 244 then
    match t with
    | b1 :: b2 :: b3 :: t3 =>
      if N.leb (if N.eqb b0 240 then 144 else 128) b1 && N.leb b1 (if N.eqb b0 244 then 143 else 191)
         && is_cont b2 && is_cont b3
      then Some (((b0 - 240) * 262144 + (b1 - 128) * 4096 + (b2 - 128) * 64 + (b3 - 128))%N, t3) else None
    | _ => None
    end
  else None.
Fixpoint utf8_dec_aux (fuel : nat) (b : str) : option str :=
  match b with
  | [] => Some []
  | b0 :: t =>
    match fuel with
    | O => None
    | S f =>
      match utf8_step b0 t with
      | Some (c, rest) => option_map (cons c) (utf8_dec_aux f rest)
      | None => None
      end
    end
  end.
Definition codec_utf8 : codec :=
  {| enc := utf8_enc; dec := fun b => utf8_dec_aux (length b) b;
     fdec := fdec_of_dec (fun b => utf8_dec_aux (length b) b) |}.
(* 'utf-16': encoding writes a byte-order mark and little-endian units; decoding honours a
   byte-order mark (little-endian without one); lone surrogates are errors both ways *)
Definition is_surrogate (c : N) : bool := N.leb 55296 c && N.leb c 57343.
Definition u16_units (c : N) : option (list N) :=
  if N.ltb c 65536 then (if is_surrogate c then None else Some [c])
  else if N.ltb c 1114112 then Some [55296 + (c - 65536) / 1024; 56320 + (c - 65536) mod 1024]%N
  else None.
Fixpoint u16_enc_body (s : str) : option str :=
  match s with
  | [] => Some []
  | c :: t => match u16_units c, u16_enc_body t with
              | Some us, Some b => Some (concat (map (fun u => [u mod 256; u / 256]%N) us) ++ b)
              | _, _ => None
              end
  end.
Definition utf16_enc (s : str) : option str := option_map (fun b => 255%N :: 254%N :: b) (u16_enc_body s).
Fixpoint u16_pairs (be : bool) (b : str) : option (list N) :=
  match b with
  | [] => Some []
  | [_] => None
  | x :: y :: t => option_map (cons (if be then x * 256 + y else y * 256 + x)%N) (u16_pairs be t)
  end.
Fixpoint u16_dec_units (us : list N) : option str :=
  match us with
  | [] => Some []
  | u :: t =>
    if N.leb 55296 u && N.leb u 56319 then
      match t with
      | v :: t' => if N.leb 56320 v && N.leb v 57343
                   then option_map (cons (65536 + (u - 55296) * 1024 + (v - 56320))%N) (u16_dec_units t')
                   else None
      | [] => None
      end
    else if is_surrogate u then None
    else option_map (cons u) (u16_dec_units t)
  end.
Definition utf16_dec (b : str) : option str :=
  let '(be, body) := match b with
                     | 255%N :: 254%N :: t => (false, t)
                     | 254%N :: 255%N :: t => (true, t)
                     | _ => (false, b)
                     end in
  match u16_pairs be body with
  | Some us => u16_dec_units us
  | None => None
  end.
(* a 'utf-16' text file read in one go (stream.read(): one final call of the incremental
   decoder, encodings/utf_16.py): the data are decoded first -- invalid or truncated data are
   a UnicodeDecodeError -- and if that consumed something without finding a byte-order mark
   the decoder raises UnicodeError("UTF-16 stream does not start with BOM") *)
Definition utf16_fdec (b : str) : fdres :=
  match b with
  | 255%N :: 254%N :: _ => fdec_of_dec utf16_dec b
  | 254%N :: 255%N :: _ => fdec_of_dec utf16_dec b
  | [] => FText []
  | _ => match utf16_dec b with None => FDecodeError | Some _ => FOtherError end
  end.
Definition codec_utf16 : codec := {| enc := utf16_enc; dec := utf16_dec; fdec := utf16_fdec |}.
Definition codec_of (n : N) : codec :=
  match n with
  | 0%N => codec_utf8
  | 1%N => codec_latin1
  | 3%N => codec_utf16
  | _ => codec_ascii
  end.
