(* Model/YamlWriter.v -- pybtex/database/output/bibyaml.py:71-90: the YAML writer overrides
   to_string and to_bytes of BaseWriter (and implements write_stream) through yaml.dump, which
   is an argument here: dump_text = yaml.dump(data, None, encoding=None) (a str),
   dump_utf8 = yaml.dump(data, stream, encoding='UTF-8') (bytes).  self.encoding is never
   consulted.  No proofs here; not tied by a correspondence stream of its own: the real writer
   runs under the fn-7 oracle of harness/props/c17.py. *)
From Pybtex Require Import Base.Prelude Base.PyChar Base.PyStr Model.Plugins Model.IO Model.EntryPoints.

Section Yaml.
  Variable wd : Type.
  Variable dump_text : wd -> res str.
  Variable dump_utf8 : wd -> res str.

  (* bibyaml.py:83-84 write_stream: bytes are written, a text stream refuses them (TypeError) *)
  Definition yaml_write_stream (text : bool) (d : wd) : res (list str) :=
    do b <- dump_utf8 d; if text then Crash else Ok [b].
  (* bibyaml.py:86-87 to_string *)
  Definition yaml_to_string (d : wd) : res str := dump_text d.
  (* bibyaml.py:89-90 to_bytes *)
  Definition yaml_to_bytes (d : wd) : res str := dump_utf8 d.
  (* write_file is inherited from BaseWriter with unicode_io = False *)
  Definition yaml_write_file (cd : codec) (d : wd) (dst : wdst) := write_file wd yaml_write_stream cd false d dst.
End Yaml.

(* what the library promises: the UTF-8 dump is the text dump encoded in UTF-8 *)
Definition dump_consistent {wd} (dump_text dump_utf8 : wd -> res str) : Prop :=
  forall d, dump_utf8 d = (do t <- dump_text d; match enc codec_utf8 t with Some b => Ok b | None => Crash end).
