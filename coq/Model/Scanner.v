(* Model/Scanner.v -- pybtex/scanner.py: Scanner.skip_to / update_lineno / eat_whitespace /
   eof / get_token / optional / required, and the token patterns of
   pybtex/database/input/bibtex.py:121-133 (LowLevelParser.NAME, KEY_PAREN, KEY_BRACE,
   NUMBER and the one-character Literals).  No proofs here.

   The scanner object (text, pos, lineno) is modelled as the unread suffix of the text,
   the line counter and the position (the position is only used for error contexts). *)
From Pybtex Require Import Base.Prelude Base.PyChar Base.PyStr.
Local Open Scope N_scope.

Record sc := mkSc { sc_rest : str; sc_line : Z; sc_pos : nat }.

Definition sc_init (text : str) : sc := mkSc text 1%Z 0%nat.

(* scanner.py:85-87 update_lineno: count(LF) + count(CR) - count(CR LF) *)
Definition nl_at (c : char) (t : str) : Z :=
  if c =? 10 then 1%Z
  else if c =? 13 then match t with d :: _ => if d =? 10 then 0%Z else 1%Z | [] => 1%Z end
  else 0%Z.
Fixpoint newlines (s : str) : Z :=
  match s with
  | [] => 0%Z
  | c :: t => Z.add (nl_at c t) (newlines t)
  end.

(* self.pos = end; self.update_lineno(value) *)
Definition advance (s : sc) (value rest : str) : sc :=
  mkSc rest (sc_line s + newlines value)%Z (sc_pos s + length value)%nat.
(* get_token: self.pos = match.end() -- the line counter is NOT updated for tokens *)
Definition advance_token (s : sc) (value rest : str) : sc :=
  mkSc rest (sc_line s) (sc_pos s + length value)%nat.

(* pattern.search for a set of one-character Literals: the text up to and including the
   first character of the set, that character, the rest *)
Fixpoint find_first (p : char -> bool) (s : str) : option (str * char * str) :=
  match s with
  | [] => None
  | c :: t =>
    if p c then Some ([c], c, t)
    else match find_first p t with
         | None => None
         | Some (v, d, r) => Some (c :: v, d, r)
         end
  end.

(* scanner.py:68-83 skip_to(patterns), for patterns that are one-character Literals
   (the only use in bibtex.py): the pattern whose match ends first wins, i.e. the first
   character of the text that is one of the literals. *)
Definition skip_to (p : char -> bool) (s : sc) : option (str * char * sc) :=
  match find_first p (sc_rest s) with
  | None => None
  | Some (v, d, r) => Some (v, d, advance s v r)
  end.

Fixpoint span (p : char -> bool) (s : str) : str * str :=
  match s with
  | [] => ([], [])
  | c :: t => if p c then let (a, b) := span p t in (c :: a, b) else ([], s)
  end.

(* scanner.py:89-93 eat_whitespace: WHITESPACE = \s+ matched at pos *)
Definition eat_whitespace (s : sc) : sc :=
  let (w, r) := span is_space (sc_rest s) in advance s w r.

(* bibtex.py:101 NAME_CHARS = ascii_letters + '@!$&*+-./:;<>?[\]^_`|~\x7f' *)
Definition is_name_start (c : char) : bool :=
  is_alpha c ||
  existsb (N.eqb c) [64; 33; 36; 38; 42; 43; 45; 46; 47; 58; 59; 60; 62; 63; 91; 92; 93; 94; 95; 96; 124; 126; 127].
Definition is_name_char (c : char) : bool := is_name_start c || is_digit c.

Inductive pat := P_NAME | P_KEY_PAREN | P_KEY_BRACE | P_NUMBER | P_LIT (c : char).

Definition nonempty_span (p : char -> bool) (s : str) : option (str * str) :=
  let (v, r) := span p s in match v with [] => None | _ => Some (v, r) end.

(* pattern.match(text, pos): the matched text and the rest, None if no match *)
Definition match_pat (p : pat) (s : str) : option (str * str) :=
  match p with
  | P_NAME =>            (* [NAME_CHARS][NAME_CHARS+digits]* *)
    match s with
    | c :: t => if is_name_start c then let (v, r) := span is_name_char t in Some (c :: v, r) else None
    | [] => None
    end
  | P_KEY_PAREN => nonempty_span (fun c => negb (is_space c || (c =? c_comma))) s        (* [^\s\,]+ *)
  | P_KEY_BRACE => nonempty_span (fun c => negb (is_space c || (c =? c_comma) || (c =? c_rbrace))) s   (* [^\s\,}]+ *)
  | P_NUMBER => nonempty_span is_digit s      (* [0-9]+ *)
  | P_LIT l => match s with c :: t => if c =? l then Some ([c], t) else None | [] => None end
  end.

Fixpoint first_match (ps : list pat) (s : str) : option (pat * str * str) :=
  match ps with
  | [] => None
  | p :: r => match match_pat p s with
              | Some (v, rest) => Some (p, v, rest)
              | None => first_match r s
              end
  end.

(* scanner.py:98-112 get_token(patterns, allow_eof=False): whitespace is eaten first (and
   stays eaten whatever happens next); at end of text PrematureEOF is raised; otherwise the
   first pattern of the list that matches at pos wins; None if none matches. *)
Inductive tokres := TokEOF | TokNone | Tok (p : pat) (v : str).
Definition get_token (ps : list pat) (s : sc) : tokres * sc :=
  let s1 := eat_whitespace s in
  match sc_rest s1 with
  | [] => (TokEOF, s1)
  | _ => match first_match ps (sc_rest s1) with
         | None => (TokNone, s1)
         | Some (p, v, r) => (Tok p v, advance_token s1 v r)
         end
  end.
