(* Model/BibParser.v -- pybtex/database/input/bibtex.py: LowLevelParser (parse_bibliography,
   parse_command, parse_preamble_body, parse_string_body, parse_entry_body,
   parse_entry_fields, parse_field, parse_value, parse_value_part, flatten_string,
   substitute_macro, parse_string, get_error_context) and Parser (process_entry,
   process_preamble, flatten_value_list, handle_error, parse_string);
   pybtex/textutils.py:113-133 normalize_whitespace; pybtex/errors.py:63-75 report_error;
   pybtex/database/__init__.py:135,192-206 add_to_preamble / add_entry (wanted_entries=None).
   Mirrors /repo HEAD.  No proofs here.

   Python exceptions:  a PybtexSyntaxError travelling up the call stack is [Exc e s] (the
   parser object keeps its state [s]);  anything that leaves Parser.parse_string is [Fatal]:
   a pybtex error raised by report_error in strict mode (or raised directly), a foreign
   exception (FCrash), or the model's fuel running out (FFuel). *)
From Pybtex Require Import Base.Prelude Base.PyChar Base.PyStr Model.BibtexStr Model.Names Model.Scanner.
Local Open Scope N_scope.

(* error classes *)
Definition E_EOF : N := 1.        (* PrematureEOF *)
Definition E_TOKEN : N := 2.      (* TokenRequired *)
Definition E_NESTED : N := 3.     (* PybtexSyntaxError('too many nested braces') *)
Definition E_UNBAL : N := 4.      (* PybtexSyntaxError('unbalanced braces') *)
Definition E_UNDEF : N := 5.      (* UndefinedMacro *)
Definition E_DUPFIELD : N := 6.   (* DuplicateField *)
Definition E_REPEATED : N := 7.   (* BibliographyDataError('repeated bibliography entry') *)
Definition E_NAME : N := 8.       (* InvalidNameString *)

(* a reported error: class, lineno (-1: the error has none), and for syntax errors the
   error_context_info = (command_start, lineno, pos) captured when it was constructed *)
Record err := mkErr { e_cls : N; e_line : Z; e_pos : nat; e_start : nat }.

Inductive mode := Strict | NonStrict | Capture.
Inductive fatal := FErr (cls : N) (line : Z) | FCrash | FFuel.

(* the LowLevelParser object: scanner, macro table (CaseInsensitiveDict: lower-cased key ->
   value), the errors reported so far (oldest first), and the current_* attributes *)
Record pst := mkP {
  p_sc : sc; p_macros : list (str * str); p_errs : list err;
  p_key : option str; p_fields : list (str * list str);
  p_fname : option str; p_value : list str; p_cstart : nat }.

Definition set_sc (s : pst) (x : sc) : pst :=
  mkP x (p_macros s) (p_errs s) (p_key s) (p_fields s) (p_fname s) (p_value s) (p_cstart s).
Definition set_macros (s : pst) (x : list (str * str)) : pst :=
  mkP (p_sc s) x (p_errs s) (p_key s) (p_fields s) (p_fname s) (p_value s) (p_cstart s).
Definition add_err (s : pst) (e : err) : pst :=
  mkP (p_sc s) (p_macros s) (p_errs s ++ [e]) (p_key s) (p_fields s) (p_fname s) (p_value s) (p_cstart s).
Definition set_key (s : pst) (x : option str) : pst :=
  mkP (p_sc s) (p_macros s) (p_errs s) x (p_fields s) (p_fname s) (p_value s) (p_cstart s).
Definition set_fields (s : pst) (x : list (str * list str)) : pst :=
  mkP (p_sc s) (p_macros s) (p_errs s) (p_key s) x (p_fname s) (p_value s) (p_cstart s).
Definition set_fname (s : pst) (x : option str) : pst :=
  mkP (p_sc s) (p_macros s) (p_errs s) (p_key s) (p_fields s) x (p_value s) (p_cstart s).
Definition set_value (s : pst) (x : list str) : pst :=
  mkP (p_sc s) (p_macros s) (p_errs s) (p_key s) (p_fields s) (p_fname s) x (p_cstart s).
Definition set_cstart (s : pst) (x : nat) : pst :=
  mkP (p_sc s) (p_macros s) (p_errs s) (p_key s) (p_fields s) (p_fname s) (p_value s) x.

Inductive out (A : Type) : Type :=
| Ret (a : A) (s : pst)
| Exc (e : err) (s : pst)
| Fatal (f : fatal).
Arguments Ret {A} a s.
Arguments Exc {A} e s.
Arguments Fatal {A} f.

Definition obind {A B} (r : out A) (k : A -> pst -> out B) : out B :=
  match r with
  | Ret a s => k a s
  | Exc e s => Exc e s
  | Fatal f => Fatal f
  end.
Notation "r >>= k" := (obind r k) (at level 55, left associativity).

(* PybtexSyntaxError.__init__ (scanner.py:146-150): lineno and context info of the parser *)
Definition mk_err (cls : N) (s : pst) : err :=
  mkErr cls (sc_line (p_sc s)) (sc_pos (p_sc s)) (p_cstart s).
Definition data_err (cls : N) : err := mkErr cls (-1)%Z 0 0.

(* errors.py:43-60 print_error -> format_error -> exception.get_context(); only
   TokenRequired has one (scanner.py:170-181), computed by
   LowLevelParser.get_error_context (bibtex.py:161-174), whose only partial operation is
   before_error.splitlines()[-1]: IndexError when text[error_start:error_pos] is empty *)
Definition print_error_ok (e : err) : bool :=
  negb ((e_cls e =? E_TOKEN) && Nat.leb (e_pos e) (e_start e)).

(* Parser.handle_error = errors.report_error (errors.py:63-75): captured -> appended;
   strict -> raised (it then leaves parse_string: every handler on the way up calls
   handle_error again, which raises again); otherwise printed as a warning *)
Definition handle_error (m : mode) (e : err) (s : pst) : out unit :=
  match m with
  | Strict => Fatal (FErr (e_cls e) (e_line e))
  | NonStrict => if print_error_ok e then Ret tt (add_err s e) else Fatal FCrash
  | Capture => Ret tt (add_err s e)
  end.

(* scanner.py:114-124 optional / required *)
Definition required (ps : list pat) (s : pst) : out (pat * str) :=
  let (t, sc') := get_token ps (p_sc s) in
  let s' := set_sc s sc' in
  match t with
  | TokEOF => Exc (mk_err E_EOF s') s'
  | TokNone => Exc (mk_err E_TOKEN s') s'
  | Tok p v => Ret (p, v) s'
  end.
Definition optional (ps : list pat) (s : pst) : out (option (pat * str)) :=
  let (t, sc') := get_token ps (p_sc s) in
  let s' := set_sc s sc' in
  match t with
  | TokEOF => Exc (mk_err E_EOF s') s'
  | TokNone => Ret None s'
  | Tok p v => Ret (Some (p, v)) s'
  end.

Definition nest_limit : nat := 100.   (* parse_string(..., max_level=100) *)

(* bibtex.py:302-321 parse_string(string_end, level) with its recursion flattened into one
   loop over the level counter: the nested generators all have string_end = RBRACE, so
   the double quote is special only at level 0 of a quoted string.  Returns the concatenation of the
   parts yielded (the text consumed, closing delimiter included). *)
Fixpoint pstring (fuel : nat) (quote : bool) (level : nat) (acc : str) (s : pst) : out str :=
  match fuel with
  | O => Fatal FFuel
  | S f =>
    let special := fun c => is_lbrace c || is_rbrace c || (quote && Nat.eqb level 0 && (c =? c_quote)) in
    match skip_to special (p_sc s) with
    | None => Exc (mk_err E_EOF s) s
    | Some (v, c, sc') =>
      let s' := set_sc s sc' in
      let acc' := acc ++ v in
      if c =? c_quote then Ret acc' s'
      else if is_lbrace c then
        if Nat.ltb nest_limit (S level) then Exc (mk_err E_NESTED s') s'
        else pstring f quote (S level) acc' s'
      else
        match level with
        | O => if quote then Exc (mk_err E_UNBAL s') s' else Ret acc' s'
        | S l => pstring f quote l acc' s'
        end
    end
  end.

Fixpoint assoc_get (k : str) (l : list (str * str)) : option str :=
  match l with
  | [] => None
  | (k', v) :: r => if str_eqb k k' then Some v else assoc_get k r
  end.
Fixpoint assoc_set (k v : str) (l : list (str * str)) : list (str * str) :=
  match l with
  | [] => [(k, v)]
  | (k', v') :: r => if str_eqb k k' then (k, v) :: r else (k', v') :: assoc_set k v r
  end.

(* bibtex.py:294-300 substitute_macro (want_current_entry() is True: wanted_entries=None) *)
Definition substitute_macro (m : mode) (name : str) (s : pst) : out str :=
  match assoc_get (lower name) (p_macros s) with
  | Some v => Ret v s
  | None => handle_error m (mk_err E_UNDEF s) s >>= fun _ s' => Ret [] s'
  end.

(* bibtex.py:276-289 parse_value_part, 291-292 flatten_string ([:-1]) *)
Definition parse_value_part (m : mode) (s : pst) : out str :=
  required [P_LIT c_quote; P_LIT c_lbrace; P_NUMBER; P_NAME] s >>= fun tk s1 =>
  match fst tk with
  | P_LIT c =>
    pstring (S (length (sc_rest (p_sc s1)))) (c =? c_quote) 0 [] s1 >>= fun acc s2 => Ret (removelast acc) s2
  | P_NUMBER => Ret (snd tk) s1
  | _ => substitute_macro m (snd tk) s1
  end.

(* bibtex.py:263-274 parse_value *)
Fixpoint parse_value_loop (fuel : nat) (m : mode) (parts : list str) (s : pst) : out (list str) :=
  match fuel with
  | O => Fatal FFuel
  | S f =>
    parse_value_part m s >>= fun part s1 =>
    let parts' := parts ++ [part] in
    optional [P_LIT c_hash] s1 >>= fun h s2 =>
    match h with
    | None => Ret parts' s2
    | Some _ => parse_value_loop f m parts' s2
    end
  end.
Definition parse_value (m : mode) (s : pst) : out unit :=
  parse_value_loop (S (length (sc_rest (p_sc s)))) m [] s >>= fun parts s1 => Ret tt (set_value s1 parts).

(* bibtex.py:255-261 parse_field *)
Definition parse_field (m : mode) (s : pst) : out unit :=
  optional [P_NAME] s >>= fun name s1 =>
  match name with
  | None => Ret tt s1
  | Some tk =>
    let s2 := set_fname s1 (Some (snd tk)) in
    required [P_LIT 61] s2 >>= fun _ s3 => parse_value m s3
  end.

(* bibtex.py:244-253 parse_entry_fields *)
Fixpoint parse_entry_fields (fuel : nat) (m : mode) (s : pst) : out unit :=
  match fuel with
  | O => Fatal FFuel
  | S f =>
    parse_field m (set_value (set_fname s None) []) >>= fun _ s1 =>
    let s2 := match p_fname s1, p_value s1 with
              | Some n, _ :: _ => set_fields s1 (p_fields s1 ++ [(n, p_value s1)])
              | _, _ => s1
              end in
    optional [P_LIT c_comma] s2 >>= fun comma s3 =>
    match comma with
    | None => Ret tt s3
    | Some _ => parse_entry_fields f m s3
    end
  end.

(* bibtex.py:236-242 parse_entry_body (keyless_entries=False; want_current_entry() is True) *)
Definition parse_entry_body (m : mode) (brace : bool) (s : pst) : out unit :=
  required [if brace then P_KEY_BRACE else P_KEY_PAREN] s >>= fun tk s1 =>
  parse_entry_fields (S (length (sc_rest (p_sc s1)))) m (set_key s1 (Some (snd tk))).

(* bibtex.py:230-234 parse_string_body *)
Definition parse_string_body (m : mode) (s : pst) : out unit :=
  required [P_NAME] s >>= fun tk s1 =>
  let s2 := set_fname s1 (Some (snd tk)) in
  required [P_LIT 61] s2 >>= fun _ s3 =>
  parse_value m s3 >>= fun _ s4 =>
  Ret tt (set_macros s4 (assoc_set (lower (snd tk)) (concat (p_value s4)) (p_macros s4))).

(* bibtex.py:227-228 parse_preamble_body *)
Definition parse_preamble_body (m : mode) (s : pst) : out unit := parse_value m s.

(* what parse_command returns (make_result) *)
Inductive cmd :=
| CString (command : str) (name : option str) (value : list str)
| CPreamble (command : str) (value : list str)
| CEntry (command : str) (key : option str) (fields : list (str * list str)).

Inductive ckind := KString | KPreamble | KEntry.
Definition make_result (k : ckind) (command : str) (s : pst) : cmd :=
  match k with
  | KString => CString command (p_fname s) (p_value s)
  | KPreamble => CPreamble command (p_value s)
  | KEntry => CEntry command (p_key s) (p_fields s)
  end.

Definition kw_string := (*string*) [115; 116; 114; 105; 110; 103].
Definition kw_preamble := (*preamble*) [112; 114; 101; 97; 109; 98; 108; 101].
Definition kw_comment := (*comment*) [99; 111; 109; 109; 101; 110; 116].

(* bibtex.py:197-225 parse_command; None = SkipEntry raised (@comment) *)
Definition parse_command (m : mode) (s0 : pst) : out (option cmd) :=
  let s := set_value (set_fname (set_fields (set_key s0 None) []) None) [] in
  required [P_NAME] s >>= fun name s1 =>
  let command := snd name in
  required [P_LIT 40; P_LIT c_lbrace] s1 >>= fun bs s2 =>
  let brace := match fst bs with P_LIT c => c =? c_lbrace | _ => false end in
  let body_end := if brace then c_rbrace else 41 in
  let cl := lower command in
  if str_eqb cl kw_comment then Ret None s2
  else
    let k := if str_eqb cl kw_string then KString else if str_eqb cl kw_preamble then KPreamble else KEntry in
    let body := match k with
                | KString => parse_string_body m s2
                | KPreamble => parse_preamble_body m s2
                | KEntry => parse_entry_body m brace s2
                end in
    match body >>= (fun _ s3 => required [P_LIT body_end] s3) with
    | Ret _ s4 => Ret (Some (make_result k command s4)) s4
    | Exc e s4 => handle_error m e s4 >>= fun _ s5 => Ret (Some (make_result k command s5)) s5
    | Fatal f => Fatal f
    end.

(* bibtex.py:185-195 parse_bibliography, with the consumer of the generator
   ([proc]: what the caller does with each yielded command) run between two commands *)
Fixpoint bib_loop {D : Type} (proc : mode -> cmd -> D -> pst -> out D)
         (fuel : nat) (m : mode) (d : D) (s : pst) : out D :=
  match fuel with
  | O => Fatal FFuel
  | S f =>
    match skip_to (fun c => c =? c_at) (p_sc s) with
    | None => Ret d s
    | Some (_, _, sc') =>
      let s1 := set_cstart (set_sc s sc') (sc_pos sc' - 1) in
      match parse_command m s1 with
      | Ret None s2 => bib_loop proc f m d s2
      | Ret (Some c) s2 => proc m c d s2 >>= fun d' s3 => bib_loop proc f m d' s3
      | Exc e s2 => handle_error m e s2 >>= fun _ s3 => bib_loop proc f m d s3
      | Fatal x => Fatal x
      end
    end
  end.

(* bibtex.py:85-98 month_names, as Parser.__init__ copies it into a CaseInsensitiveDict *)
Definition month_macros : list (str * str) :=
  [((*jan*) [106; 97; 110], (*January*) [74; 97; 110; 117; 97; 114; 121]); ((*feb*) [102; 101; 98], (*February*) [70; 101; 98; 114; 117; 97; 114; 121]); ((*mar*) [109; 97; 114], (*March*) [77; 97; 114; 99; 104]);
   ((*apr*) [97; 112; 114], (*April*) [65; 112; 114; 105; 108]); ((*may*) [109; 97; 121], (*May*) [77; 97; 121]); ((*jun*) [106; 117; 110], (*June*) [74; 117; 110; 101]);
   ((*jul*) [106; 117; 108], (*July*) [74; 117; 108; 121]); ((*aug*) [97; 117; 103], (*August*) [65; 117; 103; 117; 115; 116]); ((*sep*) [115; 101; 112], (*September*) [83; 101; 112; 116; 101; 109; 98; 101; 114]);
   ((*oct*) [111; 99; 116], (*October*) [79; 99; 116; 111; 98; 101; 114]); ((*nov*) [110; 111; 118], (*November*) [78; 111; 118; 101; 109; 98; 101; 114]); ((*dec*) [100; 101; 99], (*December*) [68; 101; 99; 101; 109; 98; 101; 114])].

Definition pst_init (text : str) (macros : list (str * str)) : pst :=
  mkP (sc_init text) macros [] None [] None [] 0.

(* list(LowLevelParser(text, macros=CaseInsensitiveDict(month_names), handle_error=...)) *)
Definition lowlevel (m : mode) (text : str) : out (list cmd) :=
  bib_loop (fun _ c d s => Ret (d ++ [c]) s) (S (length text)) m [] (pst_init text month_macros).

(* ---- textutils.py:113-133 normalize_whitespace: whitespace_re.sub(' ', string.strip()) *)
Fixpoint collapse_ws (s : str) (in_ws : bool) : str :=
  match s with
  | [] => []
  | c :: t =>
    if is_space c then (if in_ws then collapse_ws t true else c_space :: collapse_ws t true)
    else c :: collapse_ws t false
  end.
Definition normalize_whitespace (s : str) : str := collapse_ws (strip s) false.

(* ---- the database being built (BibliographyData with wanted_entries=None).
   [en_dirty] / the bool of a preamble item is bookkeeping of the model only: an error was
   reported since the previous add_entry / add_to_preamble call returned. *)
Record entry := mkEntry {
  en_key : str; en_type : str; en_otype : str;
  en_fields : list (str * str); en_persons : list (str * list person); en_dirty : bool }.
Record db := mkDb {
  db_entries : list entry; db_preamble : list (bool * str); db_unnamed : N; db_mark : nat }.
Definition db_init : db := mkDb [] [] 1 0.

(* '%i' % n *)
Fixpoint dec_go (fuel : nat) (n : N) (acc : str) : str :=
  match fuel with
  | O => acc
  | S f => let acc' := (48 + n mod 10) :: acc in
           if n / 10 =? 0 then acc' else dec_go f (n / 10) acc'
  end.
Definition dec (n : N) : str := dec_go (S (N.size_nat n)) n [].

Definition fatal_of_res {X} (r : res X) : fatal :=
  match r with
  | PyErr c l => FErr c l
  | OutOfFuel => FFuel
  | _ => FCrash
  end.

(* for name in split_name_list(value): entry.add_person(Person(name), role);
   Person.__init__ reports InvalidNameString through report_error and goes on *)
Fixpoint persons_of (m : mode) (names : list str) (acc : list person) (s : pst) : out (list person) :=
  match names with
  | [] => Ret acc s
  | n :: r =>
    match person_of_string n with
    | Ok (p, reported) =>
      (if reported then handle_error m (data_err E_NAME) s else Ret tt s) >>= fun _ s' =>
      persons_of m r (acc ++ [p]) s'
    | x => Fatal (fatal_of_res x)
    end
  end.

Definition is_person_field (lname : str) : bool :=
  str_eqb lname (*author*) [97; 117; 116; 104; 111; 114] || str_eqb lname (*editor*) [101; 100; 105; 116; 111; 114].   (* Person.valid_roles *)

(* bibtex.py:360-372 the loop of process_entry *)
Fixpoint process_fields (m : mode) (fields : list (str * list str)) (seen : list str)
         (fs : list (str * str)) (ps : list (str * list person)) (s : pst)
  : out (list (str * str) * list (str * list person)) :=
  match fields with
  | [] => Ret (fs, ps) s
  | (fname, parts) :: rest =>
    let lname := lower fname in
    if existsb (str_eqb lname) seen then
      handle_error m (data_err E_DUPFIELD) s >>= fun _ s' => process_fields m rest seen fs ps s'
    else
      let value := normalize_whitespace (concat parts) in
      if is_person_field lname then
        match split_name_list value with
        | Ok names =>
          persons_of m names [] s >>= fun pl s' =>
          process_fields m rest (seen ++ [lname]) fs (match pl with [] => ps | _ => ps ++ [(fname, pl)] end) s'
        | x => Fatal (fatal_of_res x)
        end
      else process_fields m rest (seen ++ [lname]) (fs ++ [(fname, value)]) ps s
  end.

(* database/__init__.py:192-206 add_entry (wanted_entries None, citations empty) *)
Definition add_entry (m : mode) (key typ : str) (fs : list (str * str)) (ps : list (str * list person))
           (d : db) (s : pst) : out db :=
  if existsb (fun e => str_eqb (lower (en_key e)) (lower key)) (db_entries d) then
    handle_error m (data_err E_REPEATED) s >>= fun _ s' =>
    Ret (mkDb (db_entries d) (db_preamble d) (db_unnamed d) (length (p_errs s'))) s'
  else
    let dirty := Nat.ltb (db_mark d) (length (p_errs s)) in
    Ret (mkDb (db_entries d ++ [mkEntry key (lower typ) typ fs ps dirty]) (db_preamble d) (db_unnamed d)
              (length (p_errs s))) s.

(* bibtex.py:352-372 process_entry *)
Definition process_entry (m : mode) (typ : str) (key : option str) (fields : list (str * list str))
           (d : db) (s : pst) : out db :=
  let '(k, d1) := match key with
                  | Some k => (k, d)
                  | None => ((*unnamed-*) [117; 110; 110; 97; 109; 101; 100; 45] ++ dec (db_unnamed d),
                             mkDb (db_entries d) (db_preamble d) (db_unnamed d + 1) (db_mark d))
                  end in
  process_fields m fields [] [] [] s >>= fun r s' => add_entry m k typ (fst r) (snd r) d1 s'.

(* bibtex.py:374-376 process_preamble *)
Definition process_preamble (value : list str) (d : db) (s : pst) : out db :=
  let dirty := Nat.ltb (db_mark d) (length (p_errs s)) in
  Ret (mkDb (db_entries d) (db_preamble d ++ [(dirty, normalize_whitespace (concat value))]) (db_unnamed d)
            (length (p_errs s))) s.

(* bibtex.py:396-404 the body of the for loop of Parser.parse_string *)
Definition process (m : mode) (c : cmd) (d : db) (s : pst) : out db :=
  match c with
  | CString _ _ _ => Ret d s
  | CPreamble _ v => process_preamble v d s
  | CEntry typ key fields => process_entry m typ key fields d s
  end.

(* bibtex.py:385-405 Parser.parse_string(text) with a fresh Parser() *)
Definition parse_bib (m : mode) (text : str) : out db :=
  bib_loop process (S (length text)) m db_init (pst_init text month_macros).
