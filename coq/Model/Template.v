(* Model/Template.v -- the template engine of the Python bibliography styles (property C07).
   Mirrors /repo HEAD:
     pybtex/style/template.py:136-357      _format_data / _format_list, the nodes join words together
                                           sentence field names optional optional_field tag href first_of
     pybtex/style/formatting/__init__.py:32-34   toplevel
     pybtex/style/names/__init__.py:36-47  name_part
     pybtex/style/names/plain.py:32-67, lastfirst.py:32-63   NameStyle.format
     pybtex/style/formatting/unsrt.py:36-38   dashify
     pybtex/textutils.py:163-172           tie_or_space
     pybtex/database/__init__.py:497-534   Entry._find_person_field / _find_crossref_field / _find_field
     pybtex/database/__init__.py:806-811   Person.__str__
     pybtex/markup/__init__.py:27-65       LaTeXParser.parse / iter_string_parts (Text.from_latex)
   Rich text is modelled by what a back end sees of it: the flat sequence of (atom, markup stack)
   pairs of Model/RtTypes.v (C08 proves that richtext.py's trees behave like that sequence).  The
   rich-text methods the engine calls (join, capfirst, capitalize, lower, upper, add_period,
   abbreviate, split-by-dashes, len, bool) are given directly on flat sequences below; all values
   the engine builds are `Text` objects at top level, so an appended period carries no markup.
   `codecs.decode(s, 'ulatex')` (latexcodec, a library) is a finite table handed in by the harness
   (raw -> decoded or "the codec raised"); strings not in the table decode to themselves.
   The template TREES are data (dumped from the live Style object); this file is the engine that
   evaluates any tree.  No proofs here. *)
From Pybtex Require Import Base.Prelude Base.PyChar Base.PyStr Model.RtTypes.

(* ------------------------------------------------------------------------------ *)
(* results: FieldIsMissing is an exception the engine itself catches (optional), so it is kept
   apart from other pybtex errors (TErr: PybtexSyntaxError "unbalanced braces", reports raised in
   strict mode) and from foreign exceptions (TCrash) *)
Inductive tres (A : Type) : Type :=
| TOk (a : A)
| TMissing (field key : str)     (* FieldIsMissing(field_name, entry): 'missing <field> in <key>' *)
| TErr
| TCrash
| TFuel.
Arguments TOk {A} a.
Arguments TMissing {A} field key.
Arguments TErr {A}.
Arguments TCrash {A}.
Arguments TFuel {A}.

Definition tbind {A B} (r : tres A) (f : A -> tres B) : tres B :=
  match r with
  | TOk a => f a
  | TMissing f k => TMissing f k
  | TErr => TErr
  | TCrash => TCrash
  | TFuel => TFuel
  end.
Notation "'dot' x <- r ; k" := (tbind r (fun x => k)) (at level 200, x pattern, r at level 100, k at level 200).

Fixpoint tmapM {X Y} (f : X -> tres Y) (l : list X) : tres (list Y) :=
  match l with
  | [] => TOk []
  | x :: r => dot y <- f x; dot ys <- tmapM f r; TOk (y :: ys)
  end.

(* ------------------------------------------------------------------------------ *)
(* flat rich text *)
Definition pair := (atom * list markup)%type.
Definition ftext := list pair.

Definition is_nil {X} (l : list X) : bool := match l with [] => true | _ => false end.
Definition plain (s : str) : ftext := map (fun c => (ACh c, [])) s.
Definition sym (n : str) : ftext := [(ASym n, [])].
Definition nbsp_name : str := [110; 98; 115; 112]%N.           (* "nbsp" *)
Definition ndash_name : str := [110; 100; 97; 115; 104]%N.     (* "ndash" *)
Definition nbsp : ftext := sym nbsp_name.                      (* richtext.nbsp = Symbol('nbsp') *)
Definition space : ftext := plain [c_space].

(* str(text): a Symbol prints as <name> (richtext.py Symbol.__str__) *)
Definition atom_str (a : atom) : str :=
  match a with ACh c => [c] | ASym n => (60%N :: n) ++ [62%N] end.
Definition fstr (f : ftext) : str := flat_map (fun p : pair => atom_str (fst p)) f.

Definition push_m (m : markup) (f : ftext) : ftext := map (fun p : pair => (fst p, m :: snd p)) f.

Definition is_prot (m : markup) : bool := match m with MProt => true | _ => false end.
Definition protected (p : pair) : bool := existsb is_prot (snd p).

(* upper()/lower(): String converts, Symbol and Protected return self *)
Definition conv_pair (up : bool) (p : pair) : pair :=
  if protected p then p else
  match fst p with
  | ACh c => (ACh (if up then to_upper c else to_lower c), snd p)
  | ASym _ => p
  end.
Definition f_lower (f : ftext) : ftext := map (conv_pair false) f.
Definition f_upper (f : ftext) : ftext := map (conv_pair true) f.
(* BaseText.capfirst: self[:1].upper() + self[1:] *)
Definition f_capfirst (f : ftext) : ftext :=
  match f with [] => [] | p :: r => conv_pair true p :: r end.
(* BaseText.capitalize: self[:1].upper() + self[1:].lower() *)
Definition f_capitalize (f : ftext) : ftext :=
  match f with [] => [] | p :: r => conv_pair true p :: f_lower r end.

(* textutils.is_terminated(text) = text.endswith(('.', '?', '!')): only the last leaf is asked;
   a Symbol never ends with anything *)
Definition is_terminator (c : char) : bool := N.eqb c 46 || N.eqb c 63 || N.eqb c 33.
Definition ends_term (f : ftext) : bool :=
  match rev f with
  | (ACh c, _) :: _ => is_terminator c
  | _ => false
  end.
(* BaseText.add_period: `if self and not is_terminated(self): self.append('.')` on a Text *)
Definition dot_pair : pair := (ACh 46%N, []).
Definition f_add_period (f : ftext) : ftext :=
  if negb (is_nil f) && negb (ends_term f) then f ++ [dot_pair] else f.

(* sep.join(items) *)
Fixpoint join_flat (sep : ftext) (items : list ftext) : ftext :=
  match items with
  | [] => []
  | [x] => x
  | x :: r => x ++ sep ++ join_flat sep r
  end.

(* unsrt.dashify: Text(Symbol('ndash')).join(text.split(re.compile('-+'))): every maximal run of
   unprotected '-' becomes one ndash symbol (String.split splits, Protected.split does not; the
   text comes from Text.from_latex, whose only markup is Protected) *)
Definition is_dash (p : pair) : bool :=
  match fst p with ACh c => N.eqb c c_hyphen && negb (protected p) | ASym _ => false end.
Fixpoint dashify_go (f : ftext) (in_run : bool) : ftext :=
  match f with
  | [] => []
  | p :: r =>
    if is_dash p then (if in_run then dashify_go r true else (ASym ndash_name, []) :: dashify_go r true)
    else p :: dashify_go r false
  end.
Definition f_dashify (f : ftext) : ftext := dashify_go f false.

(* BaseText.abbreviate: split(delimiter_re) with delimiter_re = ([\s\-]) (the delimiters are
   captured, so they are pieces themselves), abbreviate_word on every piece, String('').join.
   abbreviate_word: `word[0].add_period() if word.isalpha() else word` *)
Definition is_delim (p : pair) : bool :=
  match fst p with ACh c => (is_space c || N.eqb c c_hyphen) && negb (protected p) | ASym _ => false end.
Definition pair_alpha (p : pair) : bool :=
  match fst p with ACh c => is_alpha c | ASym _ => false end.
Definition abbr_seg (seg : ftext) : ftext :=
  match seg with
  | [] => []
  | p :: _ => if forallb pair_alpha seg then [p; dot_pair] else seg
  end.
Fixpoint abbr_go (f : ftext) (acc : ftext) : ftext :=
  match f with
  | [] => abbr_seg (rev acc)
  | p :: r => if is_delim p then abbr_seg (rev acc) ++ p :: abbr_go r [] else abbr_go r (p :: acc)
  end.
Definition f_abbreviate (f : ftext) : ftext := abbr_go f [].

(* textutils.tie_or_space(word, tie, space, enough_chars=3, other_word=None), on the lengths *)
Definition tie_or_space (n : nat) (other : option nat) (tie sp : ftext) : ftext :=
  let n := match other with Some m => Nat.min n m | None => n end in
  if Nat.ltb n 3 then tie else sp.

(* ------------------------------------------------------------------------------ *)
(* Text.from_latex: codecs.decode(latex, 'ulatex') then LaTeXParser.parse *)
Definition dectable := list (str * option str).
Definition decode (tbl : dectable) (s : str) : tres str :=
  match find (fun p => str_eqb (fst p) s) tbl with
  | Some (_, Some d) => TOk d
  | Some (_, None) => TCrash                  (* UnicodeDecodeError *)
  | None => TOk s
  end.
(* LaTeXParser.iter_string_parts (markup/__init__.py:47-65): braces delimit Protected parts;
   an unmatched brace raises PybtexSyntaxError('unbalanced braces') *)
Fixpoint parse_latex (s : str) (level : nat) : tres ftext :=
  match s with
  | [] => match level with O => TOk [] | S _ => TErr end
  | c :: t =>
    if N.eqb c c_lbrace then parse_latex t (S level)
    else if N.eqb c c_rbrace then match level with O => TErr | S l => parse_latex t l end
    else dot r <- parse_latex t level; TOk ((ACh c, repeat MProt level) :: r)
  end.
Definition from_latex (tbl : dectable) (s : str) : tres ftext :=
  dot d <- decode tbl s; parse_latex d 0.

(* ------------------------------------------------------------------------------ *)
(* database entries as the engine sees them *)
Record person := mkP {
  p_first : list str; p_middle : list str; p_prelast : list str; p_last : list str; p_lineage : list str }.
Record entry := mkE {
  e_key : str;                               (* entry.key *)
  e_type : str;                              (* entry.type *)
  e_fields : list (str * str);               (* entry.fields (OrderedCaseInsensitiveDict) *)
  e_persons : list (str * list person) }.    (* entry.persons (OrderedCaseInsensitiveDict) *)

(* OrderedCaseInsensitiveDict.__getitem__ / __contains__ / get: keys compare lower-cased *)
Definition keyb (a b : str) : bool := str_eqb (lower a) (lower b).
Definition ci_get {V} (k : str) (d : list (str * V)) : option V :=
  option_map snd (find (fun p => keyb k (fst p)) d).
Definition ci_mem {V} (k : str) (d : list (str * V)) : bool :=
  match ci_get k d with Some _ => true | None => false end.

(* Person.__str__ (database/__init__.py:806-811): "von Last, Jr, First" *)
Definition person_str (p : person) : str :=
  let von_last := join [c_space] (p_prelast p ++ p_last p) in
  let jr := join [c_space] (p_lineage p) in
  let first := join [c_space] (p_first p ++ p_middle p) in
  join [c_comma; c_space] (filter (fun s => negb (is_nil s)) [von_last; jr; first]).

Definition s_and : str := [32; 97; 110; 100; 32]%N.            (* " and " *)
Definition s_crossref : str := [99; 114; 111; 115; 115; 114; 101; 102]%N.   (* "crossref" *)

Definition db_get (k : str) (db : list entry) : option entry := find (fun e => keyb k (e_key e)) db.

(* Entry._find_field (513-534): own fields, then the persons of that role joined by " and ",
   then the cross-referenced entry (not through an entry already visited; bib_data None, a missing
   crossref field or a missing target are all KeyError).  None = KeyError.
   fuel: the entry itself (which need not be in the database), then pairwise different database
   entries, then one call that finds its entry already visited: |db|+2 suffices (Proofs: find_field_fuel). *)
Fixpoint find_field (fuel : nat) (db : option (list entry)) (e : entry) (name : str) (visited : list str)
  : option (option str) :=
  match fuel with
  | O => None                                 (* out of fuel *)
  | S f =>
    match ci_get name (e_fields e) with
    | Some v => Some (Some v)
    | None =>
      match ci_get name (e_persons e) with
      | Some ps => Some (Some (join s_and (map person_str ps)))
      | None =>
        match db, ci_get s_crossref (e_fields e) with
        | Some d, Some target =>
          if existsb (keyb (e_key e)) visited then Some None
          else match db_get target d with
               | Some e' => find_field f db e' name (e_key e :: visited)
               | None => Some None
               end
        | _, _ => Some None
        end
      end
    end
  end.

(* ------------------------------------------------------------------------------ *)
(* template trees *)
Inductive afunc := AId | ALower | AUpper | ACapitalize | ACapfirst | ADashify | AUnknown.
Definition apply_afunc (a : afunc) (f : ftext) : tres ftext :=
  match a with
  | AId => TOk f
  | ALower => TOk (f_lower f)
  | AUpper => TOk (f_upper f)
  | ACapitalize => TOk (f_capitalize f)
  | ACapfirst => TOk (f_capfirst f)
  | ADashify => TOk (f_dashify f)
  | AUnknown => TCrash
  end.

Inductive tnode :=
| TLit (is_str : bool) (f : ftext)           (* a child that is not a Node: a str or a rich text *)
| TNone                                      (* a child that is None *)
| TJoin (sep : ftext) (sep2 last_sep : option ftext) (cs : list tnode)
| TWords (sep : ftext) (cs : list tnode)
| TTogether (last_tie : bool) (cs : list tnode)
| TSentence (capfirst capitalize add_period : bool) (sep : ftext) (cs : list tnode)
| TField (name : str) (apply : afunc) (raw : bool)
| TNames (role : str) (sep : ftext) (sep2 last_sep : option ftext)
| TOptional (cs : list tnode)
| TOptionalField (name : str) (apply : afunc) (raw : bool)
| TTag (name : str) (cs : list tnode)
| THRef (url : option tnode) (external : bool) (cs : list tnode)
| TFirstOf (cs : list tnode)
| TToplevel (cs : list tnode)
| TNamePart (before : ftext) (tie abbr : bool) (cs : list tnode)
| TUnknown.                                  (* anything the dumper does not know: not callable here *)

(* values flowing between nodes: a str / rich text (its flat form), or None *)
Inductive tval := VT (f : ftext) | VNone.
Definition truthy (v : tval) : bool := match v with VT f => negb (is_nil f) | VNone => false end.
Definition vflat (v : tval) : ftext := match v with VT f => f | VNone => [] end.
(* richtext.ensure_text: None is a ValueError *)
Definition ensure_text (v : tval) : tres ftext := match v with VT f => TOk f | VNone => TCrash end.

Inductive nstyle := NSPlain | NSLastFirst.
Record ctx := mkC {
  c_entry : entry;                           (* context['entry'] *)
  c_db : option (list entry);                (* context['bib_data'] *)
  c_dec : dectable;
  c_nstyle : nstyle;                         (* context['style'].format_name *)
  c_abbr : bool }.                           (* context['style'].abbreviate_names *)

(* join (template.py:157-181) on already formatted children *)
Definition join_vals (sep : ftext) (sep2 last_sep : option ftext) (vs : list tval) : ftext :=
  let sep2 := match sep2 with Some s => s | None => sep end in
  let last_sep := match last_sep with Some s => s | None => sep end in
  let parts := map vflat (filter truthy vs) in
  match parts with
  | [] => []
  | [p] => p
  | [p; q] => join_flat sep2 parts
  | _ => join_flat last_sep [join_flat sep (removelast parts); last parts []]
  end.

(* together (template.py:191-221) *)
Definition together_vals (last_tie : bool) (vs : list tval) : ftext :=
  let parts := map vflat (filter truthy vs) in
  match parts with
  | [] => []
  | p0 :: rest =>
    let plast := last parts [] in
    if Nat.leb (length parts) 2 then
      let tie2 := if last_tie then nbsp else tie_or_space (length p0) (Some (length plast)) nbsp space in
      join_flat tie2 parts
    else
      let lt := if last_tie then nbsp else tie_or_space (length plast) None nbsp space in
      p0 ++ tie_or_space (length p0) None nbsp space ++ join_flat space (removelast rest) ++ lt ++ plast
  end.

(* sentence (template.py:224-246) *)
Definition sentence_vals (capfirst capitalize add_period : bool) (sep : ftext) (vs : list tval) : ftext :=
  let t := join_vals sep None None vs in
  let t := if capfirst then f_capfirst t else t in
  let t := if capitalize then f_capitalize t else t in
  if add_period then f_add_period t else t.

(* name_part (names/__init__.py:36-47), children already abbreviated when abbr *)
Definition name_part_vals (before : ftext) (tie : bool) (vs : list tval) : ftext :=
  let parts := together_vals true vs in
  if is_nil parts then []
  else if tie then before ++ parts ++ tie_or_space (length parts) None nbsp space
  else before ++ parts.

(* Person.rich_*_names: [Text.from_latex(name) for name in names] *)
Definition rich_names (tbl : dectable) (ns : list str) : tres (list ftext) := tmapM (from_latex tbl) ns.

Definition comma_space : ftext := plain [c_comma; c_space].
Definition np (before : ftext) (tie abbr : bool) (names : list ftext) : ftext :=
  name_part_vals before tie (map (fun f => VT (if abbr then f_abbreviate f else f)) names).

(* NameStyle.format of plain (plain.py:61-66) and lastfirst (lastfirst.py:57-62), evaluated:
   the node built is join [name_part ...] over the person's rich name lists *)
Definition format_name (tbl : dectable) (ns : nstyle) (abbr : bool) (p : person) : tres ftext :=
  match ns with
  | NSPlain =>
    dot fi <- rich_names tbl (p_first p); dot mi <- rich_names tbl (p_middle p);
    dot pl <- rich_names tbl (p_prelast p); dot la <- rich_names tbl (p_last p);
    dot li <- rich_names tbl (p_lineage p);
    TOk (join_vals [] None None
      [VT (np [] true abbr (fi ++ mi)); VT (np [] true false pl); VT (np [] false false la);
       VT (np comma_space false false li)])
  | NSLastFirst =>
    dot pl <- rich_names tbl (p_prelast p); dot la <- rich_names tbl (p_last p);
    dot li <- rich_names tbl (p_lineage p);
    dot fi <- rich_names tbl (p_first p); dot mi <- rich_names tbl (p_middle p);
    TOk (join_vals [] None None
      [VT (np [] true false pl); VT (np [] false false la); VT (np comma_space false false li);
       VT (np comma_space false abbr (fi ++ mi))])
  end.

Definition ff_fuel (db : option (list entry)) : nat := S (S (match db with Some d => length d | None => 0 end)).

(* field (template.py:256-272) *)
Definition eval_field (c : ctx) (name : str) (apply : afunc) (raw : bool) : tres tval :=
  match find_field (ff_fuel (c_db c)) (c_db c) (c_entry c) name [] with
  | None => TFuel
  | Some None => TMissing name (e_key (c_entry c))
  | Some (Some v) =>
    dot f <- (if raw then TOk (plain v) else from_latex (c_dec c) v);
    match apply with
    | AId => TOk (VT f)                       (* `if apply_func:` -- None *)
    | _ => if raw then TCrash                 (* a str has no .lower()/.capitalize()/.split(re) of that kind *)
           else dot g <- apply_afunc apply f; TOk (VT g)
    end
  end.

(* names (template.py:275-288) *)
Definition eval_names (c : ctx) (role : str) (sep : ftext) (sep2 last_sep : option ftext) : tres tval :=
  match ci_get role (e_persons (c_entry c)) with
  | None => TMissing role (e_key (c_entry c))
  | Some ps =>
    dot fs <- tmapM (format_name (c_dec c) (c_nstyle c) (c_abbr c)) ps;
    TOk (VT (join_vals sep sep2 last_sep (map VT fs)))
  end.

(* optional (template.py:291-306): FieldIsMissing -> Text() *)
Definition catch_missing (r : tres tval) : tres tval :=
  match r with TMissing _ _ => TOk (VT []) | _ => r end.

(* Node.format_data / _format_data: evaluation of a tree *)
Fixpoint eval (c : ctx) (t : tnode) {struct t} : tres tval :=
  let evs := fix evs (l : list tnode) : tres (list tval) :=
    match l with
    | [] => TOk []
    | x :: r => dot v <- eval c x; dot vs <- evs r; TOk (v :: vs)
    end in
  (* first_of (template.py:349-356): children are formatted lazily *)
  let first := fix first (l : list tnode) : tres tval :=
    match l with
    | [] => TOk (VT [])
    | x :: r => dot v <- eval c x; if truthy v then TOk v else first r
    end in
  (* richtext.Text( *parts) *)
  let text_of := fun (l : list tnode) => dot vs <- evs l; dot fs <- tmapM ensure_text vs; TOk (concat fs) in
  match t with
  | TLit _ f => TOk (VT f)
  | TNone => TOk VNone
  | TJoin sep sep2 last_sep cs => dot vs <- evs cs; TOk (VT (join_vals sep sep2 last_sep vs))
  | TWords sep cs => dot vs <- evs cs; TOk (VT (join_vals sep None None vs))
  | TTogether lt cs => dot vs <- evs cs; TOk (VT (together_vals lt vs))
  | TSentence cf cp ap sep cs => dot vs <- evs cs; TOk (VT (sentence_vals cf cp ap sep vs))
  | TField name apply raw => eval_field c name apply raw
  | TNames role sep sep2 last_sep => eval_names c role sep sep2 last_sep
  | TOptional cs => catch_missing (dot f <- text_of cs; TOk (VT f))
  | TOptionalField name apply raw =>
    catch_missing (dot v <- eval_field c name apply raw; dot f <- ensure_text v; TOk (VT f))
  | TTag name cs => dot f <- text_of cs; TOk (VT (push_m (MTag name) f))
  | THRef url ext cs =>
    (* parts = _format_list(children) is a generator: the url is formatted first *)
    match url with
    | Some u =>
      dot uv <- eval c u;
      match uv with
      | VNone => TCrash                       (* ValueError: url must be str or Text *)
      | VT uf => dot f <- text_of cs; TOk (VT (push_m (MHRef (fstr uf) ext) f))
      end
    | None =>
      (* deprecated href [url, text]: `url, *parts = parts`; _format_data(url) is the value itself *)
      dot vs <- evs cs;
      match vs with
      | [] => TCrash                          (* ValueError: not enough values to unpack *)
      | VNone :: _ => TCrash
      | VT uf :: rest => dot fs <- tmapM ensure_text rest; TOk (VT (push_m (MHRef (fstr uf) ext) (concat fs)))
      end
    end
  | TFirstOf cs => first cs
  | TToplevel cs => dot vs <- evs cs; TOk (VT (join_vals (sym [110; 101; 119; 98; 108; 111; 99; 107]%N) None None vs))
  | TNamePart before tie abbr cs =>
    (* `children = [child.abbreviate() for child in children]`: only rich texts have the method *)
    if abbr then
      (fix ab (l : list tnode) (acc : list tval) : tres tval :=
         match l with
         | [] => TOk (VT (name_part_vals before tie (rev acc)))
         | TLit false f :: r => ab r (VT (f_abbreviate f) :: acc)
         | _ => TCrash
         end) cs []
    else dot vs <- evs cs; TOk (VT (name_part_vals before tie vs))
  | TUnknown => TCrash
  end.

(* Node.format_data(context) at top level of format_entry: the value must be a text to be rendered *)
Definition eval_top (c : ctx) (t : tnode) : tres ftext :=
  dot v <- eval c t; TOk (vflat v).
