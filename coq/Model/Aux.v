(* Model/Aux.v -- pybtex/auxfile.py (as repaired by 27aad6a and 6b223a8): AuxDataError,
   AuxDataContext, AuxData.command_re / handle_* / parse_line / parse_file, parse_file;
   pybtex/errors.py:69-80 report_error; the line iteration of the text file that
   pybtex/io.py:92 open_unicode returns (universal newlines);
   pybtex/__init__.py:34-59 Engine.make_bibliography's use of the result.
   No proofs here. *)
From Pybtex Require Import Base.Prelude Base.PyChar Base.PyStr.
Local Open Scope N_scope.

(* ---- iterating over a file opened by io.open(filename, 'r', encoding=...) (newline=None):
   lines end at \n, \r or \r\n, each terminator translated to \n and kept; a last line
   without terminator is yielded as is; nothing is yielded for an empty rest.
   acc = current line reversed; after_cr = the previous character was \r. *)
Fixpoint lines_aux (s acc : str) (after_cr : bool) : list str :=
  match s with
  | [] => match acc with [] => [] | _ => [rev acc] end
  | c :: t =>
    if (c =? 10) && after_cr then lines_aux t acc false
    else if (c =? 10) || (c =? 13) then rev (10 :: acc) :: lines_aux t [] (c =? 13)
    else lines_aux t (c :: acc) false
  end.
Definition lines_of (content : str) : list str := lines_aux content [] false.

(* ---- auxfile.py:63 command_re: a backslash, one of citation|bibdata|bibstyle|@input, an
   opening brace, a greedy run of any characters but \n (the captured value), a closing brace.
   Used with .match(line): anchored at the start of the line; the run is greedy, so the
   value extends to the LAST closing brace before the first \n. *)
Inductive cmdname := CCitation | CBibdata | CBibstyle | CInput.

(* (the literals are evaluated here so that the extracted code does not mention Coq's string type) *)
Definition t_citation : str := Eval vm_compute in s2l "citation".
Definition t_bibdata : str := Eval vm_compute in s2l "bibdata".
Definition t_bibstyle : str := Eval vm_compute in s2l "bibstyle".
Definition t_input : str := Eval vm_compute in s2l "@input".
Definition cmd_text (c : cmdname) : str :=
  match c with
  | CCitation => t_citation | CBibdata => t_bibdata
  | CBibstyle => t_bibstyle | CInput => t_input
  end.
(* the alternatives in the order the regex tries them *)
Definition cmd_alternatives : list cmdname := [CCitation; CBibdata; CBibstyle; CInput].

(* the part of s a run of '.' can cover: up to the first \n *)
Fixpoint upto_nl (s : str) : str :=
  match s with
  | [] => []
  | c :: t => if c =? 10 then [] else c :: upto_nl t
  end.

(* the text before the last occurrence of c in s (None if c does not occur) *)
Fixpoint before_last (c : char) (s : str) : option str :=
  match s with
  | [] => None
  | x :: t =>
    match before_last c t with
    | Some p => Some (x :: p)
    | None => if x =? c then Some [] else None
    end
  end.

(* one alternative: name, opening brace, greedy value, closing brace, at the start of s *)
Definition match_alt (c : cmdname) (s : str) : option str :=
  let pre := cmd_text c ++ [c_lbrace] in
  if startswith s pre then before_last c_rbrace (upto_nl (skipn (length pre) s)) else None.

Fixpoint match_alts (cs : list cmdname) (s : str) : option (cmdname * str) :=
  match cs with
  | [] => None
  | c :: r => match match_alt c s with Some v => Some (c, v) | None => match_alts r s end
  end.

(* command_re.match(line).groups() *)
Definition match_command (line : str) : option (cmdname * str) :=
  match line with
  | c :: t => if c =? c_bslash then match_alts cmd_alternatives t else None
  | [] => None
  end.

(* ---- auxfile.py:53-59 AuxDataContext: filename, lineno (None or >= 1), line (None or text) *)
Record ctx := mkctx { c_file : str; c_lineno : option nat; c_line : option str }.

(* ---- auxfile.py:35-50 AuxDataError(message, context): the message is represented by its
   kind and arguments; the context is COPIED at construction (6b223a8).  EOpen is the plain
   PybtexError of io.py:85 (no context, filename None). *)
Inductive ekind :=
| EMismatch (key existing : str)   (* 'case mismatch error between cite keys {0} and {1}' *)
| EStyle                           (* 'illegal, another \bibstyle command' *)
| EData                            (* 'illegal, another \bibdata command' *)
| ENoData                          (* 'found no \bibdata command' *)
| ENoStyle                         (* 'found no \bibstyle command' *)
| EOpen (name : str).              (* 'unable to open ...' *)
Record err := mkerr { e_kind : ekind; e_ctx : option ctx }.

(* ---- auxfile.py:62-72 AuxData: style, data, citations, _canonical_keys (dict: lower-cased
   key -> last spelling), context (None before the first parse_file); a_errs = the errors
   passed to report_error so far that did not raise (errors.captured_errors, or the warnings
   printed in non-strict mode), in order *)
Record aux := mkaux {
  a_style : option str;
  a_data : option (list str);
  a_cits : list str;
  a_canon : list (str * str);
  a_ctx : option ctx;
  a_errs : list err }.

Definition aux_init : aux := mkaux None None [] [] None [].

Definition set_ctx (st : aux) (c : option ctx) : aux :=
  mkaux (a_style st) (a_data st) (a_cits st) (a_canon st) c (a_errs st).
Definition set_style (st : aux) (s : str) : aux :=
  mkaux (Some s) (a_data st) (a_cits st) (a_canon st) (a_ctx st) (a_errs st).
Definition set_data (st : aux) (d : list str) : aux :=
  mkaux (a_style st) (Some d) (a_cits st) (a_canon st) (a_ctx st) (a_errs st).
Definition add_err (st : aux) (e : err) : aux :=
  mkaux (a_style st) (a_data st) (a_cits st) (a_canon st) (a_ctx st) (a_errs st ++ [e]).

(* dict lookup / assignment on str keys *)
Fixpoint dict_get (k : str) (d : list (str * str)) : option str :=
  match d with
  | [] => None
  | (k', v) :: r => if str_eqb k k' then Some v else dict_get k r
  end.
Fixpoint dict_set (k v : str) (d : list (str * str)) : list (str * str) :=
  match d with
  | [] => [(k, v)]
  | (k', v') :: r => if str_eqb k k' then (k', v) :: r else (k', v') :: dict_set k v r
  end.

Definition add_citation (st : aux) (key : str) : aux :=
  mkaux (a_style st) (a_data st) (a_cits st ++ [key]) (dict_set (lower key) key (a_canon st))
        (a_ctx st) (a_errs st).

(* how errors.report_error is configured: capture() active / strict (raise) / not strict (print) *)
Inductive mode := Capture | Strict | Lenient.

(* outcome of a modelled call: returned / raised a pybtex error (with the state at that
   moment) / raised a foreign exception / the model's nesting fuel ran out *)
Inductive outcome (A : Type) :=
| Ret (a : A)
| Raise (e : err) (st : aux)
| CrashO
| NoFuel.
Arguments Ret {A} a.
Arguments Raise {A} e st.
Arguments CrashO {A}.
Arguments NoFuel {A}.

Definition obind {A B} (r : outcome A) (f : A -> outcome B) : outcome B :=
  match r with
  | Ret a => f a
  | Raise e st => Raise e st
  | CrashO => CrashO
  | NoFuel => NoFuel
  end.

(* errors.py:69-80 report_error *)
Definition report_error (m : mode) (e : err) (st : aux) : outcome aux :=
  match m with
  | Strict => Raise e st
  | Capture | Lenient => Ret (add_err st e)
  end.

(* AuxDataError(msg, self.context): context.filename raises AttributeError on None *)
Definition aux_error (m : mode) (k : ekind) (st : aux) : outcome aux :=
  match a_ctx st with
  | None => CrashO
  | Some c => report_error m (mkerr k (Some c)) st
  end.

(* auxfile.py:74-83 handle_citation: the loop over keys.split(',') *)
Fixpoint cite_keys (m : mode) (keys : list str) (st : aux) : outcome aux :=
  match keys with
  | [] => Ret st
  | key :: rest =>
    obind (match dict_get (lower key) (a_canon st) with
           | Some existing =>
             if str_eqb key existing then Ret st else aux_error m (EMismatch key existing) st
           | None => Ret st
           end)
          (fun st1 => cite_keys m rest (add_citation st1 key))
  end.
Definition handle_citation (m : mode) (keys : str) (st : aux) : outcome aux :=
  cite_keys m (split_on [c_comma] keys) st.

(* auxfile.py:85-89 handle_bibstyle *)
Definition handle_bibstyle (m : mode) (style : str) (st : aux) : outcome aux :=
  match a_style st with
  | Some _ => aux_error m EStyle st
  | None => Ret (set_style st style)
  end.

(* auxfile.py:91-95 handle_bibdata *)
Definition handle_bibdata (m : mode) (bibdata : str) (st : aux) : outcome aux :=
  match a_data st with
  | Some _ => aux_error m EData st
  | None => Ret (set_data st (split_on [c_comma] bibdata))
  end.

(* auxfile.py:100-102 handle_command: getattr(self, 'handle_' + command.lstrip('@'));
   rec = handle_input = parse_file(filename, toplevel=False) *)
Definition handle_command (rec : str -> aux -> outcome aux) (m : mode) (c : cmdname) (v : str)
  (st : aux) : outcome aux :=
  match c with
  | CCitation => handle_citation m v st
  | CBibstyle => handle_bibstyle m v st
  | CBibdata => handle_bibdata m v st
  | CInput => rec v st
  end.

(* auxfile.py:104-110 parse_line *)
Definition parse_line (rec : str -> aux -> outcome aux) (m : mode) (line : str) (lineno : nat)
  (st : aux) : outcome aux :=
  match a_ctx st with
  | None => CrashO
  | Some c =>
    let st1 := set_ctx st (Some (mkctx (c_file c) (Some lineno) (Some (strip line)))) in
    match match_command line with
    | Some (cmd, v) => handle_command rec m cmd v st1
    | None => Ret st1
    end
  end.

(* auxfile.py:117-118 for lineno, line in enumerate(aux_file, 1) *)
Fixpoint parse_lines (rec : str -> aux -> outcome aux) (m : mode) (lines : list str) (lineno : nat)
  (st : aux) : outcome aux :=
  match lines with
  | [] => Ret st
  | l :: rest => obind (parse_line rec m l lineno st) (parse_lines rec m rest (S lineno))
  end.

(* auxfile.py:112-131 AuxData.parse_file.  fs = the file system as seen through
   pybtex.io.open_unicode: None = cannot be opened (PybtexError 'unable to open').
   fuel bounds the nesting depth of \@input (Python: the interpreter's recursion limit). *)
Fixpoint parse_file (fuel : nat) (fs : str -> option str) (m : mode) (filename : str)
  (toplevel : bool) (st : aux) : outcome aux :=
  match fuel with
  | O => NoFuel
  | S f =>
    let previous := a_ctx st in
    let st0 := set_ctx st (Some (mkctx filename None None)) in
    match fs filename with
    | None => Raise (mkerr (EOpen filename) None) st0
    | Some content =>
      obind (parse_lines (fun name s => parse_file f fs m name false s) m (lines_of content) 1 st0)
        (fun st1 =>
          obind (match previous with
                 | Some p => Ret (set_ctx st1 (Some p))
                 | None =>
                   match a_ctx st1 with
                   | Some c => Ret (set_ctx st1 (Some (mkctx (c_file c) None None)))
                   | None => CrashO
                   end
                 end)
            (fun st2 =>
              if toplevel && (match a_data st2 with None => true | Some _ => false end)
              then Raise (mkerr ENoData (a_ctx st2)) st2
              else if toplevel && (match a_style st2 with None => true | Some _ => false end)
              then Raise (mkerr ENoStyle (a_ctx st2)) st2
              else Ret st2))
    end
  end.

(* auxfile.py:134-139 module-level parse_file *)
Definition parse_aux (fuel : nat) (fs : str -> option str) (m : mode) (filename : str) : outcome aux :=
  parse_file fuel fs m filename true aux_init.

(* a file system given as a list of (name, content); the first binding of a name counts *)
Fixpoint fs_of (files : list (str * str)) (name : str) : option str :=
  match files with
  | [] => None
  | (n, c) :: r => if str_eqb name n then Some c else fs_of r name
  end.

(* a sequence of handle_* calls on one AuxData object whose context is (file, lineno, line);
   used to compare the handlers directly *)
Fixpoint run_handlers (m : mode) (ops : list (cmdname * str)) (st : aux) : outcome aux :=
  match ops with
  | [] => Ret st
  | (c, v) :: r => obind (handle_command (fun _ s => Ret s) m c v st) (run_handlers m r)
  end.

(* ---- pybtex/__init__.py:45-59 Engine.make_bibliography: what is handed on to
   format_from_files.  style_arg = the style= argument; suffix = bib_format.default_suffix *)
Record bibargs := mkbibargs { b_files : list str; b_style : option str; b_citations : list str }.
Definition make_bibliography_args (style_arg : option str) (suffix : str) (a : aux) : outcome bibargs :=
  match a_data a with
  | None => CrashO      (* iterating None: TypeError; unreachable after a successful parse *)
  | Some d =>
    Ret (mkbibargs (map (fun f => f ++ suffix) d)
                   (match style_arg with Some s => Some s | None => a_style a end)
                   (a_cits a))
  end.
