(* Model/CIMulti.v -- SEVERAL live containers of pybtex/utils.py at once.
   A state is the list of containers created so far; every operation names its target by index; the
   operations that derive a container from another one -- lower(), construction from an existing container
   or from its items(), update(other_container); for the set lower(), construction from another set, |= other
   set -- append a NEW container (or write into the target) and leave the source alive.  In this functional
   model containers are independent values: any sharing of mutable state between two containers in the
   implementation shows up as a disagreement on a concrete history.  No proofs in this file. *)
From Pybtex Require Import Base.Prelude Model.CIDict.

Section Multi.
Variables K V : Type.
Variable keqb : K -> K -> bool.
Variable lower : K -> K.
Variable ksort : list K -> list K.

Fixpoint upd_nth {X} (i : nat) (x : X) (l : list X) : list X :=
  match l, i with
  | [], _ => []
  | _ :: r, O => x :: r
  | y :: r, S i' => y :: upd_nth i' x r
  end.

Inductive mop :=
| MOp (i : nat) (o : op K V)            (* an operation of Model/CIDict.v on container i (OLower REPLACES slot i by c.lower()) *)
| MLower (i : nat)                      (* new = c_i.lower()                     utils.py:180-181 / 223-226 *)
| MCopy (i : nat) (cl : cls)            (* new = cl(c_i): __init__ -> self.update(c_i): for key in c_i: self[key] = c_i[key] *)
| MCopyItems (i : nat) (cl : cls)       (* new = cl(c_i.items()) *)
| MUpdateFrom (i j : nat)               (* c_i.update(c_j): for key in c_j: c_i[key] = c_j[key] *)
| MNew (cl : cls) (pairs : list (K * V))  (* new = cl(pairs), cl plain or ordered *)
| MNewDefault (d0 : V).                 (* new = CaseInsensitiveDefaultDict(lambda: d0) *)

(* the index whose container an operation may change (appending operations: the new slot) *)
Definition mtarget (n : nat) (m : mop) : nat :=
  match m with
  | MOp i _ => i
  | MUpdateFrom i _ => i
  | _ => n
  end.

Definition unit_ret (r : eres unit) : eres (ret K V) := ebind r (fun _ => EOk RNone).

(* an index that does not exist is an IndexError of the harness, not of pybtex: Crash, state unchanged.
   cl(c_j) / update(c_j) read c_j's items first; a failure while reading (impossible in reachable states)
   leaves the state unchanged in the model. *)
Definition mstep (st : list (cid K V)) (m : mop) : list (cid K V) * eres (ret K V) :=
  match m with
  | MOp i o =>
    match nth_error st i with
    | Some c => let (c', r) := step K V keqb lower c o in (upd_nth i c' st, r)
    | None => (st, EExn KeyError)
    end
  | MLower i =>
    match nth_error st i with
    | Some c => match ci_lower K V keqb lower c with EOk c' => (st ++ [c'], EOk RNone) | EExn e => (st, EExn e) end
    | None => (st, EExn KeyError)
    end
  | MCopy i cl | MCopyItems i cl =>
    match nth_error st i with
    | Some c => match ci_items K V keqb lower c with EOk its => (st ++ [ci_init K V keqb lower cl its], EOk RNone) | EExn e => (st, EExn e) end
    | None => (st, EExn KeyError)
    end
  | MUpdateFrom i j =>
    match nth_error st i, nth_error st j with
    | Some ci, Some cj =>
      match ci_items K V keqb lower cj with
      | EOk its => (upd_nth i (ci_update K V keqb lower ci its) st, EOk RNone)
      | EExn e => (st, EExn e)
      end
    | _, _ => (st, EExn KeyError)
    end
  | MNew cl pairs => (st ++ [ci_init K V keqb lower cl pairs], EOk RNone)
  | MNewDefault d0 => (st ++ [default_init K V (FacVal d0)], EOk RNone)
  end.

(* after every step ALL live containers are observed *)
Fixpoint mrun (probes : list K) (st : list (cid K V)) (ops : list mop) : list (eres (ret K V) * list (obs K V)) :=
  match ops with
  | [] => []
  | m :: r => let (st', x) := mstep st m in (x, map (observe K V keqb lower probes) st') :: mrun probes st' r
  end.

(* ---- sets *)
Inductive smop :=
| SMOp (i : nat) (o : sop K)            (* an operation of Model/CIDict.v on set i (SLower REPLACES slot i) *)
| SMLower (i : nat)                     (* new = s_i.lower()                  utils.py: type(self)(self._set) *)
| SMCopy (i : nat)                      (* new = CaseInsensitiveSet(s_i): iterates s_i, i.e. its LOWER-CASED keys *)
| SMIorFrom (i j : nat)                 (* s_i |= s_j: for value in s_j: s_i.add(value)  -- the lower-cased keys of s_j *)
| SMIsubFrom (i j : nat)                (* s_i -= s_j (i <> j): for value in s_j: s_i.discard(value) *)
| SMNew (l : list K).                   (* new = CaseInsensitiveSet(l) *)

Definition smtarget (n : nat) (m : smop) : nat :=
  match m with
  | SMOp i _ => i
  | SMIorFrom i _ => i
  | SMIsubFrom i _ => i
  | _ => n
  end.

(* None = impossible history (a pop choice that is not a member / a bad index) *)
Definition smstep (st : list (cis K)) (m : smop) : option (list (cis K) * eres (sret K)) :=
  match m with
  | SMOp i o =>
    match nth_error st i with
    | Some s => match sstep K keqb lower s o with Some (s', r) => Some (upd_nth i s' st, r) | None => None end
    | None => None
    end
  | SMLower i | SMCopy i =>
    match nth_error st i with
    | Some s => Some (st ++ [cs_lower K keqb lower s], EOk SRNone)
    | None => None
    end
  | SMIorFrom i j =>
    match nth_error st i, nth_error st j with
    | Some si, Some sj => Some (upd_nth i (cs_ior K keqb lower si (cs_iter K sj)) st, EOk SRNone)
    | _, _ => None
    end
  | SMIsubFrom i j =>
    match nth_error st i, nth_error st j with
    | Some si, Some sj => Some (upd_nth i (cs_isub K keqb lower si (cs_iter K sj)) st, EOk SRNone)
    | _, _ => None
    end
  | SMNew l => Some (st ++ [cs_init K keqb lower l], EOk SRNone)
  end.

Fixpoint smrun (probes : list K) (st : list (cis K)) (ops : list smop) : option (list (eres (sret K) * list (sobs K))) :=
  match ops with
  | [] => Some []
  | m :: r =>
    match smstep st m with
    | None => None
    | Some (st', x) =>
      match smrun probes st' r with
      | None => None
      | Some t => Some ((x, map (sobserve K keqb lower ksort probes) st') :: t)
      end
    end
  end.
End Multi.

Arguments MOp {K V} i o.
Arguments MLower {K V} i.
Arguments MCopy {K V} i cl.
Arguments MCopyItems {K V} i cl.
Arguments MUpdateFrom {K V} i j.
Arguments MNew {K V} cl pairs.
Arguments MNewDefault {K V} d0.
Arguments SMOp {K} i o.
Arguments SMLower {K} i.
Arguments SMCopy {K} i.
Arguments SMIorFrom {K} i j.
Arguments SMIsubFrom {K} i j.
Arguments SMNew {K} l.
