(* Model/RealPlugins.v -- how the three shipped plug-ins hook into the entry points: which
   stream kind they ask for (unicode_io), and the methods they override.  The *bodies* (the
   BibTeX grammar, yaml.load / yaml.dump, ElementTree, the tree walkers) stay abstract.

     pybtex/database/input/bibtex.py:332-410   Parser: unicode_io = True; parse_string (override:
                                               the body), parse_stream = parse_string(stream.read())
     pybtex/database/input/bibyaml.py:69-88    Parser: unicode_io = False; parse_stream is the body
     pybtex/database/input/bibtexml.py:37-53   Parser: parse_bytes / parse_string / parse_stream overrides
     pybtex/database/output/bibtex.py:33-36,153  Writer: unicode_io = True; write_stream is the body
     pybtex/database/output/bibyaml.py         Writer: see Model/YamlWriter.v
     pybtex/database/output/bibtexml.py:37-108 _PrettyXMLWriter.__init__ / Writer.write_stream / to_string
   No proofs here. *)
From Pybtex Require Import Base.Prelude Base.PyChar Base.PyStr Model.Plugins Model.IO Model.EntryPoints.

(* ---- BibTeX reader: parse_stream hands whatever stream.read() returns to parse_string ---- *)
Section BibtexReader.
  Variable db : Type.
  Variable body : stream -> db -> res db.      (* Parser.parse_string: LowLevelParser over the text *)
  Definition bibtex_unicode_io : bool := true.
  Definition bibtex_parse_stream (s : stream) (d : db) : res db := body s d.
  Definition bibtex_parse_string (v : str) (d : db) : res db := body (SText v) d.   (* the override: no isinstance check, no encoding *)
  Definition bibtex_parse_bytes (cd : codec) := parse_bytes db bibtex_parse_stream cd bibtex_unicode_io.
  Definition bibtex_parse_file (cd : codec) := parse_file db bibtex_parse_stream cd bibtex_unicode_io.
End BibtexReader.

(* ---- YAML reader: a bytes plug-in, nothing overridden but parse_stream ---- *)
Section YamlReader.
  Variable db : Type.
  Variable body : stream -> db -> res db.      (* yaml.load(stream) and the entry walk *)
  Definition yaml_unicode_io : bool := false.
  Definition yaml_parse_string (cd : codec) := parse_string db body cd yaml_unicode_io.
  Definition yaml_parse_bytes (cd : codec) := parse_bytes db body cd yaml_unicode_io.
  Definition yaml_parse_file (cd : codec) := parse_file db body cd yaml_unicode_io.
End YamlReader.

(* ---- BibTeXML reader ---- *)
Section XmlReader.
  Variable db tree : Type.
  Variable et_fromstring : str -> res tree.        (* ET.fromstring(bytes) *)
  Variable et_parse : stream -> res tree.          (* ET.parse(stream) *)
  Variable parse_tree : tree -> db -> res db.
  Variable cd : codec.
  (* bibtexml.py:40-42 *)
  Definition xml_parse_bytes (v : str) (d : db) : res db := do t <- et_fromstring v; parse_tree t d.
  (* bibtexml.py:44-45: value.encode(self.encoding) *)
  Definition xml_parse_string (v : str) (d : db) : res db :=
    match enc cd v with Some b => xml_parse_bytes b d | None => Crash end.
  (* bibtexml.py:47-49 *)
  Definition xml_parse_stream (s : stream) (d : db) : res db := do t <- et_parse s; parse_tree t d.
  (* parse_file is BaseParser's, unicode_io = False (the class default) *)
  Definition xml_parse_file := parse_file db xml_parse_stream cd false.
End XmlReader.

(* ---- BibTeX writer: a text plug-in, nothing overridden but write_stream ---- *)
Section BibtexWriter.
  Variable wd : Type.
  Variable chunks : bool -> wd -> res (list str).
  Definition bibtex_w_unicode_io : bool := true.
  Definition bibtex_to_string (cd : codec) := to_string wd chunks cd bibtex_w_unicode_io.
  Definition bibtex_to_bytes (cd : codec) := to_bytes wd chunks cd bibtex_w_unicode_io.
  Definition bibtex_write_file (cd : codec) := write_file wd chunks cd bibtex_w_unicode_io.
End BibtexWriter.

(* ---- BibTeXML writer ---- *)
Definition s_xml1 : str := Eval vm_compute in s2l "<?xml version=""1.0"" encoding=""".
Definition s_xml2 : str := Eval vm_compute in [34; 63; 62; 10]%N.      (* quote, question mark, greater-than, newline *)
(* XMLGenerator.startDocument: the declaration carries self.encoding as it was given *)
Definition xml_decl (encname : str) : str := s_xml1 ++ encname ++ s_xml2.

(* decimal digits of a code point *)
Fixpoint dec_digits (fuel : nat) (n : N) (acc : str) : str :=
  match fuel with
  | O => acc
  | S f => let acc' := (48 + n mod 10)%N :: acc in
           if N.ltb n 10 then acc' else dec_digits f (n / 10)%N acc'
  end.
(* errors='xmlcharrefreplace' of the TextIOWrapper that saxutils puts around a binary stream:
   a character the codec cannot encode becomes &#N; *)
Definition charref_replace (cd : codec) (s : str) : str :=
  concat (map (fun c => match enc cd [c] with
                        | Some _ => [c]
                        | None => [38; 35]%N ++ dec_digits 8 c [] ++ [59%N]
                        end) s).
Definition xenc (cd : codec) (s : str) : option str := enc cd (charref_replace cd s).

Section XmlWriter.
  Variable wd : Type.
  Variable body : wd -> res str.           (* what Writer._write sends to the XML generator, escaped *)
  Variable cd : codec.
  Variable encname : str.                  (* self.encoding *)

  (* bibtexml.py:85-87 write_stream + _PrettyXMLWriter.__init__ (header=True): a text stream is
     used as it is, a binary one is wrapped with the encoding *)
  Definition xml_write_stream (text : bool) (d : wd) : res (list str) :=
    do b <- body d;
    if text then Ok [xml_decl encname; b]
    else match xenc cd (xml_decl encname ++ b) with Some x => Ok [x] | None => Crash end.
  (* bibtexml.py:89-108 to_string: no header, UTF-8 whatever self.encoding, stripped *)
  Definition xml_to_string (d : wd) : res str :=
    do b <- body d;
    match xenc codec_utf8 b with
    | Some x => match dec codec_utf8 x with Some t => Ok (strip t) | None => Crash end
    | None => Crash
    end.
  (* to_bytes and write_file are BaseWriter's, unicode_io = False *)
  Definition xml_to_bytes := to_bytes wd xml_write_stream cd false.
  Definition xml_write_file := write_file wd xml_write_stream cd false.
End XmlWriter.
