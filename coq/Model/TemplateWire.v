(* Model/TemplateWire.v -- wire encoding (s-expressions of integers) of the C07 model's data:
   flat rich text, template trees, entries, configurations, results.  No proofs. *)
From Pybtex Require Import Base.Prelude Base.PyChar Base.PyStr Model.RtTypes Model.Template Model.Styles.

Definition d_atom (s : sexp) : atom :=
  match d_items s with
  | A 0%Z :: c :: _ => ACh (d_N c)
  | A 1%Z :: n :: _ => ASym (d_str n)
  | _ => ACh 0%N
  end.
Definition d_markup (s : sexp) : markup :=
  match d_items s with
  | A 0%Z :: n :: _ => MTag (d_str n)
  | A 1%Z :: u :: e :: _ => MHRef (d_str u) (d_bool e)
  | _ => MProt
  end.
Definition d_flat (s : sexp) : ftext := d_list (fun p => (d_atom (d_nth p 0), d_list d_markup (d_nth p 1))) s.

(* inside template trees: (0 code-points) for a plain str, (1 flat) otherwise *)
Definition d_cflat (s : sexp) : ftext :=
  match d_items s with
  | A 0%Z :: x :: _ => plain (d_str x)
  | A 1%Z :: x :: _ => d_flat x
  | _ => []
  end.

Definition d_afunc (s : sexp) : afunc :=
  match d_Z s with
  | 0%Z => AId | 1%Z => ALower | 2%Z => AUpper | 3%Z => ACapitalize | 4%Z => ACapfirst | 5%Z => ADashify
  | _ => AUnknown
  end.

(* (0 is_str flat) (1) (2 sep sep2? last? cs) (3 sep cs) (4 last_tie cs) (5 capfirst capitalize add_period sep cs)
   (6 name afunc raw) (7 role sep sep2? last?) (8 cs) (9 name afunc raw) (10 name cs) (11 url? ext cs)
   (12 cs) (13 cs) (14 before tie abbr cs) (15) *)
Fixpoint d_tnode (fuel : nat) (s : sexp) : tnode :=
  match fuel with
  | O => TUnknown
  | S f =>
    let ds := fun x => map (d_tnode f) (d_items x) in
    match d_items s with
    | A 0%Z :: b :: x :: _ => TLit (d_bool b) (d_cflat x)
    | A 1%Z :: _ => TNone
    | A 2%Z :: sep :: sep2 :: lst :: cs :: _ => TJoin (d_cflat sep) (d_opt d_cflat sep2) (d_opt d_cflat lst) (ds cs)
    | A 3%Z :: sep :: cs :: _ => TWords (d_cflat sep) (ds cs)
    | A 4%Z :: lt :: cs :: _ => TTogether (d_bool lt) (ds cs)
    | A 5%Z :: cf :: cp :: ap :: sep :: cs :: _ => TSentence (d_bool cf) (d_bool cp) (d_bool ap) (d_cflat sep) (ds cs)
    | A 6%Z :: n :: a :: r :: _ => TField (d_str n) (d_afunc a) (d_bool r)
    | A 7%Z :: r :: sep :: sep2 :: lst :: _ => TNames (d_str r) (d_cflat sep) (d_opt d_cflat sep2) (d_opt d_cflat lst)
    | A 8%Z :: cs :: _ => TOptional (ds cs)
    | A 9%Z :: n :: a :: r :: _ => TOptionalField (d_str n) (d_afunc a) (d_bool r)
    | A 10%Z :: n :: cs :: _ => TTag (d_str n) (ds cs)
    | A 11%Z :: u :: e :: cs :: _ => THRef (d_opt (d_tnode f) u) (d_bool e) (ds cs)
    | A 12%Z :: cs :: _ => TFirstOf (ds cs)
    | A 13%Z :: cs :: _ => TToplevel (ds cs)
    | A 14%Z :: b :: t :: a :: cs :: _ => TNamePart (d_cflat b) (d_bool t) (d_bool a) (ds cs)
    | _ => TUnknown
    end
  end.
Definition d_tree (s : sexp) : tnode := d_tnode 200 s.

Definition d_person (s : sexp) : person :=
  mkP (d_list d_str (d_nth s 0)) (d_list d_str (d_nth s 1)) (d_list d_str (d_nth s 2))
      (d_list d_str (d_nth s 3)) (d_list d_str (d_nth s 4)).
Definition d_entry (s : sexp) : entry :=
  mkE (d_str (d_nth s 0)) (d_str (d_nth s 1))
      (d_list (fun p => (d_str (d_nth p 0), d_str (d_nth p 1))) (d_nth s 2))
      (d_list (fun p => (d_str (d_nth p 0), d_list d_person (d_nth p 1))) (d_nth s 3)).
Definition d_dec (s : sexp) : dectable := d_list (fun p => (d_str (d_nth p 0), d_opt d_str (d_nth p 1))) s.
Definition d_nstyle (s : sexp) : nstyle := if d_bool s then NSLastFirst else NSPlain.
Definition d_cfg (s : sexp) : config :=
  mkCfg (if d_bool (d_nth s 0) then SAuthorYearTitle else SNone)
        (if d_bool (d_nth s 1) then LAlpha else LNumber)
        (d_nstyle (d_nth s 2)) (d_bool (d_nth s 3)) (d_Z (d_nth s 4)) (d_bool (d_nth s 5)).
Definition d_templates (s : sexp) : templates :=
  d_list (fun p => (d_str (d_nth p 0), d_opt d_tree (d_nth p 1))) s.

(* results travel compactly: maximal runs of atoms under the same markup stack,
   ((markups) (atoms)) with a character as its code point and a symbol as the list of its name *)
Definition markup_eqb (a b : markup) : bool :=
  match a, b with
  | MTag n, MTag m => str_eqb n m
  | MHRef u e, MHRef w x => str_eqb u w && Bool.eqb e x
  | MProt, MProt => true
  | _, _ => false
  end.
Fixpoint mlist_eqb (a b : list markup) : bool :=
  match a, b with
  | [], [] => true
  | x :: a', y :: b' => markup_eqb x y && mlist_eqb a' b'
  | _, _ => false
  end.
Fixpoint runs (f : ftext) : list (list markup * list atom) :=
  match f with
  | [] => []
  | (a, ms) :: r =>
    match runs r with
    | (ms', as') :: rest => if mlist_eqb ms ms' then (ms, a :: as') :: rest else (ms, [a]) :: (ms', as') :: rest
    | [] => [(ms, [a])]
    end
  end.
Definition e_atom_c (a : atom) : sexp := match a with ACh c => e_N c | ASym n => e_str n end.
Definition e_ftext (f : ftext) : sexp :=
  e_list (fun r : list markup * list atom => L [e_list e_markup (fst r); e_list e_atom_c (snd r)]) (runs f).
Definition e_tres {X} (f : X -> sexp) (r : tres X) : sexp :=
  match r with
  | TOk v => L [A 0%Z; f v]
  | TMissing fl k => L [A 1%Z; e_str fl; e_str k]
  | TErr => L [A 1%Z]
  | TCrash => L [A 2%Z]
  | TFuel => L [A 3%Z]
  end.
Definition e_fentry (x : fentry) : sexp :=
  let '(k, l, f) := x in L [e_str k; e_str l; e_ftext f].
