(* Model/CIDictStr.v -- the instance of Model/CIDict.v that is extracted and compared with
   pybtex/utils.py: keys are Python str (ASCII case mapping, Base/PyStr.lower), values are Python ints,
   sorted() is the code-point-wise lexicographic order.  repr() is modelled as the DATA it prints
   (ci_repr_data / cs_repr_data); its punctuation is not part of the property.
   No proofs in this file. *)
From Pybtex Require Import Base.Prelude Base.PyChar Base.PyStr Model.CIDict.

(* Python's str ordering: lexicographic by code point *)
Fixpoint str_leb (a b : str) : bool :=
  match a, b with
  | [], _ => true
  | _ :: _, [] => false
  | x :: a', y :: b' => if N.ltb x y then true else if N.ltb y x then false else str_leb a' b'
  end.
Fixpoint sort_insert (x : str) (l : list str) : list str :=
  match l with
  | [] => [x]
  | y :: r => if str_leb x y then x :: y :: r else y :: sort_insert x r
  end.
(* sorted(l) *)
Definition str_sort (l : list str) : list str := fold_right sort_insert [] l.

(* str.lower beyond ASCII: every case carries the table key -> key.lower() that Python computed for the keys
   occurring in it (closed under lower); keys outside the table (none in a well-formed case) fall back to the
   ASCII mapping.  The theorems are generic in `lower` (idempotent); idempotence of the table is re-checked by
   the harness on every run. *)
Fixpoint tbl_find (k : str) (t : list (str * str)) : option str :=
  match t with
  | [] => None
  | (a, b) :: r => if str_eqb k a then Some b else tbl_find k r
  end.
Definition tbl_lower (t : list (str * str)) (k : str) : str :=
  match tbl_find k t with Some l => l | None => lower k end.

(* mutable values of the extracted instance: a sequence [d1; ...; dn] of digits 1..9 (a Python list, or a dict /
   set / object used as a sequence by the harness) is the integer seq_base - (d1 ... dn read as a decimal number);
   every other integer is an immutable value.  Appending a digit: *)
Definition seq_base : Z := (-2000000000000000)%Z.
Definition mut_append (x : Z) (v : Z) : option Z :=
  if Z.leb v seq_base then Some (seq_base - ((seq_base - v) * 10 + x))%Z else None.

(* the instance *)
Definition scid := cid str Z.
Definition scis := cis str.
Definition sop_ := op str Z.
Definition s_step : scid -> sop_ -> scid * eres (ret str Z) := step str Z str_eqb lower.
Definition s_run := run str Z str_eqb lower.
Definition s_srun := srun str str_eqb lower str_sort.
Definition s_init (c : cls) (dflt : Z) (pairs : list (str * Z)) : scid :=
  match c with
  | ClsDefault => default_init str Z (FacVal dflt)
  | _ => ci_init str Z str_eqb lower c pairs
  end.
