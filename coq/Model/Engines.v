(* Model/Engines.v -- the BibTeX engine around the BST interpreter (property C06).  Mirrors /repo HEAD
   (after fix 1fd367c "make_bibliography() honours the style and bib_format arguments"):
     pybtex/auxfile.py:56-137             AuxData (command_re, handle_*, parse_line, parse_file), parse_file
     pybtex/__init__.py:34-102            Engine.make_bibliography / format_from_string(s) / format_from_file(s)
     pybtex/bibtex/__init__.py:39-93      BibTeXEngine.format_from_files
     pybtex/bibtex/interpreter.py:222-246 Interpreter.run   (through Model/Bst.v `run`)
     pybtex/bibtex/interpreter.py:284-299 Interpreter.command_read: parse_files + add_extra_citations +
                                          remove_missing_citations (through Model/Citations.v), and what the
                                          interpreter then sees of the database: entries[key], Entry.type,
                                          Entry._find_field (database/__init__.py:501-534), Crossref.value
     pybtex/database/input/__init__.py:46-61  BaseParser.parse_file / parse_files (several files, one database)
     posixpath.splitext                   (for the .bbl name)
   The file system is an abstract finite map from names to contents; the content of a bibliography
   file is the list of entries its parser yields, in file order (parsing itself is C01/C10's model;
   the harness prints the entries to .bib / .yaml text and checks they parse back).
   Reports (pybtex.errors.report_error in capture mode) are counted.  No proofs here. *)
From Pybtex Require Import Base.Prelude Base.PyChar Base.PyStr Model.BibtexStr Model.Wrap Model.Bst.
From Pybtex Require Model.Citations.


(* ---------------------------------------------------------------------------------- *)
(* the abstract file system                                                            *)

(* one database entry as a parser hands it to BibliographyData.add_entry *)
Record bentry := mkB {
  b_key : str;                     (* the key as written in the file *)
  b_type : str;                    (* the entry type as written in the file *)
  b_fields : list (str * str)      (* entry.fields (OrderedCaseInsensitiveDict), in file order *)
}.

Inductive fcontent :=
| FAux (lines : list str)                    (* an .aux file: its lines, without the line ends *)
| FBst (prog : list command)                 (* a .bst file: what bst.parse_file yields *)
| FBib (fmt : nat) (es : list bentry)        (* a bibliography file written in format fmt: what its parser yields *)
| FText (t : str).                           (* anything else, e.g. a written .bbl *)
Definition fsys := list (str * fcontent).

Definition fs_get (fs : fsys) (name : str) : option fcontent := alookup str_eqb name fs.
(* open(name, 'w').write(t): an existing file is replaced in place, a new one appended *)
Definition fs_write (fs : fsys) (name : str) (t : str) : fsys := aset str_eqb name (FText t) fs.

(* the files written (FText), as (name, text) *)
Definition fs_texts (fs : fsys) : list (str * str) :=
  flat_map (fun p => match snd p with FText t => [(fst p, t)] | _ => [] end) fs.

Definition E_IO : N := 20.      (* PybtexError("unable to open ...") *)
Definition E_AUX : N := 21.     (* AuxDataError *)

(* ---------------------------------------------------------------------------------- *)
(* auxfile.py                                                                          *)

Record auxdata := mkAux {
  ax_style : option str;           (* AuxData.style *)
  ax_data : option (list str);     (* AuxData.data *)
  ax_cites : list str;             (* AuxData.citations *)
  ax_canon : list (str * str);     (* AuxData._canonical_keys: lowered key -> spelling *)
  ax_reports : nat                 (* errors handed to report_error *)
}.
Definition aux_init : auxdata := mkAux None None [] [] 0.

Definition s_citation : str := Eval vm_compute in s2l "citation".
Definition s_bibdata : str := Eval vm_compute in s2l "bibdata".
Definition s_bibstyle : str := Eval vm_compute in s2l "bibstyle".
Definition s_input : str := Eval vm_compute in s2l "@input".
Definition s_comma : str := [c_comma].
Definition s_crossref : str := Eval vm_compute in s2l "crossref".
Definition s_bst : str := Eval vm_compute in s2l ".bst".
Definition s_bbl : str := Eval vm_compute in s2l ".bbl".
Definition s_bib : str := Eval vm_compute in s2l ".bib".
Definition s_yaml : str := Eval vm_compute in s2l ".yaml".
Definition s_bibtexml : str := Eval vm_compute in s2l ".bibtexml".

Inductive auxcmd := ACitation | ABibdata | ABibstyle | AInput.

(* the text up to the LAST closing brace of s (the group 'dot star' followed by a closing brace is greedy,
   and the dot does not match the line end); None when there is no closing brace *)
Fixpoint upto_last_rbrace (s : str) : option str :=
  match s with
  | [] => None
  | c :: t =>
    match upto_last_rbrace t with
    | Some r => Some (c :: r)
    | None => if N.eqb c c_rbrace then Some [] else None
    end
  end.

(* AuxData.command_re.match(line): backslash, one of citation|bibdata|bibstyle|@input, an opening brace,
   anything (greedy), a closing brace -- anchored at the line start *)
Definition match_command (line : str) : option (auxcmd * str) :=
  match line with
  | c :: rest =>
    if negb (N.eqb c c_bslash) then None else
    let try (name : str) (cmd : auxcmd) :=
      if startswith rest (name ++ [c_lbrace])
      then match upto_last_rbrace (skipn (S (length name)) rest) with
           | Some v => Some (cmd, v)
           | None => None
           end
      else None in
    match try s_citation ACitation with
    | Some r => Some r
    | None =>
      match try s_bibdata ABibdata with
      | Some r => Some r
      | None =>
        match try s_bibstyle ABibstyle with
        | Some r => Some r
        | None => try s_input AInput
        end
      end
    end
  | [] => None
  end.

(* handle_citation (auxfile.py:71-80) *)
Definition handle_citation_key (ad : auxdata) (key : str) : auxdata :=
  let kl := lower key in
  let bad := match alookup str_eqb kl (ax_canon ad) with
             | Some existing => negb (str_eqb key existing)
             | None => false
             end in
  mkAux (ax_style ad) (ax_data ad) (ax_cites ad ++ [key]) (aset str_eqb kl key (ax_canon ad))
        (ax_reports ad + (if bad then 1 else 0)).
Definition handle_citation (ad : auxdata) (keys : str) : auxdata :=
  fold_left handle_citation_key (split_on s_comma keys) ad.

(* handle_bibstyle (82-86) / handle_bibdata (88-92) *)
Definition handle_bibstyle (ad : auxdata) (style : str) : auxdata :=
  match ax_style ad with
  | Some _ => mkAux (ax_style ad) (ax_data ad) (ax_cites ad) (ax_canon ad) (S (ax_reports ad))
  | None => mkAux (Some style) (ax_data ad) (ax_cites ad) (ax_canon ad) (ax_reports ad)
  end.
Definition handle_bibdata (ad : auxdata) (bibdata : str) : auxdata :=
  match ax_data ad with
  | Some _ => mkAux (ax_style ad) (ax_data ad) (ax_cites ad) (ax_canon ad) (S (ax_reports ad))
  | None => mkAux (ax_style ad) (Some (split_on s_comma bibdata)) (ax_cites ad) (ax_canon ad) (ax_reports ad)
  end.

(* AuxData.parse_file(filename, toplevel=False) with parse_line / handle_command / handle_input
   (94-129).  depth bounds the nesting of \@input (a file that inputs itself recurses for ever in
   Python: RecursionError -- the model declines with OutOfFuel). *)
Fixpoint aux_parse_lines (depth : nat) (fs : fsys) {struct depth} : list str -> auxdata -> res auxdata :=
  fix go (lines : list str) (ad : auxdata) {struct lines} : res auxdata :=
  match lines with
  | [] => Ok ad
  | line :: more =>
    do ad' <- match match_command line with
              | None => Ok ad
              | Some (ACitation, v) => Ok (handle_citation ad v)
              | Some (ABibstyle, v) => Ok (handle_bibstyle ad v)
              | Some (ABibdata, v) => Ok (handle_bibdata ad v)
              | Some (AInput, v) =>
                match depth with
                | O => OutOfFuel
                | S d =>
                  match fs_get fs v with
                  | Some (FAux ls) => aux_parse_lines d fs ls ad
                  | Some _ => Unmodelled
                  | None => PyErr E_IO (-1)
                  end
                end
              end;
    go more ad'
  end.

(* auxfile.parse_file(filename) = AuxData(encoding).parse_file(filename): the two fatal errors *)
Definition aux_parse_file (depth : nat) (fs : fsys) (filename : str) : res auxdata :=
  match fs_get fs filename with
  | None => PyErr E_IO (-1)
  | Some (FAux ls) =>
    do ad <- aux_parse_lines depth fs ls aux_init;
    match ax_data ad, ax_style ad with
    | None, _ => PyErr E_AUX (-1)            (* found no \bibdata command *)
    | Some _, None => PyErr E_AUX (-1)       (* found no \bibstyle command *)
    | Some _, Some _ => Ok ad
    end
  | Some _ => Unmodelled
  end.

(* ---------------------------------------------------------------------------------- *)
(* what READ finds                                                                     *)

(* OrderedCaseInsensitiveDict.__getitem__ on entry.fields *)
Definition fget (name : str) (fields : list (str * str)) : option str :=
  match find (fun p => str_eqb (lower name) (lower (fst p))) fields with
  | Some p => Some (snd p)
  | None => None
  end.
(* what Model/Citations.v keeps of an entry: its key and entry.fields.get('crossref') *)
Definition proj (e : bentry) : Citations.entry := (b_key e, fget s_crossref (b_fields e)).

(* BibliographyData.add_entry once per entry of the files, entries carried along:
   the pairs (entry.key as stored, entry) of bib_data.entries, in insertion order *)
Fixpoint read_full (db : list bentry) (bd : Citations.bibdata) (acc : list (str * bentry)) : Citations.bibdata * list (str * bentry) :=
  match db with
  | [] => (bd, acc)
  | e :: r =>
    let acc' := if Citations.want_entry bd (b_key e) && negb (Citations.ed_mem (b_key e) (Citations.bd_entries bd))
                then acc ++ [(Citations.get_canonical_key bd (b_key e), e)] else acc in
    read_full r (Citations.add_entry bd (proj e)) acc'
  end.
Definition stored_entries (db : list bentry) (cites : list str) : list (str * bentry) :=
  snd (read_full db (Citations.bd_init (Some cites)) []).
(* bib_data.entries[key] *)
Definition sget (k : str) (E : list (str * bentry)) : option (str * bentry) :=
  find (fun p => Citations.keyb k (fst p)) E.

(* Entry._find_field(name, bib_data) (database/__init__.py:501-534) with person_fields=[] (no
   persons): own field, else the cross-referenced entry's, the chain cut at a revisit (KeyError =
   None).  fuel = number of entries + 1 is never exhausted before a revisit. *)
Fixpoint find_field (fuel : nat) (E : list (str * bentry)) (name : str) (k : str) (e : bentry)
         (visited : list str) : option str :=
  match fget name (b_fields e) with
  | Some v => Some v
  | None =>
    match fuel with
    | O => None
    | S f =>
      match fget s_crossref (b_fields e) with
      | None => None
      | Some p =>
        if existsb (str_eqb k) visited then None else
        match sget p E with
        | None => None
        | Some (pk, pe) => find_field f E name pk pe (k :: visited)
        end
      end
    end
  end.

(* the fields the interpreter can see of an entry, in the order _find_field looks for them: its own
   (names lower-cased), then those of the entry it cross-references, and so on along the chain (cut
   at a revisit, at a dangling reference, and by the fuel).  Looking a name up in this list (first
   match) is find_field. *)
Fixpoint chain_fields (fuel : nat) (E : list (str * bentry)) (k : str) (e : bentry) (visited : list str)
  : list (str * str) :=
  map (fun f => (lower (fst f), snd f)) (b_fields e) ++
  match fuel with
  | O => []
  | S f =>
    match fget s_crossref (b_fields e) with
    | None => []
    | Some p =>
      if existsb (str_eqb k) visited then [] else
      match sget p E with
      | None => []
      | Some (pk, pe) => chain_fields f E pk pe (k :: visited)
      end
    end
  end.

(* the entry as the interpreter's Field / Crossref objects, type$ and cite$ see it *)
Definition to_entry (E : list (str * bentry)) (k : str) (e : bentry) : Bst.entry :=
  mkEntry k (lower (b_type e))
    (chain_fields (S (length E)) E k e [])
    (match fget s_crossref (b_fields e) with
     | Some p => match sget p E with Some (pk, _) => Some pk | None => None end
     | None => None
     end).

(* Interpreter.command_read over the concatenated entries of the bibliography files *)
Definition engine_read (db : list bentry) (cites : list str) (m : Z) : readres :=
  let fr := Citations.command_read_raw (map proj db) cites m in
  let E := stored_entries db cites in
  mkRead (fst fr)
         (flat_map (fun c => match sget c E with Some (k, e) => [(c, to_entry E k e)] | None => [] end) (fst fr))
         []
         (length (snd fr)).

(* ---------------------------------------------------------------------------------- *)
(* BaseParser.parse_files over file names / file objects                               *)
Inductive bibsrc :=
| BName (n : str)                 (* a file name *)
| BObj (fmt : nat) (es : list bentry).   (* an open file object (StringIO) whose text is in format fmt *)

Fixpoint parse_files (fs : fsys) (fmt : nat) (srcs : list bibsrc) : res (list bentry) :=
  match srcs with
  | [] => Ok []
  | s :: r =>
    do es <- match s with
             | BName n => match fs_get fs n with
                          | None => PyErr E_IO (-1)
                          | Some (FBib f es) => if Nat.eqb f fmt then Ok es else Unmodelled
                          | Some _ => Unmodelled
                          end
             | BObj f es => if Nat.eqb f fmt then Ok es else Unmodelled
             end;
    do rest <- parse_files fs fmt r;
    Ok (es ++ rest)
  end.

(* ---------------------------------------------------------------------------------- *)
(* Interpreter.run with the real READ                                                  *)
Section Run.
  Variable fmt_name : str -> str -> res str.
  Variable cw : char -> Z.
  Variable fuel : nat.

  Definition is_read (c : command) : bool := let '(Cmd name _) := c in str_eqb (lower name) nm_read.
  (* the commands before the first READ, and the rest starting with it *)
  Fixpoint split_at_read (cs : list command) : list command * list command :=
    match cs with
    | [] => ([], [])
    | c :: r => if is_read c then ([], cs) else let (a, b) := split_at_read r in (c :: a, b)
    end.

  (* Interpreter(bib_format, bib_encoding).run(bst_script, citations, bib_files, min_crossrefs):
     the bibliography files are opened when READ is executed (a missing file is an error only
     then); the model's Bst.run takes what READ finds from st_reads, so it is put there just
     before the first READ.  A second READ is outside the modelled domain (Bst.run declines). *)
  Definition engine_run (fs : fsys) (prog : list command) (cites : list str) (srcs : list bibsrc)
             (fmt : nat) (m : Z) : res state :=
    let (pre, post) := split_at_read prog in
    do st1 <- run fmt_name cw fuel (initial_state cites []) pre;
    match post with
    | [] => Ok st1
    | Cmd _ [] :: _ =>
      do db <- parse_files fs fmt srcs;
      run fmt_name cw fuel (set_db st1 (st_db st1) [engine_read db (st_cites st1) m]) post
    | _ => run fmt_name cw fuel st1 post      (* READ with arguments: TypeError before any file is opened *)
    end.

  (* ---------------------------------------------------------------------------------- *)
  (* the engines                                                                         *)
  Record outcome := mkOut {
    o_fs : fsys;                 (* the file system afterwards *)
    o_ret : option str;          (* the returned string (None: Python returns None) *)
    o_reports : nat              (* errors reported (capture mode) *)
  }.

  (* BibTeXEngine.format_from_files (bibtex/__init__.py:39-93) *)
  Definition format_from_files (fs : fsys) (srcs : list bibsrc) (style : str) (cites : option (list str))
             (bib_format : option nat) (m : Z) (output_filename : option str) (add_output_suffix : bool)
    : res outcome :=
    let cites := match cites with Some c => c | None => [Citations.star] end in
    let fmt := match bib_format with Some f => f | None => 0 end in
    do prog <- match fs_get fs (style ++ s_bst) with
               | None => PyErr E_IO (-1)
               | Some (FBst p) => Ok p
               | Some _ => Unmodelled
               end;
    do st <- engine_run fs prog cites srcs fmt m;
    let bbl := output_of st in
    do name <- (if add_output_suffix
                then match output_filename with Some n => Ok (Some (n ++ s_bbl)) | None => Crash end
                else Ok output_filename);
    match name with
    | Some (c :: n) => Ok (mkOut (fs_write fs (c :: n) bbl) None (length (st_warn st)))
    | _ => Ok (mkOut fs (Some bbl) (length (st_warn st)))        (* None or '' : StringIO, value returned *)
    end.

  (* Engine.format_from_strings / format_from_string (pybtex/__init__.py:61-81): StringIO objects *)
  Definition format_from_strings (fs : fsys) (bibs : list (nat * list bentry)) (style : str)
             (cites : option (list str)) (bib_format : option nat) (m : Z) : res outcome :=
    format_from_files fs (map (fun b => BObj (fst b) (snd b)) bibs) style cites bib_format m None false.
  Definition format_from_string (fs : fsys) (bib : nat * list bentry) (style : str)
             (cites : option (list str)) (bib_format : option nat) (m : Z) : res outcome :=
    format_from_strings fs [bib] style cites bib_format m.
  (* Engine.format_from_file (83-92) *)
  Definition format_from_file (fs : fsys) (filename : str) (style : str)
             (cites : option (list str)) (bib_format : option nat) (m : Z) : res outcome :=
    format_from_files fs [BName filename] style cites bib_format m None false.

  (* bib_format.default_suffix of the three shipped input plugins *)
  Definition suffix_of (fmt : nat) : str :=
    match fmt with
    | O => s_bib
    | S O => s_yaml
    | _ => s_bibtexml
    end.

  (* posixpath.splitext(p)[0] *)
  Fixpoint last_index (c : char) (s : str) (i : nat) (acc : option nat) : option nat :=
    match s with
    | [] => acc
    | x :: t => last_index c t (S i) (if N.eqb x c then Some i else acc)
    end.
  Definition splitext_root (p : str) : str :=
    let sep := last_index 47%N p 0 None in
    match last_index 46%N p 0 None with
    | None => p
    | Some dot =>
      let start := match sep with Some s => S s | None => 0 end in
      if Nat.ltb dot start then p
      else (* a dot that is preceded, within the base name, by something other than dots *)
        if forallb (fun c => N.eqb c 46%N) (firstn (dot - start) (skipn start p)) then p
        else firstn dot p
    end.

  Definition aux_depth : nat := 8.

  (* Engine.make_bibliography (pybtex/__init__.py:34-59) *)
  Definition make_bibliography (fs : fsys) (aux_filename : str) (style : option str)
             (bib_format : option nat) (m : Z) : res outcome :=
    let fmt := match bib_format with Some f => f | None => 0 end in
    do ad <- aux_parse_file aux_depth fs aux_filename;
    match (match style with Some s => Some s | None => ax_style ad end), ax_data ad with
    | Some sty, Some data =>
      do o <- format_from_files fs (map (fun n => BName (n ++ suffix_of fmt)) data) sty (Some (ax_cites ad))
                                (Some fmt) m (Some (splitext_root aux_filename)) true;
      Ok (mkOut (o_fs o) (o_ret o) (ax_reports ad + o_reports o))
    | _, _ => Crash
    end.
End Run.

(* PybtexCommandLine.run (pybtex/__main__.py:83-116), BibTeX engine: `pybtex [-s style] [-f format] [--min-crossrefs n] file`
   -- '.aux' is appended unless the name already ends in it (posixpath.splitext), everything else is handed on unchanged *)
Definition s_aux : str := Eval vm_compute in s2l ".aux".
Definition cli_aux_name (f : str) : str :=
  if str_eqb (skipn (length (splitext_root f)) f) s_aux then f else f ++ s_aux.

Definition written_text (o : outcome) : list (str * str) := fs_texts (o_fs o).

Definition command_line (fmt_name : str -> str -> res str) (cw : char -> Z) (fuel : nat) (fs : fsys) (filename : str)
           (style : option str) (bib_format : option nat) (min_crossrefs : option Z) : res outcome :=
  make_bibliography fmt_name cw fuel fs (cli_aux_name filename) style bib_format
                    (match min_crossrefs with Some m => m | None => 2%Z end).

(* the options of the command line that reach the BibTeX engine, as optparse hands them on: every option may be
   given several times, the last occurrence counts; --terse is accepted and ignored *)
Inductive cli_opt :=
| OptStyle (s : str)             (* -s STYLE / --style STYLE / --style=STYLE *)
| OptFormat (f : nat)            (* -f FORMAT / --bibliography-format=FORMAT (the input plug-in it names) *)
| OptMinCrossrefs (m : Z)        (* --min-crossrefs N / -min-crossrefs=N *)
| OptTerse.                      (* --terse *)
Fixpoint cli_style (opts : list cli_opt) : option str :=
  match opts with
  | [] => None
  | o :: r => match cli_style r with Some s => Some s | None => match o with OptStyle s => Some s | _ => None end end
  end.
Fixpoint cli_format (opts : list cli_opt) : option nat :=
  match opts with
  | [] => None
  | o :: r => match cli_format r with Some f => Some f | None => match o with OptFormat f => Some f | _ => None end end
  end.
Fixpoint cli_min_crossrefs (opts : list cli_opt) : option Z :=
  match opts with
  | [] => None
  | o :: r => match cli_min_crossrefs r with Some m => Some m | None => match o with OptMinCrossrefs m => Some m | _ => None end end
  end.
(* pybtex OPTIONS FILE *)
Definition command_line_argv (fmt_name : str -> str -> res str) (cw : char -> Z) (fuel : nat) (fs : fsys)
           (opts : list cli_opt) (filename : str) : res outcome :=
  command_line fmt_name cw fuel fs filename (cli_style opts) (cli_format opts) (cli_min_crossrefs opts).
