(* Model/BibtexStr.v -- pybtex/bibtex/utils.py: the brace- and special-character-aware
   string primitives (BibTeXString / scan_bibtex_string, bibtex_len, bibtex_prefix,
   bibtex_substring, bibtex_purify, change_case, bibtex_width, _find_closing_brace,
   split_tex_string, split_name_list, bibtex_first_letter, bibtex_abbreviate).
   Mirrors the code as of /repo HEAD (after the fix: commits for bibtex_prefix and
   bibtex_substring).  No proofs here. *)
From Pybtex Require Import Base.Prelude Base.PyChar Base.PyStr.

Definition max_level : nat := 100.
Definition E_BIBTEX : N := 10.    (* BibTeXError('too many nested braces') *)

(* a scanned token: its text (one character, or the inner string of a special
   character) and its brace level, exactly the tuples scan_bibtex_string yields *)
Definition tok := (str * nat)%type.

Definition is_lbrace (c : char) := N.eqb c c_lbrace.
Definition is_rbrace (c : char) := N.eqb c c_rbrace.
Definition is_brace (c : char) := is_lbrace c || is_rbrace c.

(* utils.py:96-147 BibTeXString.__init__/find_closing_brace/traverse, 408-418
   scan_bibtex_string -- flattened.  [sp = Some (d, acc)]: we are inside a special
   character (a level-1 group whose first character is a backslash), [d] braces deep
   inside it, [acc] its inner string so far (reversed).  A special character that is
   never closed still yields its closing brace token (traverse() yields close(child)
   unconditionally for special characters). *)
Fixpoint scan_go (s : str) (level : nat) (sp : option (nat * str)) : res (list tok) :=
  match s with
  | [] =>
    match sp with
    | None => Ok []
    | Some (_, acc) => Ok [(rev acc, 1); ([c_rbrace], 0)]
    end
  | c :: t =>
    match sp with
    | Some (d, acc) =>
      if is_lbrace c then
        if Nat.ltb max_level (2 + d) then PyErr E_BIBTEX (-1)
        else scan_go t level (Some (S d, c :: acc))
      else if is_rbrace c then
        match d with
        | O => do r <- scan_go t 0 None; Ok ((rev acc, 1) :: ([c_rbrace], 0) :: r)
        | S d' => scan_go t level (Some (d', c :: acc))
        end
      else scan_go t level (Some (d, c :: acc))
    | None =>
      if is_lbrace c then
        if Nat.eqb level 0 && (match t with b :: _ => N.eqb b c_bslash | [] => false end) then
          do r <- scan_go t 0 (Some (0, [])); Ok (([c_lbrace], 1) :: r)
        else if Nat.ltb max_level (S level) then PyErr E_BIBTEX (-1)
        else do r <- scan_go t (S level) None; Ok (([c_lbrace], S level) :: r)
      else if is_rbrace c && Nat.ltb 0 level then
        do r <- scan_go t (pred level) None; Ok (([c_rbrace], pred level) :: r)
      else do r <- scan_go t level None; Ok (([c], level) :: r)
    end
  end.

Definition scan (s : str) : res (list tok) := scan_go s 0 None.

(* `char not in '{}'` -- substring test against the two-character string "{}" *)
Definition tok_is_brace (t : str) : bool :=
  match t with
  | [] => true
  | [c] => is_brace c
  | [a; b] => is_lbrace a && is_rbrace b
  | _ => false
  end.

(* utils.py:252-287 bibtex_len *)
Definition bibtex_len (s : str) : res nat :=
  do ts <- scan s; Ok (length (filter (fun t => negb (tok_is_brace (fst t))) ts)).

(* utils.py:321-362 bibtex_prefix (after the fixes: nothing for num_chars <= 0 or ""; the
   brace level is counted over the emitted characters, clamped at 0, so that braces opened
   inside an unclosed special character are closed too).
   [brace_count t lvl]: the inner loop `for brace in char` *)
Fixpoint brace_count (t : str) (lvl : nat) : nat :=
  match t with
  | [] => lvl
  | c :: r =>
    if is_lbrace c then brace_count r (S lvl)
    else if is_rbrace c then brace_count r (pred lvl)
    else brace_count r lvl
  end.
(* [lastlevel] is the running brace_level *)
Fixpoint prefix_go (ts : list tok) (len : Z) (n : Z) (lastlevel : nat) : str * nat :=
  match ts with
  | [] => ([], lastlevel)
  | (t, _) :: rest =>
    let lvl := brace_count t lastlevel in
    let len' := if tok_is_brace t then len else (len + 1)%Z in
    if (n <=? len')%Z then (t, lvl)
    else let r := prefix_go rest len' n lvl in (t ++ fst r, snd r)
  end.
Definition bibtex_prefix (s : str) (n : Z) : res str :=
  if (0 <? n)%Z then
    do ts <- scan s;
    let r := prefix_go ts 0 n 0 in Ok (fst r ++ repeat c_rbrace (snd r))
  else Ok [].   (* the string is not even scanned: no nesting error for n <= 0 *)

(* utils.py:215-249 bibtex_substring (after the fix: window clamped, no wrap-around) *)
Definition bibtex_substring (s : str) (start len : Z) : str :=
  let n := Z.of_nat (length s) in
  if (0 <? start)%Z then
    let s0 := (start - 1)%Z in let e0 := (s0 + len)%Z in
    pyslice s (Some (Z.max s0 0)) (Some (Z.max e0 0))
  else if (start <? 0)%Z then
    let e0 := (n + start + 1)%Z in let s0 := (e0 - len)%Z in
    pyslice s (Some (Z.max s0 0)) (Some (Z.max e0 0))
  else [].

(* purify_special_char_re = ^\\[A-Za-z]+ removed from the front of a special character *)
Fixpoint drop_alpha (s : str) : str :=
  match s with c :: t => if is_alpha c then drop_alpha t else s | [] => [] end.
Definition strip_control_sequence (t : str) : str :=
  match t with
  | b :: c :: r => if N.eqb b c_bslash && is_alpha c then drop_alpha r else t
  | _ => t
  end.

(* utils.py:359-405 bibtex_purify *)
Definition purify_tok (t : tok) : str :=
  let (s, l) := t in
  if Nat.eqb l 1 && (match s with b :: _ => N.eqb b c_bslash | [] => false end) then
    filter is_alnum (strip_control_sequence s)
  else
    match s with
    | [c] => if is_alnum c then [c]
             else if is_space c || N.eqb c c_hyphen || N.eqb c c_tilde then [c_space] else []
    | _ => []
    end.
Definition bibtex_purify (s : str) : res str :=
  do ts <- scan s; Ok (flat_map purify_tok ts).

(* utils.py:149-212 change_case.  mode: 0 = 'l', 1 = 'u', 2 = 't' *)
Inductive cstate := St_start | St_after_colon | St_normal.
Definition convert (mode : nat) (st : cstate) (s : str) : str :=
  match mode with
  | 0 => lower s
  | 1 => upper s
  | _ => match st with St_start => s | _ => lower s end
  end.
Definition convert_special_char (mode : nat) (st : cstate) (s : str) : str :=
  join [c_space]
    (map (fun w => match w with b :: _ => if N.eqb b c_bslash then w else convert mode st w | [] => convert mode st w end)
         (split_on [c_space] s)).
Fixpoint change_case_go (ts : list tok) (mode : nat) (st : cstate) : str :=
  match ts with
  | [] => []
  | (t, l) :: rest =>
    match l with
    | O =>
      let st' := match t with
                 | [c] => if N.eqb c 58 then St_after_colon
                          else if is_space c then match st with St_after_colon => St_start | _ => St_normal end
                          else St_normal
                 | _ => St_normal
                 end in
      convert mode st t ++ change_case_go rest mode st'
    | _ =>
      (if Nat.eqb l 1 && (match t with b :: _ => N.eqb b c_bslash | [] => false end)
       then convert_special_char mode st t else t) ++ change_case_go rest mode st
    end
  end.
Definition change_case (s : str) (mode : nat) : res str :=
  do ts <- scan s; Ok (change_case_go ts mode St_start).

(* utils.py:290-322 bibtex_width (after fix 7dc0a71); [cw] = charwidths.get(c, 0).  A token is a special
   character iff it starts with a backslash and the previous token opened a group at brace level 1. *)
Definition is_open1 (t : tok) : bool :=
  let (s, l) := t in Nat.eqb l 1 && (match s with [c] => is_lbrace c | _ => false end).
Definition width_tok (cw : char -> Z) (after_open : bool) (t : tok) : Z :=
  let (s, l) := t in
  if after_open && (match s with b :: _ => N.eqb b c_bslash | [] => false end) then
    (fold_left (fun a c => if is_brace c then a else a + cw c) (skipn 2 s) 0 - 1000)%Z
  else match s with [c] => cw c | _ => 0%Z end.
Fixpoint width_go (cw : char -> Z) (ts : list tok) (after_open : bool) (acc : Z) : Z :=
  match ts with
  | [] => acc
  | t :: r => width_go cw r (is_open1 t) (acc + width_tok cw after_open t)%Z
  end.
Definition bibtex_width (cw : char -> Z) (s : str) : res Z :=
  do ts <- scan s; Ok (width_go cw ts false 0%Z).

(* utils.py:452-482 _find_closing_brace (after the fix): position just after the brace that
   brings the level (starting at 1) to 0; if the level never gets there, the end of the
   string (everything left belongs to the never-closed group).  [last] is unused since the
   fix (kept for the signature). *)
Fixpoint fcb_pos (s : str) (level i last : nat) : nat :=
  match s with
  | [] => i
  | c :: t =>
    if is_lbrace c then fcb_pos t (S level) (S i) (S i)
    else if is_rbrace c then
      match level with
      | S (S l') => fcb_pos t (S l') (S i) (S i)
      | _ => S i
      end
    else fcb_pos t level (S i) last
  end.
Definition find_closing_brace (s : str) : str * str :=
  let p := fcb_pos s 1 0 0 in
  if Nat.eqb p 0 then (s, []) else (firstn p s, skipn p s).

(* regular-expression separators, as "length of the match at the start of s" given the
   previous character (0 = no match) *)
Definition sep_matcher := option char -> str -> nat.

(* BIBTEX_SPACE_RE = (?:\\ |\s|(?<!\\)~)+ *)
Fixpoint space_run (prev : option char) (s : str) : nat :=
  match s with
  | [] => 0
  | c :: t =>
    if is_space c then S (space_run (Some c) t)
    else if N.eqb c c_tilde then
      match prev with
      | Some p => if N.eqb p c_bslash then 0 else S (space_run (Some c) t)
      | None => S (space_run (Some c) t)
      end
    else if N.eqb c c_bslash then
      match t with
      | d :: t' => if N.eqb d c_space then S (S (space_run (Some d) t')) else 0
      | [] => 0
      end
    else 0
  end.
Definition sep_space : sep_matcher := space_run.
Definition sep_comma : sep_matcher := fun _ s => match s with c :: _ => if N.eqb c c_comma then 1 else 0 | [] => 0 end.
Definition sep_hyphen : sep_matcher := fun _ s => match s with c :: _ => if N.eqb c c_hyphen then 1 else 0 | [] => 0 end.
(* ' [Aa][Nn][Dd] ' *)
Definition sep_and : sep_matcher := fun _ s =>
  match s with
  | a :: b :: c :: d :: e :: _ =>
    if N.eqb a c_space && N.eqb (to_lower b) 97 && N.eqb (to_lower c) 110 && N.eqb (to_lower d) 100 && N.eqb e c_space
    then 5 else 0
  | _ => 0
  end.

(* re.split for a pattern that never matches the empty string: leftmost,
   non-overlapping.  acc = current piece reversed *)
Fixpoint re_split_go (fuel : nat) (m : sep_matcher) (prev : option char) (s acc : str) : list str :=
  match fuel with
  | O => [rev acc ++ s]
  | S f =>
    match s with
    | [] => [rev acc]
    | c :: t =>
      match m prev s with
      | O => re_split_go f m (Some c) t (c :: acc)
      | S k => rev acc :: re_split_go f m (Some (nth k s c)) (skipn (S k) s) []
      end
    end
  end.
Definition re_split (m : sep_matcher) (s : str) : list str := re_split_go (S (length s)) m None s [].

(* str.partition('{') *)
Fixpoint partition_brace (s : str) : str * bool * str :=
  match s with
  | [] => ([], false, [])
  | c :: t => if is_lbrace c then ([], true, t)
              else let '(h, b, r) := partition_brace t in (c :: h, b, r)
  end.

(* utils.py:490-552 split_tex_string: the while loop.  word_parts is kept as the list of
   pieces (so that "if word_parts" -- list non-empty -- is modelled exactly) *)
Fixpoint split_loop (fuel : nat) (m : sep_matcher) (s : str) (result : list str) (word_parts : list str)
  : option (list str) :=
  match fuel with
  | O => None
  | S f =>
    let '(head, brace, rest) := partition_brace s in
    let '(result1, wp1) :=
      match head with
      | [] => (result, word_parts)
      | _ =>
        let hp := re_split m head in
        let firsts := removelast hp in
        let lastp := last hp [] in
        match firsts with
        | [] => (result, word_parts ++ [lastp])
        | w :: ws => (result ++ [concat (word_parts ++ [w])] ++ ws, [lastp])
        end
      end in
    if brace then
      let '(upto, rest') := find_closing_brace rest in
      split_loop f m rest' result1 (wp1 ++ [[c_lbrace]; upto])
    else
      Some (match wp1 with [] => result1 | _ => result1 ++ [concat wp1] end)
  end.

Definition split_tex_string_gen (m : sep_matcher) (s : str) (do_strip filter_empty : bool) : res (list str) :=
  match split_loop (S (length s)) m s [] [] with
  | None => OutOfFuel
  | Some r =>
    let r1 := if do_strip then map strip r else r in
    Ok (if filter_empty then filter (fun p => negb (match p with [] => true | _ => false end)) r1 else r1)
  end.

(* sep=None: BIBTEX_SPACE_RE with filter_empty forced *)
Definition split_tex_space (s : str) : res (list str) := split_tex_string_gen sep_space s true true.
Definition split_tex_comma (s : str) : res (list str) := split_tex_string_gen sep_comma s true false.
Definition split_tex_hyphen (s : str) : res (list str) := split_tex_string_gen sep_hyphen s true false.
(* utils.py:421-442 split_name_list *)
Definition split_name_list (s : str) : res (list str) := split_tex_string_gen sep_and s true false.

(* utils.py:555-580 bibtex_first_letter: iterate over BibTeXString(string) -- characters and
   special-character inner strings, no brace tokens from open/close.  We recompute that
   iteration directly (same state machine as scan_go, without the brace tokens). *)
Fixpoint iter_go (s : str) (level : nat) (sp : option (nat * str)) : res (list str) :=
  match s with
  | [] => match sp with None => Ok [] | Some (_, acc) => Ok [rev acc] end
  | c :: t =>
    match sp with
    | Some (d, acc) =>
      if is_lbrace c then
        if Nat.ltb max_level (2 + d) then PyErr E_BIBTEX (-1)
        else iter_go t level (Some (S d, c :: acc))
      else if is_rbrace c then
        match d with
        | O => do r <- iter_go t 0 None; Ok (rev acc :: r)
        | S d' => iter_go t level (Some (d', c :: acc))
        end
      else iter_go t level (Some (d, c :: acc))
    | None =>
      if is_lbrace c then
        if Nat.eqb level 0 && (match t with b :: _ => N.eqb b c_bslash | [] => false end) then
          iter_go t 0 (Some (0, []))
        else if Nat.ltb max_level (S level) then PyErr E_BIBTEX (-1)
        else iter_go t (S level) None
      else if is_rbrace c && Nat.ltb 0 level then iter_go t (pred level) None
      else do r <- iter_go t level None; Ok ([c] :: r)
    end
  end.

Fixpoint first_letter_of (cs : list str) : str :=
  match cs with
  | [] => []
  | t :: rest =>
    match t with
    | b :: _ :: _ => if N.eqb b c_bslash then c_lbrace :: t ++ [c_rbrace] else first_letter_of rest
    | [c] => if is_alpha c then [c] else first_letter_of rest
    | [] => first_letter_of rest
    end
  end.
Definition bibtex_first_letter (s : str) : res str :=
  do cs <- iter_go s 0 None; Ok (first_letter_of cs).

(* utils.py:583-604 bibtex_abbreviate(string, delimiter, separator='-');
   delimiter None -> ".-" *)
Fixpoint map_res {X Y} (f : X -> res Y) (l : list X) : res (list Y) :=
  match l with
  | [] => Ok []
  | x :: r => do y <- f x; do ys <- map_res f r; Ok (y :: ys)
  end.
Definition bibtex_abbreviate (s : str) (delimiter : option str) : res str :=
  do toks <- split_tex_hyphen s;
  do letters <- map_res bibtex_first_letter toks;
  let d := match delimiter with None => [46%N; c_hyphen] | Some d => d end in
  Ok (join d (filter (fun l => negb (match l with [] => true | _ => false end)) letters)).

(* ---- the same functions as the BST interpreter reaches them (pybtex/bibtex/builtins.py):
   each builtin pops its operands (last pushed first) and pushes the util's result ---- *)
(* builtins.py:259-264 substring$ : pops length, start, string *)
Definition bst_substring (s : str) (start len : Z) : res str := Ok (bibtex_substring s start len).
(* builtins.py:283-287 text.prefix$ : pops l, s *)
Definition bst_text_prefix (s : str) (l : Z) : res str := bibtex_prefix s l.
(* builtins.py:278-281 text.length$ *)
Definition bst_text_length (s : str) : res nat := bibtex_len s.
(* builtins.py:246-249 purify$ *)
Definition bst_purify (s : str) : res str := bibtex_purify s.
(* builtins.py:133-145 change.case$ : pops mode, string; empty mode and a first letter
   other than l/u/t (case-insensitive) are BibTeX errors *)
Definition bst_change_case (s mode : str) : res str :=
  match mode with
  | [] => PyErr E_BIBTEX (-1)
  | c :: _ =>
    let m := to_lower c in
    if N.eqb m 108 then change_case s 0
    else if N.eqb m 117 then change_case s 1
    else if N.eqb m 116 then change_case s 2
    else PyErr E_BIBTEX (-1)
  end.
(* builtins.py:312-315 width$ *)
Definition bst_width (cw : char -> Z) (s : str) : res Z := bibtex_width cw s.
(* builtins.py:233-236 num.names$ *)
Definition bst_num_names (s : str) : res nat := do l <- split_name_list s; Ok (length l).
