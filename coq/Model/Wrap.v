(* Model/Wrap.v -- pybtex/bibtex/utils.py:33-93  wrap / find_break / iter_lines,
   and pybtex/bibtex/interpreter.py:213-220 Interpreter.output / newline. *)
From Pybtex Require Import Base.Prelude Base.PyChar Base.PyStr.

(* positions of whitespace_re = (\s) matches, i.e. of whitespace characters *)
Fixpoint ws_positions (s : str) (i : nat) : list nat :=
  match s with
  | [] => []
  | c :: t => if is_space c then i :: ws_positions t (S i) else ws_positions t (S i)
  end.

(* find_break: over pairwise(matches) -- the last match is paired with None --
   the first match m0 with (next is None or next.start() > width) and m0.start() > min_width *)
Fixpoint find_break (ps : list nat) (width minw : nat) : option nat :=
  match ps with
  | [] => None
  | p :: rest =>
    let nxt_ok := match rest with [] => true | q :: _ => Nat.ltb width q end in
    if nxt_ok && Nat.ltb minw p then Some p else find_break rest width minw
  end.

(* iter_lines: the while loop, on fuel (|s|+1 suffices: wrap_total) *)
Fixpoint iter_lines (fuel : nat) (s : str) (width : nat) (indent : str) : option (list str) :=
  match fuel with
  | O => None
  | S f =>
    if Nat.ltb width (length s) then
      match find_break (ws_positions s 0) width (length indent) with
      | None => Some [s]
      | Some b =>
        match iter_lines f (indent ++ skipn (S b) s) width indent with
        | None => None
        | Some ls => Some (firstn b s :: ls)
        end
      end
    else Some (match s with [] => [] | _ => [s] end)
  end.

Definition wrap_lines (s : str) (width : nat) (indent : str) : option (list str) :=
  option_map (map rstrip) (iter_lines (S (length s)) s width indent).

Definition wrap (s : str) (width : nat) (indent : str) : res str :=
  match wrap_lines s width indent with
  | Some ls => Ok (join [c_nl] ls)
  | None => OutOfFuel
  end.

(* Interpreter.newline: output_lines += [wrap(''.join(buffer)), '\n']; buffer = [] *)
Definition default_width : nat := 79.
Definition default_indent : str := [c_space; c_space].
Definition newline (buffer lines : list str) : res (list str * list str) :=
  do w <- wrap (concat buffer) default_width default_indent;
  Ok ([], lines ++ [w; [c_nl]]).

(* a run of write$ / newline$ operations: inl s = write$ s, inr tt = newline$;
   result = ''.join(output_lines) *)
Fixpoint run_output (ops : list (str + unit)) (buffer lines : list str) : res str :=
  match ops with
  | [] => Ok (concat lines)
  | inl s :: r => run_output r (buffer ++ [s]) lines
  | inr _ :: r => do bl <- newline buffer lines; run_output r (fst bl) (snd bl)
  end.
