(* Model/Citations.v -- citation resolution (property C05).  Mirrors /repo HEAD:
     pybtex/utils.py:337-379            CaseInsensitiveSet (add / __contains__ / get_canonical_key)
     pybtex/utils.py:150-175, 260-262   OrderedCaseInsensitiveDict (__getitem__ / __contains__ / __iter__)
     pybtex/database/__init__.py:65-105 BibliographyData.__init__
     pybtex/database/__init__.py:179-206 want_entry / get_canonical_key / add_entry
     pybtex/database/__init__.py:212-314 _get_crossreferenced_citations / _expand_wildcard_citations /
                                         add_extra_citations
     pybtex/database/input/bibtex.py:182-183,236-242,294-300,357-378  want_current_entry / SkipEntry /
                                         Parser.process_entry  (parse-time filtering: the file is the list of
                                         its (key, crossref) entries in file order)
     pybtex/bibtex/interpreter.py:284-306  Interpreter.command_read / remove_missing_citations
     pybtex/style/formatting/__init__.py:75-91  BaseStyle.format_bibliography (front end)
     pybtex/__init__.py:112-165           PybtexEngine.format_from_files (front end)
   Keys are strings; `lower` is Python's str.lower on the modelled (ASCII) domain.
   Errors go through pybtex.errors.report_error: collected in a report list (capture mode); in
   strict mode the first report is raised (PyErr).  No proofs here. *)
From Pybtex Require Import Base.Prelude Base.PyChar Base.PyStr.

Definition key := str.
Definition star : key := [42%N].                       (* '*' *)

(* a.lower() == b.lower() *)
Definition keyb (a b : key) : bool := str_eqb (lower a) (lower b).

(* ---- CaseInsensitiveSet (utils.py:337-379): the spellings held in _keys, one per lowered key.
        Iteration order of the underlying set is never observed by the modelled code. *)
Definition cis := list key.
(* __contains__: key.lower() in self._set *)
Definition cis_mem (k : key) (s : cis) : bool := existsb (keyb k) s.
(* add: _set.add(lower); _keys[lower] = key  -- an existing spelling is overwritten *)
Definition cis_add (k : key) (s : cis) : cis :=
  if cis_mem k s then map (fun x => if keyb k x then k else x) s else s ++ [k].
(* __init__(iterable): for item in iterable: self.add(item) *)
Definition cis_of_list (l : list key) : cis := fold_left (fun s k => cis_add k s) l [].
(* get_canonical_key: self._keys[key.lower()]  (None = KeyError) *)
Definition cis_canon (k : key) (s : cis) : option key := find (keyb k) s.

(* ---- entries: OrderedCaseInsensitiveDict of Entry objects; of an entry only entry.key (the
        spelling it is stored under) and entry.fields.get('crossref') matter here *)
Definition entry := (key * option key)%type.
Definition edict := list entry.
Definition ed_get (k : key) (d : edict) : option entry := find (fun e => keyb k (fst e)) d.   (* __getitem__ *)
Definition ed_mem (k : key) (d : edict) : bool := existsb (fun e => keyb k (fst e)) d.        (* __contains__ *)
Definition ed_keys (d : edict) : list key := map fst d.                                      (* __iter__ / keys() *)

(* what report_error receives *)
Inductive report :=
| RRepeated (k : key)          (* 'repeated bibliography entry: k' *)
| RBadXref (c p : key)         (* 'bad cross-reference: entry "c" refers to entry "p" which does not exist.' *)
| RMissing (c : key).          (* 'missing database entry for "c"' *)

Record bibdata := mkBD {
  bd_entries : edict;          (* self.entries *)
  bd_wanted : option cis;      (* self.wanted_entries (None = read everything) *)
  bd_cites : cis;              (* self.citations *)
  bd_reports : list report }.

(* BibliographyData.__init__ (database/__init__.py:65-105), before the entries are added *)
Definition bd_init (wanted : option (list key)) : bibdata :=
  match wanted with
  | Some w => mkBD [] (Some (cis_of_list w)) (cis_of_list w) []
  | None => mkBD [] None [] []
  end.

(* want_entry (179-184) *)
Definition want_entry (bd : bibdata) (k : key) : bool :=
  match bd_wanted bd with
  | None => true
  | Some w => cis_mem k w || cis_mem star w
  end.

(* get_canonical_key (186-190) *)
Definition get_canonical_key (bd : bibdata) (k : key) : key :=
  match cis_canon k (bd_cites bd) with Some c => c | None => k end.

(* add_entry (192-206) *)
Definition add_entry (bd : bibdata) (e : entry) : bibdata :=
  let (k, cr) := e in
  if negb (want_entry bd k) then bd
  else if ed_mem k (bd_entries bd)
  then mkBD (bd_entries bd) (bd_wanted bd) (bd_cites bd) (bd_reports bd ++ [RRepeated k])
  else
    let k' := get_canonical_key bd k in
    let w' := match cr, bd_wanted bd with
              | Some c, Some w => Some (cis_add c w)
              | _, w => w
              end in
    mkBD (bd_entries bd ++ [(k', cr)]) w' (bd_cites bd) (bd_reports bd).

(* __init__'s loop over entries / add_entries / the parser calling add_entry once per entry of the
   file (LowLevelParser.want_current_entry asks the same want_entry just before, so a skipped
   entry and an entry refused by add_entry are the same entries) *)
Definition read_db (wanted : option (list key)) (db : list entry) : bibdata :=
  fold_left add_entry db (bd_init wanted).

(* ---- _expand_wildcard_citations (273-309) *)
(* the inner loop `for key in self.entries` *)
Fixpoint expand_star (ks : list key) (cset : cis) : list key * cis :=
  match ks with
  | [] => ([], cset)
  | k :: r =>
    if cis_mem k cset then expand_star r cset
    else let (o, s) := expand_star r (cis_add k cset) in (k :: o, s)
  end.
Fixpoint expand_loop (E : edict) (cites : list key) (cset : cis) : list key :=
  match cites with
  | [] => []
  | c :: r =>
    if str_eqb c star then
      let (o, s) := expand_star (ed_keys E) cset in o ++ expand_loop E r s
    else if cis_mem c cset then expand_loop E r cset
    else c :: expand_loop E r (cis_add c cset)
  end.
Definition expand (E : edict) (cites : list key) : list key := expand_loop E cites [].

(* ---- _get_crossreferenced_citations (212-271) *)
(* CaseInsensitiveDefaultDict(int) *)
Definition cnt_get (k : key) (cnt : list (key * nat)) : nat :=
  match find (fun p => keyb k (fst p)) cnt with Some p => snd p | None => 0 end.
Fixpoint cnt_set (k : key) (n : nat) (cnt : list (key * nat)) : list (key * nat) :=
  match cnt with
  | [] => [(k, n)]
  | p :: r => if keyb k (fst p) then (k, n) :: r else p :: cnt_set k n r
  end.
(* events of the generator: inl k = yield k, inr r = report_error r *)
Fixpoint xref_loop (E : edict) (m : Z) (cites : list key) (cnt : list (key * nat)) (cset : cis)
  : list (key + report) :=
  match cites with
  | [] => []
  | c :: r =>
    match ed_get c E with
    | None => xref_loop E m r cnt cset                     (* KeyError: continue *)
    | Some (_, None) => xref_loop E m r cnt cset           (* no crossref field: continue *)
    | Some (_, Some p) =>
      match ed_get p E with
      | None => inr (RBadXref c p) :: xref_loop E m r cnt cset
      | Some (pk, _) =>
        let n := S (cnt_get pk cnt) in
        let cnt' := cnt_set pk n cnt in
        if (m <=? Z.of_nat n)%Z && negb (cis_mem pk cset)
        then inl pk :: xref_loop E m r cnt' (cis_add pk cset)
        else xref_loop E m r cnt' cset
      end
    end
  end.
Definition yields {X Y} (ev : list (X + Y)) : list X :=
  flat_map (fun e => match e with inl k => [k] | inr _ => [] end) ev.
Definition reports {X Y} (ev : list (X + Y)) : list Y :=
  flat_map (fun e => match e with inl _ => [] | inr r => [r] end) ev.
Definition xref_events (E : edict) (cites : list key) (m : Z) : list (key + report) :=
  xref_loop E m cites [] (cis_of_list cites).
Definition crossrefs (E : edict) (cites : list key) (m : Z) : list key := yields (xref_events E cites m).

(* ---- add_extra_citations (311-314) *)
Definition add_extra (E : edict) (cites : list key) (m : Z) : list key * list report :=
  let ex := expand E cites in
  let ev := xref_events E ex m in
  (ex ++ yields ev, reports ev).

(* ---- Interpreter.remove_missing_citations (interpreter.py:301-306) and the try/except of
        BaseStyle.format_bibliography (formatting/__init__.py:85-89): same filter *)
Fixpoint remove_missing (E : edict) (cites : list key) : list (key + report) :=
  match cites with
  | [] => []
  | c :: r => (if ed_mem c E then inl c else inr (RMissing c)) :: remove_missing E r
  end.

(* strict mode: report_error raises the first report *)
Definition strictly {X} (strict : bool) (v : X) (rs : list report) : res (X * list report) :=
  if strict then match rs with [] => Ok (v, []) | _ => PyErr 0 (-1) end else Ok (v, rs).

(* ---- Interpreter.command_read (interpreter.py:284-299): filtered reading, then selection;
        the value is the final self.citations *)
Definition command_read_raw (db : list entry) (cites : list key) (m : Z) : list key * list report :=
  let bd := read_db (Some cites) db in
  let E := bd_entries bd in
  let (cs, rs) := add_extra E cites m in
  let ev := remove_missing E cs in
  (yields ev, bd_reports bd ++ rs ++ reports ev).
Definition command_read (db : list entry) (cites : list key) (m : Z) (strict : bool) :=
  let (v, rs) := command_read_raw db cites m in strictly strict v rs.

(* ---- BaseStyle.format_bibliography (formatting/__init__.py:75-91): the value is the list of
        entry.key of the entries handed to format_entries *)
Definition stored_key (E : edict) (k : key) : key :=
  match ed_get k E with Some (k', _) => k' | None => k end.
Definition format_bibliography_raw (E : edict) (cites : option (list key)) (m : Z) : list key * list report :=
  let cites := match cites with Some c => c | None => ed_keys E end in
  let (cs, rs) := add_extra E cites m in
  let ev := remove_missing E cs in
  (map (stored_key E) (yields ev), rs ++ reports ev).

(* ---- PybtexEngine.format_from_files (pybtex/__init__.py:112-165): filtered reading, then
        format_bibliography with the same citations *)
Definition py_engine_raw (db : list entry) (cites : list key) (m : Z) : list key * list report :=
  let bd := read_db (Some cites) db in
  let (v, rs) := format_bibliography_raw (bd_entries bd) (Some cites) m in
  (v, bd_reports bd ++ rs).
Definition py_engine (db : list entry) (cites : list key) (m : Z) (strict : bool) :=
  let (v, rs) := py_engine_raw db cites m in strictly strict v rs.

(* ---- "reading it whole and selecting afterwards": unfiltered reading, then the same selection *)
Definition select_unfiltered (db : list entry) (cites : list key) (m : Z) : list key * list report :=
  let bd := read_db None db in
  let E := bd_entries bd in
  let (cs, rs) := add_extra E cites m in
  let ev := remove_missing E cs in
  (yields ev, bd_reports bd ++ rs ++ reports ev).

(* ---- Entry._find_field / _find_crossref_field (database/__init__.py:500-534): the entries whose
        fields an entry of the read database sees -- itself, then the entry its crossref names, and so
        on, until a dangling reference, an entry without crossref, or (the _visited guard) a repeat.
        Collected as a list of stored keys; only the SET is observed (fuel |E|+1 reaches every member). *)
Fixpoint chain (E : edict) (fuel : nat) (c : key) : list key :=
  match fuel with
  | O => []
  | S f =>
    match ed_get c E with
    | Some (k, Some p) => k :: chain E f p
    | Some (k, None) => [k]
    | None => []
    end
  end.
Definition ancestors (E : edict) (c : key) : list key := chain E (S (length E)) c.
