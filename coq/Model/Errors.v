(* Model/Errors.v -- the error reporting channel of pybtex (property C16).
     pybtex/errors.py        strict / error_code / captured_errors, set_strict_mode, capture,
                             format_error, print_error, report_error
     pybtex/exceptions.py    PybtexError.get_context / get_filename / __str__
     pybtex/scanner.py       Scanner.get_error_context, PybtexSyntaxError.__str__,
                             TokenRequired.get_context, Scanner.eat_whitespace / update_lineno /
                             get_token / required (error side)
     pybtex/database/input/bibtex.py   LowLevelParser.get_error_context
     pybtex/auxfile.py       AuxDataError.__str__ / get_context
     pybtex/cmdline.py       CommandLine.__call__ / main (mode and exit status)
   No proofs here. *)
From Pybtex Require Import Base.Prelude Base.PyChar Base.PyStr.
Local Open Scope N_scope.

(* string constants, evaluated once so that the extracted code does not carry Coq strings *)
Definition k_expected : str := Eval compute in s2l " expected".
Definition k_sp_in_line : str := Eval compute in s2l " in line ".
Definition k_colon_sp : str := Eval compute in s2l ": ".
Definition k_error : str := Eval compute in s2l "ERROR: ".
Definition k_warning : str := Eval compute in s2l "WARNING: ".
Definition k_caret2 : str := Eval compute in s2l "^^".
Definition k_caret3 : str := Eval compute in s2l "^^^".
Definition k_in_line : str := Eval compute in s2l "in line ".
Definition k_premature_end_of_file : str := Eval compute in s2l "premature end of file".
Definition k_syntax_error : str := Eval compute in s2l "syntax error".

(* ------------------------------------------------------------------------------- *)
(* Python pieces used by the modelled code *)

(* '{0}'.format(n) for an int: decimal digits, '-' for negatives *)
Fixpoint digits_aux (fuel : nat) (n : N) (acc : str) : str :=
  match fuel with
  | O => acc
  | S f => let d := 48 + n mod 10 in
           if n <? 10 then d :: acc else digits_aux f (n / 10) (d :: acc)
  end.
Definition N_to_str (n : N) : str := digits_aux (S (N.size_nat n)) n [].
Definition Z_to_str (z : Z) : str :=
  match z with
  | Zneg p => 45 :: N_to_str (Npos p)
  | _ => N_to_str (Z.to_N z)
  end.

(* the line boundaries of str.splitlines: \n \v \f \r \x1c \x1d \x1e \x85 U+2028 U+2029
   (and \r\n as one) *)
Definition is_lb (c : char) : bool :=
  ((10 <=? c) && (c <=? 13)) || ((28 <=? c) && (c <=? 30)) || (c =? 133) || (c =? 8232) || (c =? 8233).

(* str.splitlines(keepends); acc = current line, reversed *)
Fixpoint splitlines_aux (keep : bool) (s : str) (acc : str) : list str :=
  match s with
  | [] => match acc with [] => [] | _ => [rev acc] end
  | c :: t =>
    if is_lb c then
      match t with
      | d :: t' =>
        if (c =? 13) && (d =? 10)
        then rev (if keep then d :: c :: acc else acc) :: splitlines_aux keep t' []
        else rev (if keep then c :: acc else acc) :: splitlines_aux keep t []
      | [] => rev (if keep then c :: acc else acc) :: splitlines_aux keep t []
      end
    else splitlines_aux keep t (c :: acc)
  end.
Definition splitlines (keep : bool) (s : str) : list str := splitlines_aux keep s [].

(* s.rstrip('\r\n') *)
Definition is_crlf (c : char) : bool := (c =? 13) || (c =? 10).
Fixpoint lstrip_crlf (s : str) : str :=
  match s with
  | c :: t => if is_crlf c then lstrip_crlf t else s
  | [] => []
  end.
Definition rstrip_crlf (s : str) : str := rev (lstrip_crlf (rev s)).

(* l[i] with Python's negative-index rule; None = IndexError *)
Definition py_index {X} (l : list X) (i : Z) : option X :=
  let n := Z.of_nat (length l) in
  let j := (if i <? 0 then n + i else i)%Z in
  if ((j <? 0) || (n <=? j))%Z then None else nth_error l (Z.to_nat j).

(* truthiness of an optional string:  `if x:` *)
Definition truthy (o : option str) : bool :=
  match o with Some (_ :: _) => true | _ => false end.

(* NEWLINE.search(text, pos) for NEWLINE = \n|(\r\n)|\r : end of the first match at or after
   the head of s, as an offset into s; None = no match *)
Fixpoint newline_search_end (s : str) (off : nat) : option nat :=
  match s with
  | [] => None
  | c :: t =>
    if c =? 10 then Some (S off)
    else if c =? 13 then
      match t with
      | d :: _ => if d =? 10 then Some (S (S off)) else Some (S off)
      | [] => Some (S off)
      end
    else newline_search_end t (S off)
  end.

Definition endswith_nl (s : str) : bool :=
  match rev s with c :: _ => c =? 10 | [] => false end.

(* ------------------------------------------------------------------------------- *)
(* error objects: exactly the attributes rendering reads *)

(* PybtexError.filename: None, a str, or some other object.  FnBad stands for an object that is
   neither None nor str and has no .decode (pybtex/bibtex/builtins.py:214 passes an int);
   bytes file names (decoded by pybtex.io._decode_filename) are outside the modelled domain *)
Inductive fname := FnNone | FnStr (s : str) | FnBytes (b : list N) | FnBad.

(* bytes.decode('utf-8', errors='replace') -- pybtex.io._decode_filename(filename, errors='replace')
   with a UTF-8 file system encoding (the harness checks sys.getfilesystemencoding() on every run):
   CPython replaces every maximal invalid subsequence by one U+FFFD *)
Definition in_rng (lo hi b : N) : bool := (lo <=? b) && (b <=? hi).
Definition u_cont (b : N) : bool := in_rng 128 191 b.
Definition u_rep : N := 65533.
Fixpoint utf8_replace (l : list N) : str :=
  match l with
  | [] => []
  | b0 :: t0 =>
    if b0 <? 128 then b0 :: utf8_replace t0
    else if in_rng 194 223 b0 then
      match t0 with
      | b1 :: t1 =>
        if u_cont b1 then ((b0 - 192) * 64 + (b1 - 128)) :: utf8_replace t1
        else u_rep :: utf8_replace t0
      | [] => [u_rep]
      end
    else if in_rng 224 239 b0 then
      let lo := if b0 =? 224 then 160 else 128 in
      let hi := if b0 =? 237 then 159 else 191 in
      match t0 with
      | b1 :: t1 =>
        if in_rng lo hi b1 then
          match t1 with
          | b2 :: t2 =>
            if u_cont b2 then ((b0 - 224) * 4096 + (b1 - 128) * 64 + (b2 - 128)) :: utf8_replace t2
            else u_rep :: utf8_replace t1
          | [] => [u_rep]
          end
        else u_rep :: utf8_replace t0
      | [] => [u_rep]
      end
    else if in_rng 240 244 b0 then
      let lo := if b0 =? 240 then 144 else 128 in
      let hi := if b0 =? 244 then 143 else 191 in
      match t0 with
      | b1 :: t1 =>
        if in_rng lo hi b1 then
          match t1 with
          | b2 :: t2 =>
            if u_cont b2 then
              match t2 with
              | b3 :: t3 =>
                if u_cont b3
                then ((b0 - 240) * 262144 + (b1 - 128) * 4096 + (b2 - 128) * 64 + (b3 - 128)) :: utf8_replace t3
                else u_rep :: utf8_replace t2
              | [] => [u_rep]
              end
            else u_rep :: utf8_replace t1
          | [] => [u_rep]
          end
        else u_rep :: utf8_replace t0
      | [] => [u_rep]
      end
    else u_rep :: utf8_replace t0
  end.

(* what get_context() consults *)
Inductive ctx :=
| CNone                                               (* PybtexError.get_context: None *)
| CScan (text : str) (lineno : option Z) (pos : Z)    (* TokenRequired over Scanner.get_error_context *)
| CBib (text : str) (start : option Z) (pos : Z)      (* TokenRequired over LowLevelParser.get_error_context *)
| CAux (line : option str).                           (* AuxDataError.get_context *)

(* what __str__ consults *)
Inductive skind :=
| SPlain                                              (* Exception.__str__: the message *)
| SSyntax (etype : str) (lineno : option Z)           (* PybtexSyntaxError.__str__ *)
| SAux (lineno : option Z).                           (* AuxDataError.__str__ *)

Record err := mkErr { e_id : N; e_msg : str; e_fn : fname; e_kind : skind; e_ctx : ctx }.

(* PybtexError.get_filename, pybtex/exceptions.py:36-42 *)
Definition err_filename (e : err) : res (option str) :=
  match e_fn e with
  | FnNone => Ok None
  | FnStr s => Ok (Some s)
  | FnBytes b => Ok (Some (utf8_replace b))     (* _decode_filename(self.filename, errors='replace') *)
  | FnBad => Crash      (* _decode_filename(obj): AttributeError *)
  end.

(* __str__: Exception.__str__ / PybtexSyntaxError.__str__ scanner.py:152-159 /
   AuxDataError.__str__ auxfile.py:46-50 *)
Definition err_str (e : err) : str :=
  match e_kind e with
  | SPlain => e_msg e
  | SSyntax etype lineno =>
    let pos := match lineno with Some n => k_sp_in_line ++ Z_to_str n | None => [] end in
    etype ++ pos ++ k_colon_sp ++ e_msg e
  | SAux lineno =>
    let loc := match lineno with
               | Some n => if (n =? 0)%Z then [] else k_in_line ++ Z_to_str n ++ k_colon_sp
               | None => [] end in
    loc ++ e_msg e
  end.

(* Scanner.get_error_context, scanner.py:124-135: Some (context, colno) or None (lineno None) *)
Definition scanner_error_context (text : str) (lineno : option Z) (pos : Z) : res (option (str * Z)) :=
  match lineno with
  | None => Ok None
  | Some ln =>
    let l0 := (ln - 1)%Z in
    let lines := splitlines true text in
    let before := concat (pyslice lines None (Some l0)) in
    let colno := (pos - Z.of_nat (length before))%Z in
    match py_index lines l0 with
    | None => Crash                                   (* lines[error_lineno0]: IndexError *)
    | Some line => Ok (Some (rstrip_crlf line, colno))
    end
  end.

(* LowLevelParser.get_error_context, database/input/bibtex.py:161-171 *)
Definition bib_error_context (text : str) (start : option Z) (pos : Z) : res (option (str * Z)) :=
  let before := pyslice text start (Some pos) in
  let len := length text in
  let error_end : Z :=
    if endswith_nl before then pos
    else
      (* pattern.search(text, pos): pos is clamped into [0, len] (no negative wrap-around) *)
      let p := Z.to_nat (Z.min (Z.max pos 0) (Z.of_nat len)) in
      match newline_search_end (skipn p text) p with
      | Some e => Z.of_nat e
      | None => Z.of_nat len
      end in
  let context := rstrip_crlf (pyslice text start (Some error_end)) in
  match rev (splitlines false before) with
  | [] => Crash                                       (* ''.splitlines()[-1]: IndexError *)
  | l :: _ => Ok (Some (context, Z.of_nat (length l)))
  end.

(* TokenRequired.get_context, scanner.py:173-181 *)
Definition token_required_context (c : option (str * Z)) : str :=
  match c with
  | None => []
  | Some (context, colno) =>
    let marker := if (colno =? 0)%Z then k_caret2
                  else repeat 32 (Z.to_nat (colno - 1)) ++ k_caret3 in
    context ++ [10] ++ marker
  end.

(* get_context of each class; None and '' are both "no context" for format_error *)
Definition err_context (e : err) : res (option str) :=
  match e_ctx e with
  | CNone => Ok None
  | CScan text lineno pos =>
    do c <- scanner_error_context text lineno pos; Ok (Some (token_required_context c))
  | CBib text start pos =>
    do c <- bib_error_context text start pos; Ok (Some (token_required_context c))
  | CAux line =>
    (* AuxDataError.get_context, auxfile.py:41-44 *)
    match line with
    | Some (c :: l) => Ok (Some ((c :: l) ++ [10] ++ repeat 94 (length (c :: l))))
    | _ => Ok None
    end
  end.

(* format_error, errors.py:50-62 *)
Definition format_error (e : err) (prefix : str) : res str :=
  do context <- err_context e;
  let lines0 := if truthy context then splitlines false (match context with Some c => c | None => [] end) else [] in
  let lines1 := lines0 ++ [prefix ++ err_str e] in
  do fn <- err_filename e;
  let lines2 := if truthy fn
                then map (fun l => (match fn with Some f => f | None => [] end) ++ k_colon_sp ++ l) lines1
                else lines1 in
  Ok (join [10] lines2).

(* ------------------------------------------------------------------------------- *)
(* the module state: errors.py:28-30, plus the text written to pybtex.io.stderr and the lists
   handed out by capture() (they stay alive in the caller after the context is left) *)
Record G := mkG {
  g_strict : bool;
  g_code : Z;
  g_cap : option nat;            (* captured_errors: None, or the index of the active list *)
  g_heap : list (list err);      (* every list created by capture(), in creation order *)
  g_out : str                    (* everything printed to stderr *)
}.

Definition init_G : G := mkG true 0%Z None [] [].

Definition set_strict (g : G) (b : bool) : G := mkG b (g_code g) (g_cap g) (g_heap g) (g_out g).
Definition set_cap (g : G) (c : option nat) : G := mkG (g_strict g) (g_code g) c (g_heap g) (g_out g).

Fixpoint append_at {X} (l : list (list X)) (i : nat) (x : X) : list (list X) :=
  match l, i with
  | h :: t, O => (h ++ [x]) :: t
  | h :: t, S j => h :: append_at t j x
  | [], _ => []
  end.

(* capture().__enter__ : captured_errors = [] ; yield it  (errors.py:42-44) *)
Definition cap_enter (g : G) : G * nat :=
  (mkG (g_strict g) (g_code g) (Some (length (g_heap g))) (g_heap g ++ [[]]) (g_out g), length (g_heap g)).
(* capture().__exit__, normal or by exception: finally: captured_errors = None (errors.py:46-47) *)
Definition cap_exit (g : G) : G := set_cap g None.

(* print_error, errors.py:65-66 *)
Definition print_error (g : G) (e : err) (prefix : str) : res G :=
  do s <- format_error e prefix;
  Ok (mkG (g_strict g) (g_code g) (g_cap g) (g_heap g) (g_out g ++ s ++ [10])).

Inductive routcome := RAppended (i : nat) | RRaised | RPrinted | RCrash.

(* report_error, errors.py:69-80 *)
Definition report_error (g : G) (e : err) : G * routcome :=
  match g_cap g with
  | Some i => (mkG (g_strict g) (g_code g) (g_cap g) (append_at (g_heap g) i e) (g_out g), RAppended i)
  | None =>
    if g_strict g then (g, RRaised)
    else match print_error g e k_warning with
         | Ok g' => (mkG (g_strict g') 2%Z (g_cap g') (g_heap g') (g_out g'), RPrinted)
         | _ => (g, RCrash)          (* the exception of the renderer propagates; error_code not yet set *)
         end
  end.

(* ------------------------------------------------------------------------------- *)
(* histories: a straight-line program over the API.  [depth] = number of `with capture()` blocks
   the program is inside of.  An exception (a strict report, a crash of the renderer, OAbortAll)
   leaves every open block -- each runs its `finally` -- and is caught at top level, where the
   program goes on; OAbort1 is an exception raised in the body of the innermost block and caught
   just outside it. *)
Inductive op :=
| OStrict (b : bool) | OEnter | OExit | OAbort1 | OAbortAll | OReport (e : err).

Inductive event :=
| EvYield (i : nat) | EvAppended (i : nat) (id : N) | EvRaised (id : N) | EvPrinted (id : N)
| EvCrash (id : N) | EvForeign.

Definition unwind_all (g : G) (depth : nat) : G :=
  match depth with O => g | S _ => cap_exit g end.

Definition step (g : G) (depth : nat) (o : op) : G * nat * list event :=
  match o with
  | OStrict b => (set_strict g b, depth, [])
  | OEnter => let (g', i) := cap_enter g in (g', S depth, [EvYield i])
  | OExit => match depth with O => (g, O, []) | S d => (cap_exit g, d, []) end
  | OAbort1 => match depth with O => (g, O, [EvForeign]) | S d => (cap_exit g, d, [EvForeign]) end
  | OAbortAll => (unwind_all g depth, O, [EvForeign])
  | OReport e =>
    let (g', r) := report_error g e in
    match r with
    | RAppended i => (g', depth, [EvAppended i (e_id e)])
    | RPrinted => (g', depth, [EvPrinted (e_id e)])
    | RRaised => (unwind_all g' depth, O, [EvRaised (e_id e)])
    | RCrash => (unwind_all g' depth, O, [EvCrash (e_id e)])
    end
  end.

Fixpoint run_hist (g : G) (depth : nat) (ops : list op) : G * nat * list event :=
  match ops with
  | [] => (g, depth, [])
  | o :: rest =>
    let '(g1, d1, ev1) := step g depth o in
    let '(g2, d2, ev2) := run_hist g1 d1 rest in
    (g2, d2, ev1 ++ ev2)
  end.

(* ------------------------------------------------------------------------------- *)
(* computations: what a reader / engine does, seen from the channel.  Between two reports it
   cannot observe the mode (premise checked by the AST scan of the harness). *)
Inductive comp := Done | Report (e : err) (k : comp) | Fatal (e : err) | Foreign.

Fixpoint reports (c : comp) : list err :=
  match c with Report e k => e :: reports k | _ => [] end.
Fixpoint fatal (c : comp) : option err :=
  match c with Report _ k => fatal k | Fatal e => Some e | _ => None end.
Fixpoint foreign (c : comp) : bool :=
  match c with Report _ k => foreign k | Foreign => true | _ => false end.

Inductive outcome := Returned | Raised (e : err) | Crashed.

Fixpoint run_comp (g : G) (c : comp) : G * outcome :=
  match c with
  | Done => (g, Returned)
  | Fatal e => (g, Raised e)
  | Foreign => (g, Crashed)
  | Report e k =>
    let (g', r) := report_error g e in
    match r with
    | RAppended _ | RPrinted => run_comp g' k
    | RRaised => (g', Raised e)
    | RCrash => (g', Crashed)
    end
  end.

(* with capture() as errs: c *)
Definition with_capture (g : G) (c : comp) : G * outcome * list err :=
  let (g1, i) := cap_enter g in
  let (g2, o) := run_comp g1 c in
  let g3 := cap_exit g2 in
  (g3, o, nth i (g_heap g3) []).

(* CommandLine.__call__ and main, cmdline.py:175-182, 235-244: non-strict unless --strict
   (the option's callback runs while the arguments are parsed), run, exit status *)
Definition cmdline_call (g : G) (strict_opt : bool) (c : comp) : G * res Z :=
  let g1 := set_strict g false in
  let g2 := if strict_opt then set_strict g1 true else g1 in
  let (g3, o) := run_comp g2 c in
  match o with
  | Returned => (g3, Ok (g_code g3))                 (* sys.exit(errors.error_code) *)
  | Raised e =>
    match print_error g3 e k_error with       (* except PybtexError: print_error; sys.exit(1) *)
    | Ok g4 => (g4, Ok 1%Z)
    | _ => (g3, Crash)
    end
  | Crashed => (g3, Crash)
  end.

(* ------------------------------------------------------------------------------- *)
(* the scanner's error side: Scanner.required([Literal(lit)]) on a fresh Scanner(text)
   scanner.py:82-121.  Result: the matched token, or the error raised. *)
Fixpoint count_newlines (s : str) : nat :=
  (* value.count("\n") + value.count("\r") - value.count("\r\n") *)
  match s with
  | [] => O
  | c :: t =>
    if c =? 10 then S (count_newlines t)
    else if c =? 13 then
      match t with
      | d :: _ => if d =? 10 then count_newlines t else S (count_newlines t)
      | [] => 1%nat
      end
    else count_newlines t
  end.

Fixpoint span_space (s : str) : str * str :=
  match s with
  | c :: t => if is_space c then let (a, b) := span_space t in (c :: a, b) else ([], s)
  | [] => ([], [])
  end.

(* returns inl token | inr error; filename as given to Scanner(text, filename) *)
Definition scanner_required (text lit : str) (filename : fname) (id : N) : str + err :=
  let (ws, rest) := span_space text in                       (* eat_whitespace *)
  let lineno := Z.of_nat (1 + count_newlines ws) in          (* update_lineno *)
  let pos := Z.of_nat (length ws) in
  match rest with
  | [] => inr (mkErr id k_premature_end_of_file filename
                 (SSyntax k_syntax_error (Some lineno)) CNone)      (* PrematureEOF *)
  | _ =>
    if startswith rest lit then inl lit
    else inr (mkErr id ([39] ++ lit ++ [39] ++ k_expected) filename
                (SSyntax k_syntax_error (Some lineno))
                (CScan text (Some lineno) pos))                           (* TokenRequired *)
  end.

(* how the body of a computation ends, whatever the mode: returns, raises a pybtex error
   directly (fatal problems such as PrematureEOF are raised, not reported), or dies *)
Fixpoint ending (c : comp) : outcome :=
  match c with
  | Done => Returned
  | Fatal e => Raised e
  | Foreign => Crashed
  | Report _ k => ending k
  end.

(* the strict flag after a history: the last value set *)
Fixpoint last_strict (s : bool) (ops : list op) : bool :=
  match ops with
  | [] => s
  | OStrict b :: r => last_strict b r
  | _ :: r => last_strict s r
  end.

(* well-formed error objects: the file name is None or text, and the scanner state behind a
   TokenRequired points into the text *)
Definition wf_ctx (c : ctx) : Prop :=
  match c with
  | CNone => True
  | CAux _ => True
  | CScan text None _ => True
  | CScan text (Some ln) _ => (1 <= ln <= Z.of_nat (length (splitlines true text)))%Z
  | CBib text start pos => pyslice text start (Some pos) <> []
  end.
Definition wf_err (e : err) : Prop := e_fn e <> FnBad /\ wf_ctx (e_ctx e).

(* a is a contiguous part of s *)
Definition infix (a s : str) : Prop := exists u v, s = u ++ a ++ v.

(* what non-strict mode prints for problems whose renderings are ss *)
Definition warn_text (ss : list str) : str := concat (map (fun s => s ++ [10]) ss).

(* a program that is outside every capture block is not capturing *)
Definition inv (g : G) (d : nat) : Prop := d = O -> g_cap g = None.

(* the file name prefix format_error puts on a line *)
Definition fname_text (f : fname) : option str :=
  match f with FnStr s => Some s | FnBytes b => Some (utf8_replace b) | _ => None end.
Definition fname_prefix (e : err) (l : str) : str :=
  match fname_text (e_fn e) with
  | Some (c :: f) => (c :: f) ++ k_colon_sp ++ l
  | _ => l
  end.

(* ------------------------------------------------------------------------------- *)
(* the constructors of the error classes: what __init__ stores, from what it is given *)

(* a Scanner / LowLevelParser as far as the error classes read it (scanner.py:55-66):
   Scanner(text, filename) *)
(* the file name a parser / an .aux context carries: None, text, or a bytes path
   (Parser().parse_file(b'...'), bst.parse_file(b'...'), auxfile.parse_file(b'...')) *)
Inductive pfname := PNone | PStr (s : str) | PBytes (b : list N).

Record scanner := mkScanner { sc_text : str; sc_filename : pfname; sc_lineno : Z; sc_pos : Z }.
(* AuxDataContext, auxfile.py:53-59 *)
Record auxctx := mkAuxctx { ax_filename : pfname; ax_lineno : option Z; ax_line : option str }.

Definition fname_of (o : pfname) : fname :=
  match o with PNone => FnNone | PStr s => FnStr s | PBytes b => FnBytes b end.

(* PybtexError(message, filename=None), exceptions.py:28-30; also BibTeXError, BibliographyDataError,
   ConvertError (same __init__) and InvalidNameString, DuplicateField, PluginNotFound,
   PluginGroupNotFound, FieldIsMissing (their __init__ builds the message and passes no file name).
   The file name is whatever the caller passes: FnBad for builtins.py:214 *)
Definition new_pybtex_error (id : N) (msg : str) (fn : fname) : err := mkErr id msg fn SPlain CNone.

(* PybtexSyntaxError(message, parser), scanner.py:146-150; error_type is a class attribute
   ('syntax error'; UndefinedMacro: 'undefined string'); also UnbalancedBraceError *)
Definition new_syntax_error (id : N) (etype msg : str) (p : scanner) : err :=
  mkErr id msg (fname_of (sc_filename p)) (SSyntax etype (Some (sc_lineno p))) CNone.

(* PrematureEOF(parser), scanner.py:162-165 *)
Definition new_premature_eof (id : N) (p : scanner) : err :=
  new_syntax_error id k_syntax_error k_premature_end_of_file p.

(* TokenRequired(description, parser) over a Scanner, scanner.py:168-171:
   error_context_info = (lineno, pos) *)
Definition new_token_required (id : N) (desc : str) (p : scanner) : err :=
  mkErr id (desc ++ k_expected) (fname_of (sc_filename p)) (SSyntax k_syntax_error (Some (sc_lineno p)))
        (CScan (sc_text p) (Some (sc_lineno p)) (sc_pos p)).

(* ... over a LowLevelParser: error_context_info = (command_start, lineno, pos), bibtex.py:158-159 *)
Definition new_token_required_bib (id : N) (desc : str) (p : scanner) (start : option Z) : err :=
  mkErr id (desc ++ k_expected) (fname_of (sc_filename p)) (SSyntax k_syntax_error (Some (sc_lineno p)))
        (CBib (sc_text p) start (sc_pos p)).

(* errors of a scanner WITHOUT line numbers (class attribute lineno = None: NameFormatParser,
   bibtex/names.py:286-296, whose eat_whitespace is a no-op): lineno None in __str__ (no ' in line n'),
   error_context_info = (None, pos), so get_error_context yields no context line *)
Definition new_syntax_error_nl (id : N) (etype msg : str) (fn : pfname) : err :=
  mkErr id msg (fname_of fn) (SSyntax etype None) CNone.
Definition new_token_required_nl (id : N) (desc : str) (text : str) (fn : pfname) (pos : Z) : err :=
  mkErr id (desc ++ k_expected) (fname_of fn) (SSyntax k_syntax_error None) (CScan text None pos).

(* AuxDataError(message, context), auxfile.py:36-39: filename = context.filename, a copy of the context *)
Definition new_aux_error (id : N) (msg : str) (c : auxctx) : err :=
  mkErr id msg (fname_of (ax_filename c)) (SAux (ax_lineno c)) (CAux (ax_line c)).

(* the state a Scanner is in when it raises TokenRequired: in front of a character that is not a
   line boundary (required(): after the whitespace was skipped), with a line number that does not
   exceed 1 + the number of \n / \r / \r\n before the position (tokens matched by get_token do
   not advance lineno, so it may lag behind) *)
Definition scan_state_ok (p : scanner) : Prop :=
  exists pre c0 r, sc_text p = pre ++ c0 :: r /\ Z.of_nat (length pre) = sc_pos p /\ is_lb c0 = false /\
                   (1 <= sc_lineno p <= 1 + Z.of_nat (count_newlines pre))%Z.
(* the state of a LowLevelParser when it raises: the command start (the '@') lies before the position *)
Definition bib_state_ok (p : scanner) (start : option Z) : Prop :=
  exists s, start = Some s /\ (0 <= s < sc_pos p)%Z /\ (sc_pos p <= Z.of_nat (length (sc_text p)))%Z.

(* every error object the package can construct, with what its raise sites guarantee *)
Inductive constructed : err -> Prop :=
| C_plain id msg fn : fn <> FnBad -> constructed (new_pybtex_error id msg fn)
| C_syntax id etype msg p : constructed (new_syntax_error id etype msg p)
| C_token id desc p : scan_state_ok p -> constructed (new_token_required id desc p)
| C_token_line id desc p :        (* the weaker guarantee that suffices: the line number names a line of the text *)
    (1 <= sc_lineno p <= Z.of_nat (length (splitlines true (sc_text p))))%Z ->
    constructed (new_token_required id desc p)
| C_token_bib id desc p start : bib_state_ok p start -> constructed (new_token_required_bib id desc p start)
| C_aux id msg c : constructed (new_aux_error id msg c)
| C_syntax_nl id etype msg fn : constructed (new_syntax_error_nl id etype msg fn)
| C_token_nl id desc text fn pos : constructed (new_token_required_nl id desc text fn pos).

(* ------------------------------------------------------------------------------- *)
(* the shape rendering relies on: a message is CONCATENATED into str(error), never used as a
   format template.  What __str__ puts in front of the message depends on the class, its
   error_type and the line number only -- never on the characters of the message (braces,
   percent signs, backslashes, line breaks in user-controlled text are inert). *)
Definition kind_prefix (k : skind) : str :=
  match k with
  | SPlain => []
  | SSyntax etype lineno =>
    etype ++ (match lineno with Some n => k_sp_in_line ++ Z_to_str n | None => [] end) ++ k_colon_sp
  | SAux lineno =>
    match lineno with
    | Some n => if (n =? 0)%Z then [] else k_in_line ++ Z_to_str n ++ k_colon_sp
    | None => []
    end
  end.

(* ------------------------------------------------------------------------------- *)
(* "the set and order of reported problems does not depend on the mode", for one computation:
   capture collects ps = reports c and restores normal reporting; non-strict prints one warning
   per problem of ps in order (ss = their renderings) and sets error_code 2; strict raises the
   first of ps.  (The conclusion of mode_independence, named so that it can be instantiated.) *)
Definition modes_agree (g : G) (c : comp) (ss : list str) : Prop :=
  let ps := reports c in
  (let '(g1, o1, l1) := with_capture g c in
   l1 = ps /\ o1 = ending c /\ g_cap g1 = None /\ g_strict g1 = g_strict g /\ g_code g1 = g_code g /\ g_out g1 = g_out g) /\
  (let '(g2, o2) := run_comp (set_strict g false) c in
   g_out g2 = g_out g ++ warn_text ss /\ o2 = ending c /\ (ps <> [] -> g_code g2 = 2%Z) /\ (ps = [] -> g_code g2 = g_code g)) /\
  (let '(g3, o3) := run_comp (set_strict g true) c in
   g3 = set_strict g true /\ o3 = match ps with e :: _ => Raised e | [] => ending c end).

(* the computation that reports the given problems one after the other and then ends *)
Definition comp_of (ps : list err) (last : comp) : comp := fold_right Report last ps.

(* Scanner.required([Literal(lit)]) on a fresh line-less scanner (NameFormatParser(text)): no white
   space is skipped, the position is 0, there is no line number *)
Definition lineless_required (text lit : str) (fn : pfname) (id : N) : str + err :=
  match text with
  | [] => inr (new_syntax_error_nl id k_syntax_error k_premature_end_of_file fn)      (* PrematureEOF *)
  | _ => if startswith text lit then inl lit
         else inr (new_token_required_nl id ([39] ++ lit ++ [39]) text fn 0%Z)         (* TokenRequired *)
  end.
