(* Model/BibParserOpt.v -- the .bib reader with its constructor options:
   Parser(wanted_entries=..., keyless_entries=..., macros=..., person_fields=...).
   Same code as Model/BibParser.v (bibtex.py LowLevelParser / Parser, database/__init__.py
   add_entry / want_entry / get_canonical_key) with the option-dependent branches that
   BibParser.v fixes at their defaults: want_current_entry (bibtex.py:182-183) in
   substitute_macro and at the end of parse_entry_body (SkipEntry), keyless_entries in
   parse_entry_body, person_fields in process_entry, want_entry / canonical key /
   crossref -> wanted_entries.add in add_entry, the initial macro table.  No proofs here. *)
From Pybtex Require Import Base.Prelude Base.PyChar Base.PyStr Model.BibtexStr Model.Names Model.Scanner Model.BibParser.
Local Open Scope N_scope.

Record opts := mkOpts {
  o_wanted : option (list str);      (* wanted_entries (None = not given) *)
  o_keyless : bool;
  o_macros : list (str * str);       (* as given (keys in any case) *)
  o_person_fields : list str }.

(* BibliographyData.want_entry: wanted is the lower-cased set wanted_entries *)
Definition want_entry (w : option (list str)) (key : str) : bool :=
  match w with
  | None => true
  | Some l => existsb (str_eqb (lower key)) l || existsb (str_eqb [42]) l
  end.
(* LowLevelParser.want_current_entry *)
Definition want_current (w : option (list str)) (s : pst) : bool :=
  match p_key s with None => true | Some k => want_entry w k end.

Definition substitute_macro_o (m : mode) (w : option (list str)) (name : str) (s : pst) : out str :=
  match assoc_get (lower name) (p_macros s) with
  | Some v => Ret v s
  | None => if want_current w s then handle_error m (mk_err E_UNDEF s) s >>= fun _ s' => Ret [] s' else Ret [] s
  end.

Definition parse_value_part_o (m : mode) (w : option (list str)) (s : pst) : out str :=
  required [P_LIT c_quote; P_LIT c_lbrace; P_NUMBER; P_NAME] s >>= fun tk s1 =>
  match fst tk with
  | P_LIT c =>
    pstring (S (length (sc_rest (p_sc s1)))) (c =? c_quote) 0 [] s1 >>= fun acc s2 => Ret (removelast acc) s2
  | P_NUMBER => Ret (snd tk) s1
  | _ => substitute_macro_o m w (snd tk) s1
  end.

Fixpoint parse_value_loop_o (fuel : nat) (m : mode) (w : option (list str)) (parts : list str) (s : pst) : out (list str) :=
  match fuel with
  | O => Fatal FFuel
  | S f =>
    parse_value_part_o m w s >>= fun part s1 =>
    let parts' := parts ++ [part] in
    optional [P_LIT c_hash] s1 >>= fun h s2 =>
    match h with
    | None => Ret parts' s2
    | Some _ => parse_value_loop_o f m w parts' s2
    end
  end.
Definition parse_value_o (m : mode) (w : option (list str)) (s : pst) : out unit :=
  parse_value_loop_o (S (length (sc_rest (p_sc s)))) m w [] s >>= fun parts s1 => Ret tt (set_value s1 parts).

Definition parse_field_o (m : mode) (w : option (list str)) (s : pst) : out unit :=
  optional [P_NAME] s >>= fun name s1 =>
  match name with
  | None => Ret tt s1
  | Some tk =>
    let s2 := set_fname s1 (Some (snd tk)) in
    required [P_LIT 61] s2 >>= fun _ s3 => parse_value_o m w s3
  end.

Fixpoint parse_entry_fields_o (fuel : nat) (m : mode) (w : option (list str)) (s : pst) : out unit :=
  match fuel with
  | O => Fatal FFuel
  | S f =>
    parse_field_o m w (set_value (set_fname s None) []) >>= fun _ s1 =>
    let s2 := match p_fname s1, p_value s1 with
              | Some n, _ :: _ => set_fields s1 (p_fields s1 ++ [(n, p_value s1)])
              | _, _ => s1
              end in
    optional [P_LIT c_comma] s2 >>= fun comma s3 =>
    match comma with
    | None => Ret tt s3
    | Some _ => parse_entry_fields_o f m w s3
    end
  end.

(* bibtex.py:236-242 parse_entry_body; true = SkipEntry raised *)
Definition parse_entry_body_o (m : mode) (w : option (list str)) (keyless brace : bool) (s : pst) : out bool :=
  (if keyless then Ret tt s
   else required [if brace then P_KEY_BRACE else P_KEY_PAREN] s >>= fun tk s1 => Ret tt (set_key s1 (Some (snd tk))))
  >>= fun _ s1 =>
  parse_entry_fields_o (S (length (sc_rest (p_sc s1)))) m w s1 >>= fun _ s2 =>
  Ret (negb (want_current w s2)) s2.

Definition parse_string_body_o (m : mode) (w : option (list str)) (s : pst) : out unit :=
  required [P_NAME] s >>= fun tk s1 =>
  let s2 := set_fname s1 (Some (snd tk)) in
  required [P_LIT 61] s2 >>= fun _ s3 =>
  parse_value_o m w s3 >>= fun _ s4 =>
  Ret tt (set_macros s4 (assoc_set (lower (snd tk)) (concat (p_value s4)) (p_macros s4))).

Definition parse_command_o (m : mode) (w : option (list str)) (keyless : bool) (s0 : pst) : out (option cmd) :=
  let s := set_value (set_fname (set_fields (set_key s0 None) []) None) [] in
  required [P_NAME] s >>= fun name s1 =>
  let command := snd name in
  required [P_LIT 40; P_LIT c_lbrace] s1 >>= fun bs s2 =>
  let brace := match fst bs with P_LIT c => c =? c_lbrace | _ => false end in
  let body_end := if brace then c_rbrace else 41 in
  let cl := lower command in
  if str_eqb cl kw_comment then Ret None s2
  else
    let k := if str_eqb cl kw_string then KString else if str_eqb cl kw_preamble then KPreamble else KEntry in
    let body := match k with
                | KString => parse_string_body_o m w s2 >>= fun _ s3 => Ret false s3
                | KPreamble => parse_value_o m w s2 >>= fun _ s3 => Ret false s3
                | KEntry => parse_entry_body_o m w keyless brace s2
                end in
    (* SkipEntry is not a PybtexSyntaxError: it leaves parse_command at once *)
    match body >>= (fun skip s3 => if skip then Ret true s3 else required [P_LIT body_end] s3 >>= fun _ s4 => Ret false s4) with
    | Ret true s4 => Ret None s4
    | Ret false s4 => Ret (Some (make_result k command s4)) s4
    | Exc e s4 => handle_error m e s4 >>= fun _ s5 => Ret (Some (make_result k command s5)) s5
    | Fatal f => Fatal f
    end.

(* the database with the two sets of BibliographyData that the options create *)
Record dbo := mkDbo { d_db : db; d_wanted : option (list str); d_citations : list str }.

Fixpoint process_fields_o (m : mode) (pf : list str) (fields : list (str * list str)) (seen : list str)
         (fs : list (str * str)) (ps : list (str * list person)) (s : pst)
  : out (list (str * str) * list (str * list person)) :=
  match fields with
  | [] => Ret (fs, ps) s
  | (fname, parts) :: rest =>
    let lname := lower fname in
    if existsb (str_eqb lname) seen then
      handle_error m (data_err E_DUPFIELD) s >>= fun _ s' => process_fields_o m pf rest seen fs ps s'
    else
      let value := normalize_whitespace (concat parts) in
      if existsb (str_eqb lname) pf then
        match split_name_list value with
        | Ok names =>
          persons_of m names [] s >>= fun pl s' =>
          process_fields_o m pf rest (seen ++ [lname]) fs (match pl with [] => ps | _ => ps ++ [(fname, pl)] end) s'
        | x => Fatal (fatal_of_res x)
        end
      else process_fields_o m pf rest (seen ++ [lname]) (fs ++ [(fname, value)]) ps s
  end.

(* get_canonical_key: the spelling under which the key was cited (the last one given) *)
Fixpoint canonical_key (cit : list str) (key : str) (found : str) : str :=
  match cit with
  | [] => found
  | c :: r => canonical_key r key (if str_eqb (lower c) (lower key) then c else found)
  end.

Definition add_entry_o (m : mode) (key typ : str) (fs : list (str * str)) (ps : list (str * list person))
           (d : dbo) (s : pst) : out dbo :=
  let db0 := d_db d in
  if negb (want_entry (d_wanted d) key) then
    Ret (mkDbo (mkDb (db_entries db0) (db_preamble db0) (db_unnamed db0) (length (p_errs s))) (d_wanted d) (d_citations d)) s
  else if existsb (fun e => str_eqb (lower (en_key e)) (lower key)) (db_entries db0) then
    handle_error m (data_err E_REPEATED) s >>= fun _ s' =>
    Ret (mkDbo (mkDb (db_entries db0) (db_preamble db0) (db_unnamed db0) (length (p_errs s'))) (d_wanted d) (d_citations d)) s'
  else
    let dirty := Nat.ltb (db_mark db0) (length (p_errs s)) in
    let ckey := canonical_key (d_citations d) key key in
    let w' := match d_wanted d, assoc_get (*crossref*) [99; 114; 111; 115; 115; 114; 101; 102] (map (fun f => (lower (fst f), snd f)) fs) with
              | Some l, Some v => Some (l ++ [lower v])
              | w, _ => w
              end in
    Ret (mkDbo (mkDb (db_entries db0 ++ [mkEntry ckey (lower typ) typ fs ps dirty]) (db_preamble db0) (db_unnamed db0)
                     (length (p_errs s))) w' (d_citations d)) s.

Definition process_o (m : mode) (pf : list str) (c : cmd) (d : dbo) (s : pst) : out dbo :=
  match c with
  | CString _ _ _ => Ret d s
  | CPreamble _ v =>
    process_preamble v (d_db d) s >>= fun db' s' => Ret (mkDbo db' (d_wanted d) (d_citations d)) s'
  | CEntry typ key fields =>
    let db0 := d_db d in
    let '(k, db1) := match key with
                     | Some k => (k, db0)
                     | None => ((*unnamed-*) [117; 110; 110; 97; 109; 101; 100; 45] ++ dec (db_unnamed db0),
                                mkDb (db_entries db0) (db_preamble db0) (db_unnamed db0 + 1) (db_mark db0))
                     end in
    process_fields_o m pf fields [] [] [] s >>= fun r s' =>
    add_entry_o m k typ (fst r) (snd r) (mkDbo db1 (d_wanted d) (d_citations d)) s'
  end.

Fixpoint bib_loop_o (fuel : nat) (m : mode) (keyless : bool) (pf : list str) (d : dbo) (s : pst) : out dbo :=
  match fuel with
  | O => Fatal FFuel
  | S f =>
    match skip_to (fun c => c =? c_at) (p_sc s) with
    | None => Ret d s
    | Some (_, _, sc') =>
      let s1 := set_cstart (set_sc s sc') (sc_pos sc' - 1) in
      match parse_command_o m (d_wanted d) keyless s1 with
      | Ret None s2 => bib_loop_o f m keyless pf d s2
      | Ret (Some c) s2 => process_o m pf c d s2 >>= fun d' s3 => bib_loop_o f m keyless pf d' s3
      | Exc e s2 => handle_error m e s2 >>= fun _ s3 => bib_loop_o f m keyless pf d s3
      | Fatal x => Fatal x
      end
    end
  end.

(* CaseInsensitiveDict(macros): later keys overwrite earlier ones that are equal ignoring case *)
Fixpoint lower_table (t acc : list (str * str)) : list (str * str) :=
  match t with
  | [] => acc
  | (k, v) :: r => lower_table r (assoc_set (lower k) v acc)
  end.

Definition parse_bib_o (o : opts) (m : mode) (text : str) : out dbo :=
  bib_loop_o (S (length text)) m (o_keyless o) (map lower (o_person_fields o))
             (mkDbo db_init (option_map (map lower) (o_wanted o)) (match o_wanted o with Some l => l | None => [] end))
             (pst_init text (lower_table (o_macros o) [])).
