(* Model/Writers.v -- the database writers and the readers of the two tree formats, as of /repo HEAD:
     pybtex/database/output/bibtex.py:38-170   Writer.quote / check_braces / _encode_with_comments /
                                               _write_field / _format_name / _write_persons /
                                               _write_preamble / write_stream
     pybtex/database/output/bibyaml.py:48-75   Writer._to_dict
     pybtex/database/input/bibyaml.py:72-100   Parser.parse_stream / process_entry
     pybtex/database/output/bibtexml.py:37-135 _PrettyXMLWriter / Writer._write
     pybtex/database/input/bibtexml.py:44-83   Parser.parse_tree / process_entry / process_person
     pybtex/database/__init__.py               BibliographyData.add_entry / lower, Entry.__init__ /
                                               add_person / lower, Person.get_part_as_text
     pybtex/utils.py:73-165,185-275            CaseInsensitiveDict / OrderedCaseInsensitiveDict
     pybtex/database/convert/__init__.py:33-54 convert
   The .bib reader is Model/BibParser.v (parse_bib), names are Model/Names.v.
   Libraries (latexcodec, PyYAML, xml.sax / ElementTree) are not modelled: the LaTeX encoder is the
   argument [enc] of the writer functions, the YAML and XML texts are replaced by the trees the
   glue code builds / consumes.  errors.strict is True (the default): report_error raises.
   No proofs here. *)
From Pybtex Require Import Base.Prelude Base.PyChar Base.PyStr Model.BibtexStr Model.Names Model.Scanner Model.BibParser.
Local Open Scope N_scope.

Definition E_BRACES : N := 20.    (* BibTeXError('String has unmatched braces: ...') *)

(* ---- the database as the property sees it: keys in order, original entry type (Entry.type is
   its lower-cased form), fields in order, persons per role in order, the preamble list *)
Record wentry := mkWE {
  we_key : str; we_otype : str; we_fields : list (str * str); we_persons : list (str * list person) }.
Record wdb := mkWDb { wd_entries : list wentry; wd_preamble : list str }.

Definition nonempty {X} (l : list X) : bool := match l with [] => false | _ => true end.

(* ---- dict / OrderedDict with str keys: assignment to an existing key keeps its position *)
Fixpoint od_set {V} (k : str) (v : V) (l : list (str * V)) : list (str * V) :=
  match l with
  | [] => [(k, v)]
  | (k', v') :: r => if str_eqb k k' then (k, v) :: r else (k', v') :: od_set k v r
  end.
Fixpoint od_get {V} (k : str) (l : list (str * V)) : option V :=
  match l with
  | [] => None
  | (k', v) :: r => if str_eqb k k' then Some v else od_get k r
  end.
Definition od_of_pairs {V} (l : list (str * V)) : list (str * V) :=
  fold_left (fun acc kv => od_set (fst kv) (snd kv) acc) l [].

(* ---- utils.py OrderedCaseInsensitiveDict: _dict: lower -> value, _keys: lower -> key as last written.
   __setitem__ (utils.py:146-150): position of the first assignment, key and value of the last *)
Fixpoint ci_set {V} (k : str) (v : V) (l : list (str * V)) : list (str * V) :=
  match l with
  | [] => [(k, v)]
  | (k', v') :: r => if str_eqb (lower k) (lower k') then (k, v) :: r else (k', v') :: ci_set k v r
  end.
Fixpoint ci_get {V} (k : str) (l : list (str * V)) : option V :=
  match l with
  | [] => None
  | (k', v) :: r => if str_eqb (lower k) (lower k') then Some v else ci_get k r
  end.
Definition ci_mem {V} (k : str) (l : list (str * V)) : bool :=
  match ci_get k l with Some _ => true | None => false end.
(* __init__(pairs or mapping) (utils.py:261-264): OrderedDict(initial) first, then the two dicts *)
Definition ci_of_pairs {V} (l : list (str * V)) : list (str * V) :=
  fold_left (fun acc kv => ci_set (fst kv) (snd kv) acc) (od_of_pairs l) [].
(* items_lower / lower (utils.py:172-176) *)
Definition ci_lower {V} (l : list (str * V)) : list (str * V) :=
  ci_of_pairs (map (fun kv => (lower (fst kv), snd kv)) l).

(* Entry.add_person (database/__init__.py:493-494): persons.setdefault(role, []).append(person);
   MutableMapping.setdefault looks the role up case-insensitively *)
Fixpoint add_person (role : str) (p : person) (l : list (str * list person)) : list (str * list person) :=
  match l with
  | [] => [(role, [p])]
  | (r, ps) :: t => if str_eqb (lower role) (lower r) then (r, ps ++ [p]) :: t else (r, ps) :: add_person role p t
  end.

(* BibliographyData.add_entry (database/__init__.py:192-206), wanted_entries None, strict mode:
   a repeated key (case-insensitively) is reported, i.e. raised *)
Definition has_key (k : str) (es : list wentry) : bool :=
  existsb (fun e => str_eqb (lower (we_key e)) (lower k)) es.
Definition add_entry_strict (k : str) (e : wentry) (es : list wentry) : res (list wentry) :=
  if has_key k es then PyErr E_REPEATED (-1)
  else Ok (es ++ [mkWE k (we_otype e) (we_fields e) (we_persons e)]).
Fixpoint add_entries_strict (l : list wentry) (es : list wentry) : res (list wentry) :=
  match l with
  | [] => Ok es
  | e :: r => do es' <- add_entry_strict (we_key e) e es; add_entries_strict r es'
  end.

(* how the harness builds a database through the public API from a wire value:
   Entry(type); e.fields[k] = v ...; e.add_person(p, role) ...; data.add_entry(key, e) ...;
   data.add_to_preamble(items...) *)
Definition build_entry (key otype : str) (fields : list (str * str)) (persons : list (str * list person)) : wentry :=
  mkWE key otype
       (fold_left (fun acc kv => ci_set (fst kv) (snd kv) acc) fields [])
       (fold_left (fun acc rp => fold_left (fun a p => add_person (fst rp) p a) (snd rp) acc) persons []).
Definition build_db (entries : list wentry) (preamble : list str) : res wdb :=
  do es <- add_entries_strict (map (fun e => build_entry (we_key e) (we_otype e) (we_fields e) (we_persons e)) entries) [];
  Ok (mkWDb es preamble).

(* ---- Person.get_part_as_text (database/__init__.py:812-814) *)
Definition part_text (l : list str) : str := join [c_space] l.

(* =====================================================================================
   BibTeX writer (output/bibtex.py) *)

(* bibtex.py:59-85 check_braces *)
Definition check_braces (s : str) : res unit :=
  do ts <- scan s;
  match ts with
  | [] => Ok tt
  | _ => if Nat.eqb (snd (last ts ([], 0%nat))) 0 then Ok tt else PyErr E_BRACES (-1)
  end.

(* bibtex.py:38-57 quote *)
Definition has_quote (s : str) : bool := existsb (N.eqb c_quote) s.
Definition quote (s : str) : res str :=
  do _ <- check_braces s;
  Ok (if has_quote s then c_lbrace :: s ++ [c_rbrace] else c_quote :: s ++ [c_quote]).

(* bibtex.py:120-137 _format_name *)
Definition join_nonempty (l : list str) : str := join [c_space] (filter nonempty l).
Definition comma_space : str := [c_comma; c_space].
Definition format_name (p : person) : str :=
  let first := part_text (p_first p) in
  let middle := part_text (p_middle p) in
  let prelast := part_text (p_prelast p) in
  let last_ := part_text (p_last p) in
  let lineage := part_text (p_lineage p) in
  let s1 := if nonempty last_ then join_nonempty [prelast; last_] else [] in
  let s2 := if nonempty lineage then s1 ++ comma_space ++ lineage else s1 in
  if nonempty first || nonempty middle then s2 ++ comma_space ++ join_nonempty [first; middle] else s2.

Definition s_and : str := (* " and " *) [32; 97; 110; 100; 32].
Definition s_field_sep : str := (* ",\n    " *) [44; 10; 32; 32; 32; 32].
Definition s_eq : str := (* " = " *) [32; 61; 32].
Definition s_preamble : str := (* "@preamble{" *) [64; 112; 114; 101; 97; 109; 98; 108; 101; 123].

Section Enc.
  (* Writer._encode (bibtex.py:87-104): codecs.encode(text, 'ulatex+<encoding>') -- latexcodec *)
  Variable enc : str -> str.

  (* bibtex.py:106-117 _encode_with_comments *)
  Definition encode_with_comments (t : str) : str := join [c_percent] (map enc (split_on [c_percent] t)).

  (* bibtex.py:119-120 _write_field *)
  Definition write_field (name value : str) : res str :=
    do q <- quote (enc value); Ok (s_field_sep ++ name ++ s_eq ++ q).

  (* bibtex.py:139-143 _write_persons *)
  Definition write_persons (role : str) (ps : list person) : res str :=
    match ps with
    | [] => Ok []
    | _ => write_field role (join s_and (map format_name ps))
    end.

  (* bibtex.py:145-147 _write_preamble (bib_data.preamble is ''.join(_preamble)) *)
  Definition write_preamble (pre : str) : res str :=
    match pre with
    | [] => Ok []
    | _ => do q <- quote (encode_with_comments pre); Ok (s_preamble ++ q ++ [c_rbrace; c_nl; c_nl])
    end.

  Fixpoint concat_res (l : list (res str)) : res str :=
    match l with
    | [] => Ok []
    | r :: t => do a <- r; do b <- concat_res t; Ok (a ++ b)
    end.

  (* bibtex.py:156-169 the body of the loop of write_stream *)
  Definition write_entry (first : bool) (e : wentry) : res str :=
    do ps <- concat_res (map (fun rp => write_persons (fst rp) (snd rp)) (we_persons e));
    do fs <- concat_res (map (fun kv => write_field (fst kv) (snd kv)) (we_fields e));
    Ok ((if first then [] else [c_nl]) ++ [c_at] ++ we_otype e ++ [c_lbrace] ++ we_key e ++ ps ++ fs ++ [c_nl; c_rbrace; c_nl]).

  Fixpoint write_entries (first : bool) (es : list wentry) : res str :=
    match es with
    | [] => Ok []
    | e :: r => do a <- write_entry first e; do b <- write_entries false r; Ok (a ++ b)
    end.

  (* bibtex.py:149-169 write_stream = Writer().to_string(bib_data) *)
  Definition write_bibtex (d : wdb) : res str :=
    do p <- write_preamble (concat (wd_preamble d));
    do es <- write_entries true (wd_entries d);
    Ok (p ++ es).
End Enc.

(* the measured behaviour of latexcodec's 'ulatex+utf-8' encoder on the harness alphabet: the
   identity except for # % & _ (a backslash is put in front) and ~ (-> \textasciitilde, followed
   by a space, by '\' when a space follows in the text, by nothing at the end).  Compared with the
   live codec on every run. *)
Definition s_tilde : str := (* "\textasciitilde" *) [92; 116; 101; 120; 116; 97; 115; 99; 105; 105; 116; 105; 108; 100; 101].
Fixpoint latex_enc (s : str) : str :=
  match s with
  | [] => []
  | c :: t =>
    if (c =? 35) || (c =? 37) || (c =? 38) || (c =? 95) then c_bslash :: c :: latex_enc t
    else if c =? c_tilde then
      s_tilde ++ match t with
                 | [] => []
                 | d :: _ => if d =? c_space then c_bslash :: latex_enc t else c_space :: latex_enc t
                 end
    else c :: latex_enc t
  end.

(* Parser().parse_string(text) of input/bibtex.py, strict mode, as a database *)
Definition wentry_of_entry (e : entry) : wentry := mkWE (en_key e) (en_otype e) (en_fields e) (en_persons e).
Definition wdb_of_db (d : db) : wdb := mkWDb (map wentry_of_entry (db_entries d)) (map snd (db_preamble d)).
Definition read_bibtex (text : str) : res wdb :=
  match parse_bib Strict text with
  | Ret d _ => Ok (wdb_of_db d)
  | Exc _ _ => Crash
  | Fatal (FErr c l) => PyErr c l
  | Fatal FCrash => Crash
  | Fatal FFuel => OutOfFuel
  end.

(* =====================================================================================
   YAML: the glue between the database and the tree PyYAML dumps / loads *)
Inductive tree := TStr (s : str) | TMap (l : list (str * tree)) | TSeq (l : list tree).

Definition k_first : str := [102; 105; 114; 115; 116].
Definition k_middle : str := [109; 105; 100; 100; 108; 101].
Definition k_prelast : str := [112; 114; 101; 108; 97; 115; 116].
Definition k_last : str := [108; 97; 115; 116].
Definition k_lineage : str := [108; 105; 110; 101; 97; 103; 101].
Definition k_string : str := [115; 116; 114; 105; 110; 103].
Definition k_type : str := [116; 121; 112; 101].
Definition k_entries : str := [101; 110; 116; 114; 105; 101; 115].
Definition k_preamble : str := [112; 114; 101; 97; 109; 98; 108; 101].
Definition k_author : str := [97; 117; 116; 104; 111; 114].
Definition k_editor : str := [101; 100; 105; 116; 111; 114].
Definition k_person : str := [112; 101; 114; 115; 111; 110].
Definition k_entry : str := [101; 110; 116; 114; 121].
Definition k_file : str := [102; 105; 108; 101].

(* the (type, text) pairs with a non-empty text, in the fixed order first middle prelast last lineage
   (bibyaml.py:57-61 process_person, bibtexml.py:101-104) *)
Definition person_parts (p : person) : list (str * str) :=
  filter (fun kv => nonempty (snd kv))
    [(k_first, part_text (p_first p)); (k_middle, part_text (p_middle p)); (k_prelast, part_text (p_prelast p));
     (k_last, part_text (p_last p)); (k_lineage, part_text (p_lineage p))].

(* bibyaml.py:48-75 _to_dict *)
Definition person_tree (p : person) : tree :=
  TMap (od_of_pairs (map (fun kv => (fst kv, TStr (snd kv))) (person_parts p))).
Definition entry_tree (e : wentry) : tree :=
  let t0 := [(k_type, TStr (we_otype e))] in
  let t1 := fold_left (fun acc kv => od_set (fst kv) (TStr (snd kv)) acc) (we_fields e) t0 in
  let t2 := fold_left (fun acc rp => od_set (fst rp) (TSeq (map person_tree (snd rp))) acc) (we_persons e) t1 in
  TMap t2.
Definition to_tree_yaml (d : wdb) : tree :=
  let es := od_of_pairs (map (fun e => (we_key e, entry_tree e)) (wd_entries d)) in
  let pre := concat (wd_preamble d) in
  TMap ((k_entries, TMap es) :: match pre with [] => [] | _ => [(k_preamble, TStr pre)] end).

(* Person( **names) for a mapping read from YAML / XML: unknown keyword or a value that is not a
   string -> TypeError / AttributeError; "too many commas" in string= is reported (raised) *)
Definition kwarg (k : str) (m : list (str * option str)) : res str :=
  match od_get k m with
  | None => Ok []
  | Some (Some s) => Ok s
  | Some None => Crash
  end.
Definition person_of_kwargs (m : list (str * option str)) : res person :=
  if forallb (fun kv => existsb (str_eqb (fst kv)) [k_string; k_first; k_middle; k_prelast; k_last; k_lineage]) m then
    do s <- kwarg k_string m;
    (* Person.__init__ parses string= first: "too many commas" is raised before the parts are split *)
    do pr0 <- person_init s [] [] [] [] [];
    if snd pr0 then PyErr E_NAME (-1) else
    do f <- kwarg k_first m; do mi <- kwarg k_middle m;
    do v <- kwarg k_prelast m; do l <- kwarg k_last m; do j <- kwarg k_lineage m;
    do pr <- person_init s f mi v l j;
    Ok (fst pr)
  else Crash.

Definition is_role_lower (k : str) : bool := str_eqb k k_author || str_eqb k k_editor.   (* Person.valid_roles *)

Definition str_leaf (t : tree) : option str := match t with TStr s => Some s | _ => None end.

(* input/bibyaml.py:89-100 process_entry.  (A field value that is not a string would be str()-ed by
   the code; the model has only string leaves and answers Crash there -- never generated.) *)
Definition yaml_persons (role : str) (value : tree) (ps : list (str * list person)) : res (list (str * list person)) :=
  match value with
  | TSeq l =>
    fold_left (fun acc names =>
                 do a <- acc;
                 match names with
                 | TMap m => do p <- person_of_kwargs (map (fun kv => (fst kv, str_leaf (snd kv))) m); Ok (add_person role p a)
                 | _ => Crash
                 end) l (Ok ps)
  | TStr [] => Ok ps
  | TMap [] => Ok ps
  | _ => Crash
  end.
Definition yaml_entry (key : str) (entry : tree) : res wentry :=
  match entry with
  | TMap m =>
    match od_get k_type m with
    | Some (TStr ty) =>
      do fp <- fold_left (fun acc kv =>
                 do a <- acc;
                 let kl := lower (fst kv) in
                 if is_role_lower kl then do ps <- yaml_persons (fst kv) (snd kv) (snd a); Ok (fst a, ps)
                 else if str_eqb kl k_type then Ok a
                 else match snd kv with
                      | TStr s => Ok (ci_set (fst kv) s (fst a), snd a)
                      | _ => Crash
                      end) m (Ok ([], []));
      Ok (mkWE key ty (fst fp) (snd fp))
    | _ => Crash
    end
  | _ => Crash
  end.

(* input/bibyaml.py:72-87 parse_stream on the loaded tree *)
Definition from_tree_yaml (t : tree) : res wdb :=
  match t with
  | TMap top =>
    match od_get k_entries top with
    | Some (TMap es) =>
      do pre <- match od_get k_preamble top with
                | None => Ok []
                | Some (TStr s) => Ok [s]
                | Some _ => Crash
                end;
      do ents <- fold_left (fun acc ke => do a <- acc; do e <- yaml_entry (fst ke) (snd ke); add_entry_strict (fst ke) e a)
                           es (Ok []);
      Ok (mkWDb ents pre)
    | _ => Crash
    end
  | _ => Crash
  end.

(* =====================================================================================
   BibTeXML: the glue between the database and the element tree.  An element: local tag name
   (all in the bibtex namespace), the id attribute, .text (None when no character data precedes the
   first child) and the child elements.  Tails are never read. *)
Inductive xml := XEl (tag : str) (id : option str) (text : option str) (children : list xml).
Definition x_tag (x : xml) := match x with XEl t _ _ _ => t end.
Definition x_id (x : xml) := match x with XEl _ i _ _ => i end.
Definition x_text (x : xml) := match x with XEl _ _ t _ => t end.
Definition x_children (x : xml) := match x with XEl _ _ _ c => c end.

(* _PrettyXMLWriter: an element opened by start(tag) at stack depth d (the number of open elements
   before it) holds '\n', then its children each preceded by 4*(d+1) spaces, then 4*d spaces before
   its end tag: its .text is '\n' + the indentation of whatever comes first *)
Definition indent_text (n : nat) : str := c_nl :: repeat c_space (4 * n).
Definition container (tag : str) (id : option str) (depth : nat) (children : list xml) : xml :=
  XEl tag id (Some (indent_text (match children with [] => depth | _ => S depth end))) children.
(* element(tag, data): start(newline=False); write(data); end(indent=False) *)
Definition leaf (tag data : str) : xml := XEl tag None (match data with [] => None | _ => Some data end) [].

(* output/bibtexml.py:98-124 _write *)
Definition xml_person (p : person) : xml :=
  container k_person None 4 (map (fun kv => leaf (fst kv) (snd kv)) (person_parts p)).
Definition xml_entry (e : wentry) : xml :=
  let fields := map (fun kv => leaf (fst kv) (snd kv)) (we_fields e) in
  let roles := flat_map (fun rp => match snd rp with
                                   | [] => []
                                   | ps => [container (fst rp) None 3 (map xml_person ps)]
                                   end) (we_persons e) in
  container k_entry (Some (we_key e)) 1 [container (we_otype e) None 2 (fields ++ roles)].
Definition to_tree_xml (d : wdb) : xml :=
  match map xml_entry (wd_entries d) with
  | [] => XEl k_file None (Some [c_nl; c_nl]) []
  | es => XEl k_file None (Some ([c_nl; c_nl] ++ repeat c_space 4)) es
  end.

(* input/bibtexml.py:52-68 process_person (recursive over nested <person> elements, on fuel) *)
Fixpoint xml_person_read (fuel : nat) (role : str) (x : xml) (ps : list (str * list person)) : res (list (str * list person)) :=
  match fuel with
  | O => OutOfFuel
  | S f =>
    match filter (fun c => str_eqb (x_tag c) k_person) (x_children x) with
    | (_ :: _) as persons => fold_left (fun acc c => do a <- acc; xml_person_read f role c a) persons (Ok ps)
    | [] =>
      match x_text x with
      | None => Crash                       (* None.strip() *)
      | Some t =>
        match strip t with
        | (_ :: _) as text =>
          do pr <- person_of_string text;
          if snd pr then PyErr E_NAME (-1) else Ok (add_person role (fst pr) ps)
        | [] =>
          do p <- person_of_kwargs (od_of_pairs (map (fun c => (x_tag c, x_text c)) (x_children x)));
          Ok (add_person role p ps)
        end
      end
    end
  end.
Fixpoint xml_size (x : xml) : nat :=
  match x with XEl _ _ _ cs => S (fold_left (fun a c => a + xml_size c)%nat cs 0%nat) end.

(* input/bibtexml.py:70-83 process_entry: exact (case-sensitive) membership in Person.valid_roles *)
Definition xml_entry_read (x : xml) : res wentry :=
  match x_id x, x_children x with
  | Some key, item :: _ =>
    do fp <- fold_left (fun acc field =>
               do a <- acc;
               let name := x_tag field in
               if is_role_lower name then do ps <- xml_person_read (S (xml_size field)) name field (snd a); Ok (fst a, ps)
               else Ok (ci_set name (match x_text field with Some t => t | None => [] end) (fst a), snd a))
             (x_children item) (Ok ([], []));
    Ok (mkWE key (x_tag item) (fst fp) (snd fp))
  | _, _ => Crash       (* no id: None.lower() in add_entry; no child: list(entry)[0] *)
  end.

(* input/bibtexml.py:44-50 parse_tree: process_entry for every <entry> child, add_entries *)
Definition from_tree_xml (x : xml) : res wdb :=
  do ents <- fold_left (fun acc c => do a <- acc; do e <- xml_entry_read c; add_entry_strict (we_key e) e a)
                       (filter (fun c => str_eqb (x_tag c) k_entry) (x_children x)) (Ok []);
  Ok (mkWDb ents []).

(* =====================================================================================
   lower (database/__init__.py:357-402 BibliographyData.lower, 496-501 Entry.lower) *)
Definition lower_entry (e : wentry) : wentry :=
  mkWE (lower (we_key e)) (lower (lower (we_otype e)))   (* Entry(self.type, ...): type is already lower-cased *)
       (ci_of_pairs (ci_lower (we_fields e))) (ci_of_pairs (ci_lower (we_persons e))).
Definition lower_db (d : wdb) : res wdb :=
  do es <- add_entries_strict (map lower_entry (wd_entries d)) [];
  Ok (mkWDb es (wd_preamble d)).

(* =====================================================================================
   one write/read through a format, and convert() chains *)
Inductive fmt := FBib | FXml | FYaml.
Section Chain.
  Variable enc : str -> str.
  Definition write_read (f : fmt) (d : wdb) : res wdb :=
    match f with
    | FBib => do t <- write_bibtex enc d; read_bibtex t
    | FXml => from_tree_xml (to_tree_xml d)
    | FYaml => from_tree_yaml (to_tree_yaml d)
    end.
  (* data.to_file(f0); convert(f0 -> f1, preserve_case); convert(f1 -> f2, ...); parse_file(last):
     convert = parse_file, lower() unless preserve_case, to_file (convert/__init__.py:33-54) *)
  Fixpoint chain_rest (fs : list fmt) (preserve_case : bool) (d : wdb) : res wdb :=
    match fs with
    | [] => Ok d
    | f :: r =>
      do d1 <- (if preserve_case then Ok d else lower_db d);
      do d2 <- write_read f d1;
      chain_rest r preserve_case d2
    end.
  Definition chain (fs : list fmt) (preserve_case : bool) (d : wdb) : res wdb :=
    match fs with
    | [] => Ok d
    | f :: r => do d1 <- write_read f d; chain_rest r preserve_case d1
    end.
End Chain.

(* Person(first=.., middle=.., prelast=.., last=.., lineage=..) from the texts of the parts *)
Definition person_of_parts (f m v l j : str) : res person :=
  do pr <- person_init [] f m v l j; Ok (fst pr).
Definition reparse_person (p : person) : res person :=
  person_of_parts (part_text (p_first p)) (part_text (p_middle p)) (part_text (p_prelast p))
                  (part_text (p_last p)) (part_text (p_lineage p)).
