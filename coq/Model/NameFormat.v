(* Model/NameFormat.v -- pybtex/bibtex/names.py (BibTeX name format strings: NameFormatParser,
   NamePart, Text, NameFormat, join, tie_or_space, format_name) and the format.name$ built-in
   of pybtex/bibtex/builtins.py:176-192 (_split_names / _format_name).
   Mirrors /repo HEAD, i.e. after the fix: commits 3ca07e7 (the stored format letter is
   lower-cased) and 703bfb1 (name index out of range is a BibTeXError).
   Uses, read-only, Model/BibtexStr.v (bibtex_len, bibtex_abbreviate, split_name_list) and
   Model/Names.v (Person).  No proofs here. *)
From Pybtex Require Import Base.Prelude Base.PyChar Base.PyStr Model.BibtexStr Model.Names.

(* error classes (all PybtexError subclasses; the line is always None: lineno = None) *)
Definition E_SYNTAX : N := 20.       (* PybtexSyntaxError: illegal brace-level-1 letters *)
Definition E_UNBALANCED : N := 21.   (* UnbalancedBraceError *)
Definition E_TOKEN : N := 22.        (* TokenRequired: no pattern matches (e.g. an underscore at level 1) *)
Definition E_EOF : N := 23.          (* PrematureEOF escaping from optional([LBRACE]) *)
Definition E_NONAME : N := 11.       (* BibTeXError: there is no name #n *)

Definition c_dot : char := 46%N.
Definition c_underscore : char := 95%N.

(* ---- the three regular expressions of NameFormatParser (names.py:287-291), as the
        length of the match at the start of the string (0 = no match) ---- *)
Fixpoint span_len (p : char -> bool) (s : str) : nat :=
  match s with c :: t => if p c then S (span_len p t) else 0 | [] => 0 end.

Definition nonbrace (c : char) : bool := negb (is_brace c).
(* \w for the modelled domain: ASCII letters, digits, underscore *)
Definition is_word (c : char) : bool := is_alnum c || N.eqb c c_underscore.
(* TEXT = [^{}]+ *)
Definition m_text (s : str) : nat := span_len nonbrace s.
(* NON_LETTERS = [^{}\w]|\d+ *)
Definition m_non_letters (s : str) : nat :=
  match s with
  | [] => 0
  | c :: _ => if nonbrace c && negb (is_word c) then 1 else span_len is_digit s
  end.
(* FORMAT_CHARS = [^\W\d_]+ *)
Definition m_format_chars (s : str) : nat := span_len is_alpha s.

(* ---- parsed parts ---- *)
(* NamePart attributes: pre_text, format_char ('' = None), abbreviate, delimiter (None or a
   string), post_text, tie (0 = None, 1 = '~', 2 = '~~') *)
Record name_part := mkNP {
  np_pre : str; np_char : option char; np_abbr : bool; np_delim : option str; np_post : str; np_tie : nat }.
Inductive part := PText (t : str) | PName (np : name_part).

(* the 4-tuple parse_name_part returns: (prefix, format_chars, delimiter, postfix) *)
Definition raw_part := (str * option str * option str * str)%type.

(* names.py:314-326 parse_braced_string, called just after an opening brace: the text up to
   the matching closing brace (the recursive generator re-assembles exactly the source text,
   so the recursion is flattened into a depth counter), and the rest after that brace.
   End of text before the brace is closed -> UnbalancedBraceError. *)
Fixpoint braced_go (s : str) (depth : nat) (acc : str) : res (str * str) :=
  match s with
  | [] => PyErr E_UNBALANCED (-1)
  | c :: t =>
    if is_rbrace c then
      match depth with
      | O => Ok (rev acc, t)
      | S d => braced_go t d (c :: acc)
      end
    else if is_lbrace c then braced_go t (S depth) (c :: acc)
    else braced_go t depth (c :: acc)
  end.
Definition parse_braced_string (s : str) : res (str * str) := braced_go s 0 [].

(* names.py:335-343 check_format_chars(value), value already lower-cased: True = accepted *)
Definition flvj (c : char) : bool := N.eqb c 102 || N.eqb c 108 || N.eqb c 118 || N.eqb c 106.
Definition format_chars_ok (already : bool) (v : str) : bool :=
  negb already &&
  match v with
  | [a] => flvj a
  | [a; b] => N.eqb a b && flvj a
  | _ => false
  end.

(* names.py:328-364 parse_name_part, called just after the opening brace of a level-1 group.
   [pre]/[post] are ''.join(verbatim_prefix) / ''.join(verbatim_postfix); `verbatim` aliases
   the postfix list exactly when format_chars is set. *)
Fixpoint name_part_go (fuel : nat) (s pre : str) (fc delim : option str) (post : str) : res (raw_part * str) :=
  match fuel with
  | O => OutOfFuel
  | S f =>
    let app v r := match fc with
                   | None => name_part_go f r (pre ++ v) fc delim post
                   | Some _ => name_part_go f r pre fc delim (post ++ v)
                   end in
    match s with
    | [] => PyErr E_UNBALANCED (-1)                 (* PrematureEOF -> UnbalancedBraceError *)
    | c :: t =>
      if is_lbrace c then
        do br <- parse_braced_string t;
        app (c_lbrace :: fst br ++ [c_rbrace]) (snd br)
      else match m_non_letters s with
      | S k => app (firstn (S k) s) (skipn (S k) s)
      | O =>
        match m_format_chars s with
        | S k =>
          let v := lower (firstn (S k) s) in
          let r := skipn (S k) s in
          if format_chars_ok (match fc with Some _ => true | None => false end) v then
            match r with
            | [] => PyErr E_EOF (-1)                (* self.optional([LBRACE]) at end of text *)
            | d :: r' =>
              if is_lbrace d then
                do br <- parse_braced_string r';
                name_part_go f (snd br) pre (Some v) (Some (fst br)) post
              else name_part_go f r pre (Some v) delim post
            end
          else PyErr E_SYNTAX (-1)
        | O =>
          if is_rbrace c then Ok ((pre, fc, delim, post), t)
          else PyErr E_TOKEN (-1)                   (* TokenRequired *)
        end
      end
    end
  end.
Definition parse_name_part (s : str) : res (raw_part * str) :=
  name_part_go (S (length s)) s [] None None [].

(* str.endswith / rstrip('~') *)
Definition endswith (s suf : str) : bool := startswith (rev s) (rev suf).
Fixpoint lstrip_tilde (s : str) : str :=
  match s with c :: t => if N.eqb c c_tilde then lstrip_tilde t else s | [] => [] end.
Definition rstrip_tilde (s : str) : str := rev (lstrip_tilde (rev s)).

(* names.py:77-106 NamePart.__init__(format_list).  BibTeXNameFormatError derives from
   Exception, not from PybtexError: Crash. *)
Definition mk_name_part (r : raw_part) : res name_part :=
  let '(pre0, fc, delim, post0) := r in
  let nofc := match fc with None | Some [] => true | _ => false end in
  let swap := nofc && negb (match pre0 with [] => true | _ => false end)
                   && (match post0 with [] => true | _ => false end) in
  let pre := if swap then [] else pre0 in
  let post := if swap then pre0 else post0 in
  let tie := if endswith post [c_tilde; c_tilde] then 2 else if endswith post [c_tilde] then 1 else 0 in
  let post' := rstrip_tilde post in
  match fc with
  | None | Some [] => Ok (mkNP pre None false delim post' tie)
  | Some [a] => Ok (mkNP pre (Some a) true delim post' tie)
  | Some [a; b] => if N.eqb a b then Ok (mkNP pre (Some a) false delim post' tie) else Crash
  | Some _ => Crash
  end.

(* names.py:302-312 parse_toplevel + 294-300 parse: the list of parts *)
Fixpoint parse_go (fuel : nat) (s : str) : res (list part) :=
  match fuel with
  | O => OutOfFuel
  | S f =>
    match s with
    | [] => Ok []                                   (* EOFError ends parse() *)
    | c :: t =>
      match m_text s with
      | S k => do ps <- parse_go f (skipn (S k) s); Ok (PText (firstn (S k) s) :: ps)
      | O =>
        if is_lbrace c then
          do rp <- parse_name_part t;
          do np <- mk_name_part (fst rp);
          do ps <- parse_go f (snd rp);
          Ok (PName np :: ps)
        else PyErr E_UNBALANCED (-1)                (* a closing brace at level 0 *)
      end
    end
  end.
(* NameFormat.__init__: list(NameFormatParser(format).parse()) *)
Definition parse_format (f : str) : res (list part) := parse_go (S (length f)) f.

(* names.py:247-251 tie_or_space(word, tie, space); enough_chars = 3 *)
Definition enough_chars : nat := 3.
Definition tie_or_space (word tie space : str) : res str :=
  do n <- bibtex_len word; Ok (if Nat.ltb n enough_chars then tie else space).

(* names.py:254-273 join(words, tie, space) *)
Definition join_words (words : list str) (tie space : str) : res str :=
  match words with
  | [] | [_] | [_; _] => Ok (join tie words)
  | w0 :: rest =>
    do sep <- tie_or_space w0 tie space;
    Ok (w0 ++ sep ++ join space (removelast rest) ++ tie ++ last rest [])
  end.

(* NamePart.types + Person.get_part: a letter that is not a key of `types` is a KeyError *)
Definition get_names (c : char) (p : person) : res (list str) :=
  if N.eqb c 102 then Ok (bibtex_first_names p)
  else if N.eqb c 108 then Ok (p_last p)
  else if N.eqb c 118 then Ok (p_prelast p)
  else if N.eqb c 106 then Ok (p_lineage p)
  else Crash.

Definition is_nil {X} (l : list X) : bool := match l with [] => true | _ => false end.

(* names.py:125-153 NamePart.format(person) *)
Definition format_name_part (np : name_part) (p : person) : res str :=
  do names <- match np_char np with None => Ok [] | Some c => get_names c p end;
  if (match np_char np with Some _ => true | None => false end) && is_nil names then Ok []
  else
    do names1 <- (if np_abbr np then map_res (fun n => bibtex_abbreviate n (np_delim np)) names else Ok names);
    do joined <- match np_delim np with
                 | None => if np_abbr np then join_words names1 [c_dot; c_tilde] [c_dot; c_space]
                           else join_words names1 [c_tilde] [c_space]
                 | Some d => Ok (join d names1)
                 end;
    let formatted := np_pre np ++ joined ++ np_post np in
    do disc <- match np_tie np with
               | 1 => tie_or_space formatted [c_tilde] [c_space]
               | 2 => Ok [c_tilde]
               | _ => Ok []
               end;
    Ok (formatted ++ disc).

Definition format_part (pt : part) (p : person) : res str :=
  match pt with
  | PText t => Ok t                                 (* Text.format *)
  | PName np => format_name_part np p
  end.

Fixpoint format_parts (ps : list part) (p : person) : res str :=
  match ps with
  | [] => Ok []
  | pt :: r => do a <- format_part pt p; do b <- format_parts r p; Ok (a ++ b)
  end.

(* names.py:227-229 NameFormat.format(name) given an already built Person *)
Definition format_person (f : str) (p : person) : res str :=
  do ps <- parse_format f; format_parts ps p.

(* names.py:276-277 format_name(name, format) = NameFormat(format).format(name): the format is
   parsed first, then Person(name) is built.  The flag says whether Person reported
   InvalidNameString ("too many commas") -- raised in strict mode, collected otherwise. *)
Definition format_name (name f : str) : res (str * bool) :=
  do ps <- parse_format f;
  do pr <- person_of_string name;
  do out <- format_parts ps (fst pr);
  Ok (out, snd pr).

(* builtins.py:176-192 format.name$: _format_name(names, n, format) *)
Definition format_name_n (names : str) (n : Z) (f : str) : res (str * bool) :=
  do l <- split_name_list names;
  if ((1 <=? n) && (n <=? Z.of_nat (length l)))%Z then
    format_name (nth (Z.to_nat (n - 1)) l []) f
  else PyErr E_NONAME (-1).
