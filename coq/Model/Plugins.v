(* Model/Plugins.v -- pybtex/plugin/__init__.py (the plugin registry, as repaired by
   fix commit fcb418b): _load_entry_point, find_plugin, enumerate_plugin_names,
   register_plugin, the PluginNotFound constructor, and os.path.splitext (posixpath)
   which find_plugin uses to pick the suffix.

   State: _RUNTIME_PLUGINS, a dict of dicts (association lists, CPython semantics).
   Environment (arguments, not state): the installed entry points in the order
   importlib.metadata.entry_points() yields them, and _DEFAULT_PLUGINS.
   A plugin class is a number; 0 models the value None (register_plugin accepts it,
   _load_entry_point's "klass is not None" then skips it).  No proofs here. *)
From Pybtex Require Import Base.Prelude Base.PyChar Base.PyStr.

Definition klass := N.
Definition k_is_none (k : klass) : bool := N.eqb k 0.

(* ---- dict with str keys ---- *)
Fixpoint dget {V} (d : list (str * V)) (k : str) : option V :=
  match d with
  | [] => None
  | (k', v) :: t => if str_eqb k' k then Some v else dget t k
  end.
(* d[k] = v : an existing key keeps its position *)
Fixpoint dset {V} (d : list (str * V)) (k : str) (v : V) : list (str * V) :=
  match d with
  | [] => [(k, v)]
  | (k', v') :: t => if str_eqb k' k then (k', v) :: t else (k', v') :: dset t k v
  end.

Definition rt := list (str * list (str * klass)).          (* _RUNTIME_PLUGINS *)
Definition eps := list ((str * str) * klass).               (* installed entry points: ((group, name), class) *)
Definition dflts := list (str * str).                       (* _DEFAULT_PLUGINS *)

(* str.endswith *)
Definition endswith (s suf : str) : bool := startswith (rev s) (rev suf).
Definition s_suffixes : str := Eval vm_compute in s2l ".suffixes".
Definition s_aliases : str := Eval vm_compute in s2l ".aliases".
Definition c_dot : char := 46%N.
Definition c_slash : char := 47%N.

(* plugin_group.rsplit(".", 1)[0] for a group that ends with [suf] (".suffixes" / ".aliases",
   whose only period is the first character) *)
Definition strip_suffix (g suf : str) : str := firstn (length g - length suf) g.

(* ---- genericpath._splitext(p, '/', None, '.') = posixpath.splitext ---- *)
(* str.rfind(c) as a Z, -1 when absent *)
Fixpoint rfind_aux (c : char) (s : str) (i : Z) (best : Z) : Z :=
  match s with
  | [] => best
  | x :: t => rfind_aux c t (i + 1)%Z (if N.eqb x c then i else best)
  end.
Definition rfind (c : char) (s : str) : Z := rfind_aux c s 0%Z (-1)%Z.
Definition splitext (p : str) : str * str :=
  let sepIndex := rfind c_slash p in
  let dotIndex := rfind c_dot p in
  if (sepIndex <? dotIndex)%Z then
    (* while filenameIndex < dotIndex: a character that is not a period => split there *)
    let between := firstn (Z.to_nat (dotIndex - (sepIndex + 1))) (skipn (Z.to_nat (sepIndex + 1)) p) in
    if existsb (fun c => negb (N.eqb c c_dot)) between
    then (firstn (Z.to_nat dotIndex) p, skipn (Z.to_nat dotIndex) p)
    else (p, [])
  else (p, []).

(* ---- plugin/__init__.py:56-80 PluginGroupNotFound / PluginNotFound.__init__ ----
   error classes: 1 = PluginGroupNotFound, 2 = PluginNotFound.  Since fix 3f5a30c the
   constructor of PluginNotFound picks its message by the group and asserts nothing:
   whatever the name looks like, a plug-in that is not found is a PluginNotFound. *)
Definition cls_group_not_found : N := 1.
Definition cls_plugin_not_found : N := 2.
Definition plugin_not_found {X} (group name : str) : res X := PyErr cls_plugin_not_found (-1).

(* _RUNTIME_PLUGINS.get(search_group, {}).get(name), followed by "is not None" *)
Definition rt_lookup (r : rt) (g n : str) : option klass :=
  match dget r g with
  | None => None
  | Some d => match dget d n with
              | Some k => if k_is_none k then None else Some k
              | None => None
              end
  end.
(* for entry_point in entry_points(group=g, name=n): return entry_point.load() *)
Fixpoint ep_lookup (inst : eps) (g n : str) : option klass :=
  match inst with
  | [] => None
  | ((g', n'), k) :: t => if str_eqb g' g && str_eqb n' n then Some k else ep_lookup t g n
  end.
(* one iteration of the loop of _load_entry_point: runtime first, then installed *)
Definition lookup1 (r : rt) (inst : eps) (g n : str) : option klass :=
  match rt_lookup r g n with
  | Some k => Some k
  | None => ep_lookup inst g n
  end.

(* plugin/__init__.py:84-97 _load_entry_point *)
Definition load_entry_point (r : rt) (inst : eps) (group name : str) (use_aliases : bool) : res klass :=
  match lookup1 r inst group name with
  | Some k => Ok k
  | None =>
    if use_aliases then
      match lookup1 r inst (group ++ s_aliases) name with
      | Some k => Ok k
      | None => plugin_not_found group name
      end
    else plugin_not_found group name
  end.

(* the [name] argument of find_plugin: None, a string, or an already loaded Plugin class *)
Inductive pname := NNone | NStr (s : str) | NClass (k : klass).

(* plugin/__init__.py:100-128 find_plugin *)
Definition find_plugin (r : rt) (inst : eps) (df : dflts) (group : str) (name : pname) (filename : option str) : res klass :=
  match name with
  | NClass k => Ok k
  | _ =>
    match dget df group with
    | None => PyErr cls_group_not_found (-1)
    | Some default_name =>
      match name with
      | NStr (c :: n) => load_entry_point r inst group (c :: n) true
      | _ =>
        match filename with
        | Some (c :: f) => load_entry_point r inst (group ++ s_suffixes) (snd (splitext (c :: f))) false
        | _ => load_entry_point r inst group default_name false
        end
      end
    end
  end.

(* plugin/__init__.py:131-135 enumerate_plugin_names *)
Definition enumerate_plugin_names (r : rt) (inst : eps) (group : str) : list str :=
  map fst (match dget r group with Some d => d | None => [] end)
  ++ map (fun e => snd (fst e)) (filter (fun e => str_eqb (fst (fst e)) group) inst).

(* plugin/__init__.py:138-181 register_plugin: result and new _RUNTIME_PLUGINS.
   ValueError (a suffix that does not start with a period) is a Crash;
   an unknown base group is PluginGroupNotFound; both leave the state alone. *)
Definition base_group_of (g : str) : str :=
  if endswith g s_suffixes then strip_suffix g s_suffixes
  else if endswith g s_aliases then strip_suffix g s_aliases
  else g.
Definition already_registered (r : rt) (inst : eps) (g n : str) : bool :=
  match dget r g with
  | Some d => match dget d n with Some _ => true | None => false end
  | None => false
  end
  || match ep_lookup inst g n with Some _ => true | None => false end.
Definition register_plugin (r : rt) (inst : eps) (df : dflts) (g n : str) (k : klass) (force : bool) : res bool * rt :=
  if endswith g s_suffixes && negb (startswith n [c_dot]) then (Crash, r)
  else
    match dget df (base_group_of g) with
    | None => (PyErr cls_group_not_found (-1), r)
    | Some _ =>
      if already_registered r inst g n && negb force then (Ok false, r)
      else
        let d := match dget r g with Some d => d | None => [] end in
        (Ok true, dset r g (dset d n k))
    end.

(* ---- histories of API calls ---- *)
Inductive call :=
| CReg (g n : str) (k : klass) (force : bool)
| CFind (g : str) (name : pname) (filename : option str)
| CEnum (g : str).
Inductive val := VBool (b : bool) | VClass (k : klass) | VNames (l : list str).

Definition step (inst : eps) (df : dflts) (r : rt) (c : call) : res val * rt :=
  match c with
  | CReg g n k force =>
    let '(o, r') := register_plugin r inst df g n k force in
    (match o with Ok b => Ok (VBool b) | PyErr c l => PyErr c l | Crash => Crash | OutOfFuel => OutOfFuel end, r')
  | CFind g name fl =>
    (match find_plugin r inst df g name fl with Ok k => Ok (VClass k) | PyErr c l => PyErr c l | Crash => Crash | OutOfFuel => OutOfFuel end, r)
  | CEnum g => (Ok (VNames (enumerate_plugin_names r inst g)), r)
  end.

Fixpoint run (inst : eps) (df : dflts) (r : rt) (cs : list call) : list (res val) * rt :=
  match cs with
  | [] => ([], r)
  | c :: t =>
    let '(o, r') := step inst df r c in
    let '(os, r'') := run inst df r' t in
    (o :: os, r'')
  end.
