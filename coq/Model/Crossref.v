(* Model/Crossref.v -- cross-referenced fields (property C14).
   Mirrors, function by function (code as of the fix: commits c83cdd0 / 17ffa16):
     pybtex/database/__init__.py:500-534   Entry._find_person_field / _find_crossref_field / _find_field
     pybtex/database/__init__.py:212-314   BibliographyData._get_crossreferenced_citations /
                                           _expand_wildcard_citations / add_extra_citations
     pybtex/bibtex/interpreter.py:97-132   MissingField / Field.value / Crossref.value
     pybtex/bibtex/interpreter.py:268-300  Interpreter._iterate / command_read / remove_missing_citations
     pybtex/style/template.py:252-267      field()
     pybtex/style/formatting/__init__.py:53-96  BaseStyle.format_entries / format_entry / format_bibliography
   No proofs in this file. *)
From Pybtex Require Import Base.Prelude Base.PyChar Base.PyStr.

(* ---- data ---------------------------------------------------------------------------- *)

(* An Entry object.  [e_id] is the identity of the Python object (what `is` compares);
   [e_key] is its .key attribute (set by BibliographyData.add_entry);
   [e_fields] / [e_persons] are the items of the two OrderedCaseInsensitiveDicts
   (keys pairwise distinct modulo case, as the dict guarantees);
   a person is represented by its str(), which is all that _find_person_field uses. *)
Record entry := mkEntry {
  e_id : nat;
  e_key : str;
  e_fields : list (str * str);
  e_persons : list (str * list str)
}.

(* bib_data.entries: an OrderedCaseInsensitiveDict key -> Entry, in insertion order *)
Definition db := list (str * entry).

(* CaseInsensitiveDict.__getitem__ (pybtex/utils.py:159): self._dict[key.lower()].
   None = KeyError.  (First match: add_entry ignores a repeated key, the first stays.) *)
Fixpoint ci_get {V} (d : list (str * V)) (k : str) : option V :=
  match d with
  | [] => None
  | (k', v) :: r => if str_eqb (lower k') (lower k) then Some v else ci_get r k
  end.

(* CaseInsensitiveSet.__contains__ : key.lower() in the set of lowered keys *)
Definition ci_mem (s : list str) (k : str) : bool :=
  existsb (fun k' => str_eqb (lower k') (lower k)) s.

(* string constants as code points (s2l would drag Coq's string type into the extraction);
   Props/C14.v checks them against s2l literals *)
Definition s_crossref : str := [99; 114; 111; 115; 115; 114; 101; 102]%N.   (* "crossref" *)
Definition s_and : str := [32; 97; 110; 100; 32]%N.   (* " and " *)
Definition s_star : str := [42]%N.   (* "*" *)

(* ---- Entry._find_person_field (database/__init__.py:500-502) ---------------------------
   persons = self.persons[role]  (KeyError -> None);  ' and '.join(str(p) for p in persons) *)
Definition find_person_field (e : entry) (role : str) : option str :=
  match ci_get (e_persons e) role with
  | None => None
  | Some ps => Some (join s_and ps)
  end.

(* result of a lookup: [Ok (Some v)] the value, [Ok None] = KeyError raised (the documented
   "not found" signal of _find_field), [Crash] any other exception, [OutOfFuel] = the
   model's recursion budget ran out (ruled out by find_terminates). *)
Definition lookup := res (option str).

(* ---- Entry._find_crossref_field (database/__init__.py:504-511) -------------------------
   [bd] = bib_data (None = Python None); [visited] = identities in the _visited tuple;
   [rec] = the call referenced_entry._find_field(name, bib_data, _visited + (self,)). *)
Definition find_crossref_field (rec : entry -> list nat -> lookup)
           (e : entry) (bd : option db) (visited : list nat) : lookup :=
  match bd with
  | None => Ok None                                   (* bib_data is None -> KeyError(name) *)
  | Some d =>
    match ci_get (e_fields e) s_crossref with
    | None => Ok None                                 (* 'crossref' not in self.fields *)
    | Some cr =>
      if existsb (Nat.eqb (e_id e)) visited then Ok None   (* any(entry is self ...) *)
      else match ci_get d cr with
           | None => Ok None                          (* bib_data.entries[...] KeyError *)
           | Some e' => rec e' (visited ++ [e_id e])
           end
    end
  end.

(* ---- Entry._find_field (database/__init__.py:513-534) ----------------------------------
   Python recursion -> recursion on fuel, one unit per _find_field call. *)
Fixpoint find_field (fuel : nat) (bd : option db) (e : entry) (name : str) (visited : list nat) : lookup :=
  match fuel with
  | O => OutOfFuel
  | S f =>
    match ci_get (e_fields e) name with               (* self.fields[name] *)
    | Some v => Ok (Some v)
    | None =>
      match find_person_field e name with             (* self._find_person_field(name) *)
      | Some v => Ok (Some v)
      | None => find_crossref_field (fun e' vis => find_field f bd e' name vis) e bd visited
      end
    end
  end.

(* enough fuel for every graph (Proofs/Crossref.v: find_terminates) *)
Definition fuel_for (d : option db) : nat :=
  match d with None => 1 | Some d => length d + 2 end.

(* the public call entry._find_field(name, bib_data) *)
Definition entry_find_field (bd : option db) (e : entry) (name : str) : lookup :=
  find_field (fuel_for bd) bd e name [].

(* ---- interpreter.py:97-132 ------------------------------------------------------------ *)
(* what a BST field variable pushes: a string or MissingField(name) *)
Inductive bstval := BStr (s : str) | BMissing (name : str).

(* Field.value (interpreter.py:112-119): _find_field(self.name, bib_data); KeyError -> MissingField *)
Definition field_value (d : db) (cur : entry) (name : str) : res bstval :=
  match entry_find_field (Some d) cur name with
  | Ok (Some v) => Ok (BStr v)
  | Ok None => Ok (BMissing name)
  | PyErr c l => PyErr c l
  | Crash => Crash
  | OutOfFuel => OutOfFuel
  end.

(* Crossref.value (interpreter.py:122-132): own crossref field, resolved to the target's
   canonical key; missing if absent or dangling.  No inheritance. *)
Definition crossref_value (d : db) (cur : entry) : res bstval :=
  match ci_get (e_fields cur) s_crossref with
  | None => Ok (BMissing s_crossref)
  | Some v =>
    match ci_get d v with
    | None => Ok (BMissing s_crossref)
    | Some ce => Ok (BStr (e_key ce))
    end
  end.

(* ---- template.py:252-267 field(name, raw=True) ----------------------------------------
   context['bib_data'] = [bd]; KeyError -> FieldIsMissing (a PybtexError, class code 1). *)
Definition cls_FieldIsMissing : N := 1.
Definition cls_BibliographyDataError : N := 2.
Definition cls_PybtexError : N := 3.

Definition template_field (bd : option db) (e : entry) (name : str) : res str :=
  match entry_find_field bd e name with
  | Ok (Some v) => Ok v
  | Ok None => PyErr cls_FieldIsMissing (-1)
  | PyErr c l => PyErr c l
  | Crash => Crash
  | OutOfFuel => OutOfFuel
  end.

(* ---- BibliographyData._expand_wildcard_citations (database/__init__.py:273-309) -------- *)
Fixpoint expand_keys (keys : list str) (cset : list str) : list str * list str :=
  match keys with
  | [] => ([], cset)
  | k :: r => if ci_mem cset k then expand_keys r cset
              else let '(out, cs) := expand_keys r (cset ++ [k]) in (k :: out, cs)
  end.

Fixpoint expand_wildcard (d : db) (cits : list str) (cset : list str) : list str :=
  match cits with
  | [] => []
  | c :: r =>
    if str_eqb c s_star then
      let '(out, cs) := expand_keys (map fst d) cset in out ++ expand_wildcard d r cs
    else if ci_mem cset c then expand_wildcard d r cset
    else c :: expand_wildcard d r (cset ++ [c])
  end.

(* errors passed to report_error *)
Inductive report :=
| BadCrossref (citation crossref : str)   (* BibliographyDataError 'bad cross-reference: ...' *)
| MissingEntry (key : str).               (* PybtexError / BibTeXError 'missing database entry for ...' *)

(* CaseInsensitiveDefaultDict(int): d[k] += 1 and read *)
Fixpoint count_incr (cnt : list (str * Z)) (k : str) : list (str * Z) * Z :=
  match cnt with
  | [] => ([(k, 1%Z)], 1%Z)
  | (k', n) :: r =>
    if str_eqb (lower k') (lower k) then ((k', (n + 1)%Z) :: r, (n + 1)%Z)
    else let '(r', m) := count_incr r k in ((k', n) :: r', m)
  end.

(* ---- BibliographyData._get_crossreferenced_citations (database/__init__.py:212-271) ----
   errors.capture() mode: report_error appends and continues.
   returns (yielded keys, reports), both in order *)
Fixpoint crossreferenced (d : db) (minx : Z) (cits : list str)
         (cnt : list (str * Z)) (cset : list str) : list str * list report :=
  match cits with
  | [] => ([], [])
  | c :: r =>
    match ci_get d c with
    | None => crossreferenced d minx r cnt cset                   (* KeyError: continue *)
    | Some e =>
      match ci_get (e_fields e) s_crossref with
      | None => crossreferenced d minx r cnt cset                 (* KeyError: continue *)
      | Some cr =>
        match ci_get d cr with
        | None => let '(ys, es) := crossreferenced d minx r cnt cset in
                  (ys, BadCrossref c cr :: es)
        | Some ce =>
          let canonical := e_key ce in
          let '(cnt', n) := count_incr cnt canonical in
          if (minx <=? n)%Z && negb (ci_mem cset canonical) then
            let '(ys, es) := crossreferenced d minx r cnt' (cset ++ [canonical]) in
            (canonical :: ys, es)
          else crossreferenced d minx r cnt' cset
        end
      end
    end
  end.

(* ---- BibliographyData.add_extra_citations (database/__init__.py:311-314) -------------- *)
Definition add_extra_citations (d : db) (cits : list str) (minx : Z) : list str * list report :=
  let expanded := expand_wildcard d cits [] in
  let '(xs, es) := crossreferenced d minx expanded [] expanded in
  (expanded ++ xs, es).

(* ---- the BST engine ---------------------------------------------------------------------
   Interpreter.command_read (interpreter.py:288-296; the parser is outside: [d] is what
   parse_files returned), remove_missing_citations (a warning, not an error), and
   _iterate (interpreter.py:272-279) running, for each name of [fs], the function
       name missing$ { "?" } { "<" name * ">" * } if$ write$ newline$
   ("crossref" denotes the Crossref variable).  One observation per citation:
   (cite$, [value or None for missing]); the Python engine's observation carries entry.key. *)
Definition obs := (str * list (option str))%type.

Definition bst_var (d : db) (cur : entry) (name : str) : res (option str) :=
  do v <- (if str_eqb name s_crossref then crossref_value d cur else field_value d cur name);
  match v with BStr s => Ok (Some s) | BMissing _ => Ok None end.

Fixpoint mapM {X Y} (f : X -> res Y) (l : list X) : res (list Y) :=
  match l with
  | [] => Ok []
  | x :: r => do y <- f x; do ys <- mapM f r; Ok (y :: ys)
  end.

Definition bst_entry_obs (d : db) (fs : list str) (ce : str * entry) : res obs :=
  do vs <- mapM (bst_var d (snd ce)) fs; Ok (fst ce, vs).      (* cite$ = the citation as listed *)

(* remove_missing_citations (interpreter.py:298-303; print_warning = report_error(BibTeXError))
   + self.bib_data.entries[key] in _iterate *)
Fixpoint bst_entries (d : db) (cits : list str) : list (str * entry) * list report :=
  match cits with
  | [] => ([], [])
  | c :: r => let '(es, rs) := bst_entries d r in
              match ci_get d c with
              | Some e => ((c, e) :: es, rs)
              | None => (es, MissingEntry c :: rs)
              end
  end.

Definition bst_run (d : db) (cits : list str) (minx : Z) (fs : list str) : res (list report * list obs) :=
  let '(cs, errs) := add_extra_citations d cits minx in
  let '(es, miss) := bst_entries d cs in
  do os <- mapM (bst_entry_obs d fs) es;
  Ok (errs ++ miss, os).

(* ---- the Python engine ------------------------------------------------------------------
   BaseStyle.format_bibliography (formatting/__init__.py:74-96) -> format_entries(entries,
   bib_data=bib_data) (53-57; sorting style 'none', labels not observed) -> format_entry
   (59-72: context = {entry, style, bib_data}) -> template
       first_of [ optional [ join ['<', field(name, raw=True), '>'] ], 'MISSING' ]  per name. *)
(* optional[...] around field(): FieldIsMissing -> nothing *)
Definition py_var (bd : option db) (e : entry) (name : str) : res (option str) :=
  match template_field bd e name with
  | Ok v => Ok (Some v)
  | PyErr c l => if N.eqb c cls_FieldIsMissing then Ok None else PyErr c l
  | Crash => Crash
  | OutOfFuel => OutOfFuel
  end.

(* format_entry(label, entry, bib_data) *)
Definition format_entry (fs : list str) (e : entry) (bd : option db) : res obs :=
  do vs <- mapM (py_var bd e) fs; Ok (e_key e, vs).

(* format_entries(entries, bib_data) *)
Definition format_entries (fs : list str) (es : list entry) (bd : option db) : res (list obs) :=
  mapM (fun e => format_entry fs e bd) es.

(* the try/except loop of format_bibliography *)
Fixpoint py_entries (d : db) (cits : list str) : list entry * list report :=
  match cits with
  | [] => ([], [])
  | c :: r => let '(es, rs) := py_entries d r in
              match ci_get d c with
              | Some e => (e :: es, rs)
              | None => (es, MissingEntry c :: rs)
              end
  end.

Definition format_bibliography (d : db) (cits : list str) (minx : Z) (fs : list str) : res (list report * list obs) :=
  let '(cs, errs) := add_extra_citations d cits minx in
  let '(es, miss) := py_entries d cs in
  do os <- format_entries fs es (Some d);      (* bib_data=bib_data: the F5 fix *)
  Ok (errs ++ miss, os).

(* strict mode (errors.strict, no capture): the first report_error raises *)
Definition strictly {X} (r : res (list report * X)) : res X :=
  match r with
  | Ok ([], x) => Ok x
  | Ok (BadCrossref _ _ :: _, _) => PyErr cls_BibliographyDataError (-1)
  | Ok (MissingEntry _ :: _, _) => PyErr cls_PybtexError (-1)
  | PyErr c l => PyErr c l
  | Crash => Crash
  | OutOfFuel => OutOfFuel
  end.
