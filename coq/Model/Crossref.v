(* Model/Crossref.v -- cross-referenced fields (property C14).
   Mirrors, function by function (code as of the fix: commits c83cdd0 / 17ffa16):
     pybtex/database/__init__.py:500-534   Entry._find_person_field / _find_crossref_field / _find_field
     pybtex/database/__init__.py:212-314   BibliographyData._get_crossreferenced_citations /
                                           _expand_wildcard_citations / add_extra_citations
     pybtex/bibtex/interpreter.py:97-132   MissingField / Field.value / Crossref.value
     pybtex/bibtex/interpreter.py:268-300  Interpreter._iterate / command_read / remove_missing_citations
     pybtex/style/template.py:252-267      field()
     pybtex/style/formatting/__init__.py:53-96  BaseStyle.format_entries / format_entry / format_bibliography
   No proofs in this file. *)
From Pybtex Require Import Base.Prelude Base.PyChar Base.PyStr.

(* ---- data ---------------------------------------------------------------------------- *)

(* An Entry object.  [e_id] is the identity of the Python object (what `is` compares);
   [e_key] is its .key attribute (set by BibliographyData.add_entry);
   [e_fields] / [e_persons] are the items of the two OrderedCaseInsensitiveDicts
   (keys pairwise distinct modulo case, as the dict guarantees);
   a person is represented by its str(), which is all that _find_person_field uses. *)
Record entry := mkEntry {
  e_id : nat;
  e_key : str;
  e_fields : list (str * str);
  e_persons : list (str * list str)
}.

(* bib_data.entries: an OrderedCaseInsensitiveDict key -> Entry, in insertion order *)
Definition db := list (str * entry).

(* CaseInsensitiveDict.__getitem__ (pybtex/utils.py:159): self._dict[key.lower()].
   None = KeyError.  (First match: add_entry ignores a repeated key, the first stays.) *)
Fixpoint ci_get {V} (d : list (str * V)) (k : str) : option V :=
  match d with
  | [] => None
  | (k', v) :: r => if str_eqb (lower k') (lower k) then Some v else ci_get r k
  end.

(* CaseInsensitiveSet.__contains__ : key.lower() in the set of lowered keys *)
Definition ci_mem (s : list str) (k : str) : bool :=
  existsb (fun k' => str_eqb (lower k') (lower k)) s.

(* string constants as code points (s2l would drag Coq's string type into the extraction);
   Props/C14.v checks them against s2l literals *)
Definition s_crossref : str := [99; 114; 111; 115; 115; 114; 101; 102]%N.   (* "crossref" *)
Definition s_and : str := [32; 97; 110; 100; 32]%N.   (* " and " *)
Definition s_star : str := [42]%N.   (* "*" *)

(* ---- Entry._find_person_field (database/__init__.py:500-502) ---------------------------
   persons = self.persons[role]  (KeyError -> None);  ' and '.join(str(p) for p in persons) *)
Definition find_person_field (e : entry) (role : str) : option str :=
  match ci_get (e_persons e) role with
  | None => None
  | Some ps => Some (join s_and ps)
  end.

(* result of a lookup: [Ok (Some v)] the value, [Ok None] = KeyError raised (the documented
   "not found" signal of _find_field), [Crash] any other exception, [OutOfFuel] = the
   model's recursion budget ran out (ruled out by find_terminates). *)
Definition lookup := res (option str).

(* ---- Entry._find_crossref_field (database/__init__.py:504-511) -------------------------
   [bd] = bib_data (None = Python None); [visited] = identities in the _visited tuple;
   [rec] = the call referenced_entry._find_field(name, bib_data, _visited + (self,)). *)
Definition find_crossref_field (rec : entry -> list nat -> lookup)
           (e : entry) (bd : option db) (visited : list nat) : lookup :=
  match bd with
  | None => Ok None                                   (* bib_data is None -> KeyError(name) *)
  | Some d =>
    match ci_get (e_fields e) s_crossref with
    | None => Ok None                                 (* 'crossref' not in self.fields *)
    | Some cr =>
      if existsb (Nat.eqb (e_id e)) visited then Ok None   (* any(entry is self ...) *)
      else match ci_get d cr with
           | None => Ok None                          (* bib_data.entries[...] KeyError *)
           | Some e' => rec e' (visited ++ [e_id e])
           end
    end
  end.

(* ---- Entry._find_field (database/__init__.py:513-534) ----------------------------------
   Python recursion -> recursion on fuel, one unit per _find_field call. *)
Fixpoint find_field (fuel : nat) (bd : option db) (e : entry) (name : str) (visited : list nat) : lookup :=
  match fuel with
  | O => OutOfFuel
  | S f =>
    match ci_get (e_fields e) name with               (* self.fields[name] *)
    | Some v => Ok (Some v)
    | None =>
      match find_person_field e name with             (* self._find_person_field(name) *)
      | Some v => Ok (Some v)
      | None => find_crossref_field (fun e' vis => find_field f bd e' name vis) e bd visited
      end
    end
  end.

(* enough fuel for every graph (Proofs/Crossref.v: find_terminates) *)
Definition fuel_for (d : option db) : nat :=
  match d with None => 1 | Some d => length d + 2 end.

(* the public call entry._find_field(name, bib_data) *)
Definition entry_find_field (bd : option db) (e : entry) (name : str) : lookup :=
  find_field (fuel_for bd) bd e name [].

(* ---- interpreter.py:97-132 ------------------------------------------------------------ *)
(* what a BST field variable pushes: a string or MissingField(name) *)
Inductive bstval := BStr (s : str) | BMissing (name : str).

(* Field.value (interpreter.py:112-119): _find_field(self.name, bib_data); KeyError -> MissingField *)
Definition field_value (d : db) (cur : entry) (name : str) : res bstval :=
  match entry_find_field (Some d) cur name with
  | Ok (Some v) => Ok (BStr v)
  | Ok None => Ok (BMissing name)
  | PyErr c l => PyErr c l
  | Crash => Crash
  | OutOfFuel => OutOfFuel
  end.

(* Crossref.value (interpreter.py:122-132): own crossref field, resolved to the target's
   canonical key; missing if absent or dangling.  No inheritance. *)
Definition crossref_value (d : db) (cur : entry) : res bstval :=
  match ci_get (e_fields cur) s_crossref with
  | None => Ok (BMissing s_crossref)
  | Some v =>
    match ci_get d v with
    | None => Ok (BMissing s_crossref)
    | Some ce => Ok (BStr (e_key ce))
    end
  end.

(* ---- template.py:252-267 field(name, raw=True) ----------------------------------------
   context['bib_data'] = [bd]; KeyError -> FieldIsMissing (a PybtexError, class code 1). *)
Definition cls_FieldIsMissing : N := 1.
Definition cls_BibliographyDataError : N := 2.
Definition cls_PybtexError : N := 3.

Definition template_field (bd : option db) (e : entry) (name : str) : res str :=
  match entry_find_field bd e name with
  | Ok (Some v) => Ok v
  | Ok None => PyErr cls_FieldIsMissing (-1)
  | PyErr c l => PyErr c l
  | Crash => Crash
  | OutOfFuel => OutOfFuel
  end.

(* ---- BibliographyData._expand_wildcard_citations (database/__init__.py:273-309) -------- *)
Fixpoint expand_keys (keys : list str) (cset : list str) : list str * list str :=
  match keys with
  | [] => ([], cset)
  | k :: r => if ci_mem cset k then expand_keys r cset
              else let '(out, cs) := expand_keys r (cset ++ [k]) in (k :: out, cs)
  end.

Fixpoint expand_wildcard (d : db) (cits : list str) (cset : list str) : list str :=
  match cits with
  | [] => []
  | c :: r =>
    if str_eqb c s_star then
      let '(out, cs) := expand_keys (map fst d) cset in out ++ expand_wildcard d r cs
    else if ci_mem cset c then expand_wildcard d r cset
    else c :: expand_wildcard d r (cset ++ [c])
  end.

(* errors passed to report_error *)
Inductive report :=
| BadCrossref (citation crossref : str)   (* BibliographyDataError 'bad cross-reference: ...' *)
| MissingEntry (key : str).               (* PybtexError / BibTeXError 'missing database entry for ...' *)

(* CaseInsensitiveDefaultDict(int): d[k] += 1 and read *)
Fixpoint count_incr (cnt : list (str * Z)) (k : str) : list (str * Z) * Z :=
  match cnt with
  | [] => ([(k, 1%Z)], 1%Z)
  | (k', n) :: r =>
    if str_eqb (lower k') (lower k) then ((k', (n + 1)%Z) :: r, (n + 1)%Z)
    else let '(r', m) := count_incr r k in ((k', n) :: r', m)
  end.

(* ---- BibliographyData._get_crossreferenced_citations (database/__init__.py:212-271) ----
   errors.capture() mode: report_error appends and continues.
   returns (yielded keys, reports), both in order *)
Fixpoint crossreferenced (d : db) (minx : Z) (cits : list str)
         (cnt : list (str * Z)) (cset : list str) : list str * list report :=
  match cits with
  | [] => ([], [])
  | c :: r =>
    match ci_get d c with
    | None => crossreferenced d minx r cnt cset                   (* KeyError: continue *)
    | Some e =>
      match ci_get (e_fields e) s_crossref with
      | None => crossreferenced d minx r cnt cset                 (* KeyError: continue *)
      | Some cr =>
        match ci_get d cr with
        | None => let '(ys, es) := crossreferenced d minx r cnt cset in
                  (ys, BadCrossref c cr :: es)
        | Some ce =>
          let canonical := e_key ce in
          let '(cnt', n) := count_incr cnt canonical in
          if (minx <=? n)%Z && negb (ci_mem cset canonical) then
            let '(ys, es) := crossreferenced d minx r cnt' (cset ++ [canonical]) in
            (canonical :: ys, es)
          else crossreferenced d minx r cnt' cset
        end
      end
    end
  end.

(* ---- BibliographyData.add_extra_citations (database/__init__.py:311-314) -------------- *)
Definition add_extra_citations (d : db) (cits : list str) (minx : Z) : list str * list report :=
  let expanded := expand_wildcard d cits [] in
  let '(xs, es) := crossreferenced d minx expanded [] expanded in
  (expanded ++ xs, es).

(* ---- the BST engine ---------------------------------------------------------------------
   Interpreter.command_read (interpreter.py:288-296; the parser is outside: [d] is what
   parse_files returned), remove_missing_citations (a warning, not an error), and
   _iterate (interpreter.py:272-279) running, for each name of [fs], the function
       name missing$ { "?" } { "<" name * ">" * } if$ write$ newline$
   ("crossref" denotes the Crossref variable).  One observation per citation:
   (cite$, [value or None for missing]); the Python engine's observation carries entry.key. *)
Definition obs := (str * list (option str))%type.

Definition bst_var (d : db) (cur : entry) (name : str) : res (option str) :=
  do v <- (if str_eqb name s_crossref then crossref_value d cur else field_value d cur name);
  match v with BStr s => Ok (Some s) | BMissing _ => Ok None end.

Fixpoint mapM {X Y} (f : X -> res Y) (l : list X) : res (list Y) :=
  match l with
  | [] => Ok []
  | x :: r => do y <- f x; do ys <- mapM f r; Ok (y :: ys)
  end.

Definition bst_entry_obs (d : db) (fs : list str) (ce : str * entry) : res obs :=
  do vs <- mapM (bst_var d (snd ce)) fs; Ok (fst ce, vs).      (* cite$ = the citation as listed *)

(* remove_missing_citations (interpreter.py:298-303; print_warning = report_error(BibTeXError))
   + self.bib_data.entries[key] in _iterate *)
Fixpoint bst_entries (d : db) (cits : list str) : list (str * entry) * list report :=
  match cits with
  | [] => ([], [])
  | c :: r => let '(es, rs) := bst_entries d r in
              match ci_get d c with
              | Some e => ((c, e) :: es, rs)
              | None => (es, MissingEntry c :: rs)
              end
  end.

Definition bst_run (d : db) (cits : list str) (minx : Z) (fs : list str) : res (list report * list obs) :=
  let '(cs, errs) := add_extra_citations d cits minx in
  let '(es, miss) := bst_entries d cs in
  do os <- mapM (bst_entry_obs d fs) es;
  Ok (errs ++ miss, os).

(* ---- the Python engine ------------------------------------------------------------------
   BaseStyle.format_bibliography (formatting/__init__.py:74-96) -> format_entries(entries,
   bib_data=bib_data) (53-57; sorting style 'none', labels not observed) -> format_entry
   (59-72: context = {entry, style, bib_data}) -> template
       first_of [ optional [ join ['<', field(name, raw=True), '>'] ], 'MISSING' ]  per name. *)
(* optional[...] around field(): FieldIsMissing -> nothing *)
Definition py_var (bd : option db) (e : entry) (name : str) : res (option str) :=
  match template_field bd e name with
  | Ok v => Ok (Some v)
  | PyErr c l => if N.eqb c cls_FieldIsMissing then Ok None else PyErr c l
  | Crash => Crash
  | OutOfFuel => OutOfFuel
  end.

(* format_entry(label, entry, bib_data) *)
Definition format_entry (fs : list str) (e : entry) (bd : option db) : res obs :=
  do vs <- mapM (py_var bd e) fs; Ok (e_key e, vs).

(* format_entries(entries, bib_data) *)
Definition format_entries (fs : list str) (es : list entry) (bd : option db) : res (list obs) :=
  mapM (fun e => format_entry fs e bd) es.

(* the try/except loop of format_bibliography *)
Fixpoint py_entries (d : db) (cits : list str) : list entry * list report :=
  match cits with
  | [] => ([], [])
  | c :: r => let '(es, rs) := py_entries d r in
              match ci_get d c with
              | Some e => (e :: es, rs)
              | None => (es, MissingEntry c :: rs)
              end
  end.

Definition format_bibliography (d : db) (cits : list str) (minx : Z) (fs : list str) : res (list report * list obs) :=
  let '(cs, errs) := add_extra_citations d cits minx in
  let '(es, miss) := py_entries d cs in
  do os <- format_entries fs es (Some d);      (* bib_data=bib_data: the F5 fix *)
  Ok (errs ++ miss, os).

(* strict mode (errors.strict, no capture): the first report_error raises *)
Definition strictly {X} (r : res (list report * X)) : res X :=
  match r with
  | Ok ([], x) => Ok x
  | Ok (BadCrossref _ _ :: _, _) => PyErr cls_BibliographyDataError (-1)
  | Ok (MissingEntry _ :: _, _) => PyErr cls_PybtexError (-1)
  | PyErr c l => PyErr c l
  | Crash => Crash
  | OutOfFuel => OutOfFuel
  end.

(* ======================================================================================
   Reading a file FILTERED by a citation list -- what both engines do:
   parser(wanted_entries=citations).parse_files(...)  (pybtex/__init__.py:150-155,
   bibtex/interpreter.py:288-295), i.e. BibliographyData(wanted_entries=citations) and one
   add_entry per entry of the file, in file order.
   ====================================================================================== *)

(* BibliographyData.want_entry (database/__init__.py:179-184); [w] = self.wanted_entries *)
Definition want_entry (w : option (list str)) (k : str) : bool :=
  match w with
  | None => true
  | Some ws => ci_mem ws k || ci_mem ws s_star
  end.

(* get_canonical_key (186-190): the spelling held by self.citations = CaseInsensitiveSet(wanted_entries)
   (a later spelling of the same key overwrites an earlier one), else the key itself *)
Definition canonical_key (cits : list str) (k : str) : str :=
  match find (fun c => str_eqb (lower c) (lower k)) (rev cits) with
  | Some c => c
  | None => k
  end.

(* entry.key = ... *)
Definition rekey (k : str) (e : entry) : entry := mkEntry (e_id e) k (e_fields e) (e_persons e).

(* state of the reader: self.entries, self.wanted_entries, keys reported as repeated *)
Definition rstate := (db * option (list str) * list str)%type.

(* BibliographyData.add_entry (192-206).  The parser's want_current_entry asks the same
   want_entry just before, so skipped and refused entries coincide. *)
Definition add_entry (cits : list str) (st : rstate) (ke : str * entry) : rstate :=
  let '(d, w, rep) := st in
  let '(k, e) := ke in
  if negb (want_entry w k) then st
  else match ci_get d k with
       | Some _ => (d, w, rep ++ [k])                    (* repeated bibliography entry: reported, skipped *)
       | None =>
         let k' := canonical_key cits k in
         let w' := match ci_get (e_fields e) s_crossref, w with
                   | Some c, Some ws => Some (ws ++ [c])  (* self.wanted_entries.add(crossref) *)
                   | _, _ => w
                   end in
         (d ++ [(k', rekey k' e)], w', rep)
       end.

Definition read_state (wanted : option (list str)) (file : list (str * entry)) : rstate :=
  fold_left (add_entry (match wanted with Some c => c | None => [] end)) file ([], wanted, []).

(* the database a filtered read produces *)
Definition read_filtered (wanted : option (list str)) (file : list (str * entry)) : db :=
  fst (fst (read_state wanted file)).

(* the two engines from a file: read filtered by the citations, then run *)
Definition bst_run_file (file : db) (cits : list str) (minx : Z) (fs : list str) :=
  bst_run (read_filtered (Some cits) file) cits minx fs.
Definition format_bibliography_file (file : db) (cits : list str) (minx : Z) (fs : list str) :=
  format_bibliography (read_filtered (Some cits) file) cits minx fs.

(* ======================================================================================
   template names(role) (style/template.py:270-283): what the stock Python styles use for
   authors and editors.  persons = context['entry'].persons[role]; KeyError -> FieldIsMissing.
   No bib_data, no cross-reference: an inherited role is NOT seen (finding FC14a).
   The formatted names are represented by the persons' str(), joined like a field.
   ====================================================================================== *)
Definition template_names (e : entry) (role : str) : res (list str) :=
  match ci_get (e_persons e) role with
  | Some ps => Ok ps
  | None => PyErr cls_FieldIsMissing (-1)
  end.

(* optional[names(role)] *)
Definition names_var (e : entry) (role : str) : res (option str) :=
  match template_names e role with
  | Ok ps => Ok (Some (join s_and ps))
  | PyErr c l => if N.eqb c cls_FieldIsMissing then Ok None else PyErr c l
  | Crash => Crash
  | OutOfFuel => OutOfFuel
  end.

(* format_bibliography with a template that prints the roles through names() *)
Definition format_bibliography_names (d : db) (cits : list str) (minx : Z) (roles : list str) : res (list report * list obs) :=
  let '(cs, errs) := add_extra_citations d cits minx in
  let '(es, miss) := py_entries d cs in
  do os <- mapM (fun e => do vs <- mapM (names_var e) roles; Ok (e_key e, vs)) es;
  Ok (errs ++ miss, os).

(* ======================================================================================
   Histories on LIVE objects: look-ups interleaved with edits of the same Entry /
   BibliographyData objects.  The code keeps no state besides the dictionaries themselves
   (no cache), so an edit is an edit of the graph and a look-up is a function of the graph
   as it is at that moment.
   ====================================================================================== *)

(* CaseInsensitiveDict.__setitem__ (utils.py:153-157): existing key: value and spelling replaced
   in place; new key: appended *)
Fixpoint ci_set {V} (d : list (str * V)) (k : str) (v : V) : list (str * V) :=
  match d with
  | [] => [(k, v)]
  | (k', v') :: r => if str_eqb (lower k') (lower k) then (k, v) :: r else (k', v') :: ci_set r k v
  end.

(* CaseInsensitiveDict.__delitem__ (162-165); the harness only deletes a key that is there *)
Fixpoint ci_del {V} (d : list (str * V)) (k : str) : list (str * V) :=
  match d with
  | [] => []
  | (k', v') :: r => if str_eqb (lower k') (lower k) then r else (k', v') :: ci_del r k
  end.

Inductive hop :=
| HLookup (key field : str)                     (* bd.entries[key]._find_field(field, bd) / Field.value / field() *)
| HSetField (key field value : str)             (* bd.entries[key].fields[field] = value   (field may be crossref) *)
| HDelField (key field : str)                   (* del bd.entries[key].fields[field] *)
| HReplace (key : str) (newid : nat) (title : str)   (* bd.entries[key] = Entry('misc', {'title': title}): a new object *)
| HNewDb.                                       (* bd = BibliographyData(list(bd.entries.items())): same objects *)

(* an edit of an Entry object is seen under every key that holds this object *)
Definition update_object (d : db) (id : nat) (f : entry -> entry) : db :=
  map (fun ke : str * entry => if Nat.eqb (e_id (snd ke)) id then (fst ke, f (snd ke)) else ke) d.

Definition s_title : str := [116; 105; 116; 108; 101]%N.   (* "title" *)

(* the graph after one operation; an operation on a key that is not in the database is skipped
   (so is deleting a field that is not there) *)
Definition apply_hop (d : db) (op : hop) : db :=
  match op with
  | HLookup _ _ => d
  | HSetField k f v =>
    match ci_get d k with
    | Some e => update_object d (e_id e) (fun x => mkEntry (e_id x) (e_key x) (ci_set (e_fields x) f v) (e_persons x))
    | None => d
    end
  | HDelField k f =>
    match ci_get d k with
    | Some e => match ci_get (e_fields e) f with
                | Some _ => update_object d (e_id e) (fun x => mkEntry (e_id x) (e_key x) (ci_del (e_fields x) f) (e_persons x))
                | None => d
                end
    | None => d
    end
  | HReplace k newid t =>
    match ci_get d k with
    | Some _ => ci_set d k (mkEntry newid [] [(s_title, t)] [])
    | None => d
    end
  | HNewDb => d      (* add_entry re-assigns entry.key = key: same keys, same objects, same order *)
  end.

(* the answer to a look-up in the graph as it is now (None for a key that is not there) *)
Definition lookup_now (d : db) (k f : str) : option lookup :=
  match ci_get d k with
  | Some e => Some (entry_find_field (Some d) e f)
  | None => None
  end.

(* the look-up results of a history, in order *)
Fixpoint run_history (d : db) (ops : list hop) : list (option lookup) :=
  match ops with
  | [] => []
  | HLookup k f :: r => lookup_now d k f :: run_history d r
  | op :: r => run_history (apply_hop d op) r
  end.

Fixpoint graph_after (d : db) (ops : list hop) : db :=
  match ops with
  | [] => d
  | op :: r => graph_after (apply_hop d op) r
  end.

(* ======================================================================================
   Several sources: BaseParser.parse_files (database/input/__init__.py:58-61) runs ONE parser --
   one BibliographyData, one growing wanted set -- over the sources in order; both engines call
   it once with all their sources (pybtex/__init__.py:150-155, interpreter.py:288-295).
   ====================================================================================== *)
Definition read_sources_state (wanted : option (list str)) (sources : list (list (str * entry))) : rstate :=
  fold_left (fun st src => fold_left (add_entry (match wanted with Some c => c | None => [] end)) src st)
            sources ([], wanted, []).

Definition read_sources (wanted : option (list str)) (sources : list (list (str * entry))) : db :=
  fst (fst (read_sources_state wanted sources)).

Definition bst_run_sources (sources : list db) (cits : list str) (minx : Z) (fs : list str) :=
  bst_run (read_sources (Some cits) sources) cits minx fs.
Definition format_bibliography_sources (sources : list db) (cits : list str) (minx : Z) (fs : list str) :=
  format_bibliography (read_sources (Some cits) sources) cits minx fs.
