(* Model/NamesFixed.v -- PREPARED, NOT YET USED by Props/Extr: is_von_name as it will be after the planned
   repair of finding FC04a in pybtex/database/__init__.py (Person._parse_string.is_von_name):

       prev = None
       for char, brace_level in scan_bibtex_string(string):
           if brace_level == 0 and char.isalpha():
               return char.islower()
           elif brace_level == 1 and char.startswith('\\') and prev == ('{', 1):
               return special_char_islower(char)
           prev = (char, brace_level)
       return False

   i.e. the special-character branch is taken only when the backslash token directly follows the level-1
   opening brace.  Switch-over after the fix: see notes/C04.md "Switching to the repaired is_von_name". *)
From Pybtex Require Import Base.Prelude Base.PyChar Base.PyStr Model.BibtexStr Model.Names.

(* prev == ('{', 1) *)
Definition is_open1 (t : tok) : bool :=
  Nat.eqb (snd t) 1 && match fst t with [c] => N.eqb c c_lbrace | _ => false end.

(* [po]: the previous token was ('{', 1) *)
Fixpoint von_scan_fixed (ts : list tok) (po : bool) : bool :=
  match ts with
  | [] => false
  | (t, l) :: rest =>
    match l, t with
    | O, [c] => if is_alpha c then is_lower c else von_scan_fixed rest (is_open1 (t, l))
    | 1, b :: _ => if N.eqb b c_bslash && po then special_char_islower t else von_scan_fixed rest (is_open1 (t, l))
    | _, _ => von_scan_fixed rest (is_open1 (t, l))
    end
  end.

Definition is_von_name_fixed (s : str) : res bool :=
  match s with
  | [] => Crash
  | c :: _ =>
    if is_upper c then Ok false
    else if is_lower c then Ok true
    else do ts <- scan s; Ok (von_scan_fixed ts false)
  end.
