(* Model/Names.v -- pybtex/database/__init__.py:617-789  Person.__init__ / _parse_string
   (process_first_middle, process_von_last, find_pos, split_at, rsplit_at, is_von_name,
   special_char_islower) and __str__ / get_part_as_text.  Mirrors /repo HEAD (after the
   fix: commits).  Letter classes (str.isalpha/isupper/islower) are the table-driven ones of
   Model/NamesUni.v (ASCII through Base/PyChar.v).  No proofs here. *)
From Pybtex Require Import Base.Prelude Base.PyChar Base.PyStr Model.BibtexStr.
From Pybtex Require Export Model.NamesUni.

Record person := mkPerson {
  p_first : list str; p_middle : list str; p_prelast : list str; p_last : list str; p_lineage : list str }.
Definition empty_person := mkPerson [] [] [] [] [].

(* special_char_islower: skip the backslash, skip the control sequence letters, skip the one
   non-letter that ends it, then the first letter decides *)
Fixpoint scil_go (s : str) (control_sequence : bool) : bool :=
  match s with
  | [] => false
  | c :: t =>
    if control_sequence then
      (if uni_is_alpha c then scil_go t true else scil_go t false)
    else
      (if uni_is_alpha c then uni_is_lower c else scil_go t false)
  end.
Definition special_char_islower (sc : str) : bool := scil_go (skipn 1 sc) true.

(* prev == ('{', 1) *)
Definition is_open1 (t : tok) : bool :=
  Nat.eqb (snd t) 1 && match fst t with [c] => N.eqb c c_lbrace | _ => false end.

(* the loop of is_von_name over scan_bibtex_string(string) (after the fix 82be377): [po] says that the
   previous token was ('{', 1); only then a level-1 token starting with a backslash is a special character *)
Fixpoint von_scan (ts : list tok) (po : bool) : bool :=
  match ts with
  | [] => false
  | (t, l) :: rest =>
    match l, t with
    | O, [c] => if uni_is_alpha c then uni_is_lower c else von_scan rest (is_open1 (t, l))
    | 1, b :: _ => if N.eqb b c_bslash && po then special_char_islower t else von_scan rest (is_open1 (t, l))
    | _, _ => von_scan rest (is_open1 (t, l))
    end
  end.

(* is_von_name: string[0] on an empty string would be an IndexError *)
Definition is_von_name (s : str) : res bool :=
  match s with
  | [] => Crash
  | c :: _ =>
    if uni_is_upper c then Ok false
    else if uni_is_lower c then Ok true
    else do ts <- scan s; Ok (von_scan ts false)
  end.

(* find_pos(lst, pred): index of the first item satisfying pred, else len(lst) *)
Fixpoint find_pos (l : list str) : res nat :=
  match l with
  | [] => Ok 0
  | x :: r => do b <- is_von_name x; if b then Ok 0 else do n <- find_pos r; Ok (S n)
  end.

Definition split_at (l : list str) : res (list str * list str) :=
  do p <- find_pos l; Ok (firstn p l, skipn p l).
Definition rsplit_at (l : list str) : res (list str * list str) :=
  do rp <- find_pos (rev l); let p := length l - rp in Ok (firstn p l, skipn p l).

Definition process_first_middle (p : person) (parts : list str) : person :=
  match parts with
  | [] => p
  | x :: r => mkPerson (p_first p ++ [x]) (p_middle p ++ r) (p_prelast p) (p_last p) (p_lineage p)
  end.

Definition process_von_last (p : person) (parts : list str) : res person :=
  let von_last := removelast parts in
  let definitely_not_von := match parts with [] => [] | _ => [last parts []] end in
  do vl <- match von_last with
           | [] => Ok ([], [])
           | _ => rsplit_at von_last
           end;
  Ok (mkPerson (p_first p) (p_middle p) (p_prelast p ++ fst vl) (p_last p ++ snd vl ++ definitely_not_von) (p_lineage p)).

(* _parse_string(name): returns the person and whether InvalidNameString was reported
   (more than two commas).  [name] is already stripped and non-empty. *)
Definition parse_string (p : person) (name : str) : res (person * bool) :=
  do parts0 <- split_tex_comma name;
  let too_many := Nat.ltb 3 (length parts0) in
  let parts := if too_many then firstn 2 parts0 ++ [join [c_space] (skipn 2 parts0)] else parts0 in
  match parts with
  | [a; b; c] =>
    do ta <- split_tex_space a; do tb <- split_tex_space b; do tc <- split_tex_space c;
    do p1 <- process_von_last p ta;
    let p2 := mkPerson (p_first p1) (p_middle p1) (p_prelast p1) (p_last p1) (p_lineage p1 ++ tb) in
    Ok (process_first_middle p2 tc, too_many)
  | [a; b] =>
    do ta <- split_tex_space a; do tb <- split_tex_space b;
    do p1 <- process_von_last p ta;
    Ok (process_first_middle p1 tb, too_many)
  | [_] =>
    do ts <- split_tex_space name;
    do fv <- split_at ts;
    let '(fm, vl) := fv in
    let '(fm', vl') := match vl, fm with
                       | [], _ :: _ => (removelast fm, [last fm []])
                       | _, _ => (fm, vl)
                       end in
    do p1 <- process_von_last (process_first_middle p fm') vl';
    Ok (p1, too_many)
  | _ => Crash   (* raise ValueError(name): "should not really happen" *)
  end.

(* Person.__init__(string, first, middle, prelast, last, lineage) *)
Definition person_init (s first middle prelast last_ lineage : str) : res (person * bool) :=
  let s' := strip s in
  do pr <- match s' with [] => Ok (empty_person, false) | _ => parse_string empty_person s' end;
  let '(p, rep) := pr in
  do f <- split_tex_space first; do m <- split_tex_space middle; do v <- split_tex_space prelast;
  do l <- split_tex_space last_; do j <- split_tex_space lineage;
  Ok (mkPerson (p_first p ++ f) (p_middle p ++ m) (p_prelast p ++ v) (p_last p ++ l) (p_lineage p ++ j), rep).

Definition person_of_string (s : str) : res (person * bool) := person_init s [] [] [] [] [].

(* Person.__str__: "von Last, Jr, First" *)
Definition person_str (p : person) : str :=
  let von_last := join [c_space] (p_prelast p ++ p_last p) in
  let jr := join [c_space] (p_lineage p) in
  let first := join [c_space] (p_first p ++ p_middle p) in
  join [c_comma; c_space] (filter (fun x => negb (match x with [] => true | _ => false end)) [von_last; jr; first]).

Definition bibtex_first_names (p : person) : list str := p_first p ++ p_middle p.
