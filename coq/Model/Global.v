(* Model/Global.v -- the process-wide state of pybtex that property C18 names, and the API calls
   that read or write it, as a state machine  step : G -> op -> G * outcome.

   Mirrors (function by function, /repo HEAD):
     pybtex/utils.py:52-64                 memoize(f, capacity)            -> memo_call
     pybtex/utils.py:80-175                CaseInsensitiveDict             -> dcell (c_ci = true)
     pybtex/errors.py:28-82                strict/error_code/captured_errors, set_strict_mode,
                                           capture(), report_error         -> errs, report_error, with_capture
     pybtex/bibtex/builtins.py:176-198     _split_names, _format_name, format.name$
     pybtex/bibtex/interpreter.py:179-190  Interpreter.__init__ (per-run cells only; nothing global)
     pybtex/database/input/bibtex.py:85-98 month_names (a plain module-level dict)
     pybtex/database/input/bibtex.py:142-157,184-300  LowLevelParser (on already tokenised commands)
     pybtex/database/input/bibtex.py:338-405          Parser.__init__ / process_entry / process_preamble /
                                                      handle_error / parse_string
     pybtex/database/input/__init__.py:39-61          BaseParser.__init__ / parse_files
     pybtex/database/__init__.py:185-205              BibliographyData.add_entry / add_to_preamble
   The lexical level of the .bib syntax (C01/C10) is not modelled here: a file is a list of
   commands; the harness renders the same commands to text for the implementation.
   No proofs in this file. *)
From Pybtex Require Import Base.Prelude Base.PyChar Base.PyStr Model.BibtexStr Model.Names.

(* ------------------------------------------------------------------------------------- *)
(* errors.py *)

(* a reported problem: class code and the string it is about *)
Definition err := (N * str)%type.
Definition E_BIBTEXERR : N := 10.   (* BibTeXError: 'there is no name #n in ...' and name-format errors *)
Definition E_SYNTAX : N := 20.      (* PybtexSyntaxError (a malformed command) *)
Definition E_UNDEF : N := 21.       (* UndefinedMacro *)
Definition E_DUPFIELD : N := 22.    (* DuplicateField *)
Definition E_REPEATED : N := 23.    (* BibliographyDataError('repeated bibliography entry') *)
Definition E_NAME : N := 24.        (* InvalidNameString ('Too many commas in ...') *)

(* errors.py:28-30 the three module globals; e_stderr is the text printed by print_error (an output
   stream: nothing ever reads it back) *)
Record errs := mkErrs { e_strict : bool; e_code : Z; e_captured : option (list err); e_stderr : list err }.
Definition errs0 := mkErrs true 0%Z None [].

(* errors.py:33-35 set_strict_mode *)
Definition set_strict (b : bool) (e : errs) : errs := mkErrs b (e_code e) (e_captured e) (e_stderr e).

(* errors.py:69-80 report_error *)
Definition report_error (x : err) (e : errs) : errs * res unit :=
  match e_captured e with
  | Some l => (mkErrs (e_strict e) (e_code e) (Some (l ++ [x])) (e_stderr e), Ok tt)
  | None =>
    if e_strict e then (e, PyErr (fst x) (-1)%Z)
    else (mkErrs (e_strict e) 2%Z None (e_stderr e ++ [x]), Ok tt)
  end.

Fixpoint report_all (xs : list err) (e : errs) : errs * res unit :=
  match xs with
  | [] => (e, Ok tt)
  | x :: r => let '(e1, u) := report_error x e in
              match u with Ok _ => report_all r e1 | PyErr c l => (e1, PyErr c l) | Crash => (e1, Crash) | OutOfFuel => (e1, OutOfFuel) end
  end.

(* errors.py:38-47 capture(): __enter__ sets captured_errors = [], the finally clause sets it to None *)
Definition capture_enter (e : errs) : errs := mkErrs (e_strict e) (e_code e) (Some []) (e_stderr e).
Definition capture_exit (e : errs) : errs := mkErrs (e_strict e) (e_code e) None (e_stderr e).

(* ------------------------------------------------------------------------------------- *)
(* utils.py:52-64 memoize *)
Section Memoize.
  Context {K V S : Type}.
  Variable keqb : K -> K -> bool.

  (* memory: a dict (insertion ordered); history: a deque *)
  Record memo := mkMemo { memory : list (K * V); history : list K }.
  Definition memo0 := mkMemo [] [].

  Fixpoint m_lookup (k : K) (m : list (K * V)) : option V :=
    match m with
    | [] => None
    | (k', v) :: r => if keqb k k' then Some v else m_lookup k r
    end.

  (* del memory[k]: None = KeyError *)
  Fixpoint m_del (k : K) (m : list (K * V)) : option (list (K * V)) :=
    match m with
    | [] => None
    | (k', v) :: r => if keqb k k' then Some r
                      else match m_del k r with Some r' => Some ((k', v) :: r') | None => None end
    end.

  (* lines 58-59: if len(history) >= capacity: del memory[history.popleft()] *)
  Definition evict (cap : nat) (m : memo) : memo * res unit :=
    if Nat.leb cap (length (history m)) then
      match history m with
      | [] => (m, Crash)                                     (* popleft() of an empty deque: IndexError *)
      | h :: hs =>
        match m_del h (memory m) with
        | Some mem' => (mkMemo mem' hs, Ok tt)
        | None => (mkMemo (memory m) hs, Crash)              (* KeyError *)
        end
      end
    else (m, Ok tt).

  (* new_f(args).  [f] may read and write the rest of the process state S (it reports errors, it
     calls another memoised function) and may raise; a raised call stores nothing, but the
     eviction before it has already happened. *)
  Definition memo_call (cap : nat) (f : K -> S -> S * res V) (k : K) (ms : memo * S) : (memo * S) * res V :=
    let '(m, s) := ms in
    match m_lookup k (memory m) with
    | Some v => (ms, Ok v)
    | None =>
      let '(m1, ev) := evict cap m in
      match ev with
      | Ok _ =>
        let '(s', r) := f k s in
        match r with
        | Ok v => ((mkMemo (memory m1 ++ [(k, v)]) (history m1 ++ [k]), s'), Ok v)
        | PyErr c l => ((m1, s'), PyErr c l)
        | Crash => ((m1, s'), Crash)
        | OutOfFuel => ((m1, s'), OutOfFuel)
        end
      | PyErr c l => ((m1, s), PyErr c l)
      | Crash => ((m1, s), Crash)
      | OutOfFuel => ((m1, s), OutOfFuel)
      end
    end.

  (* a run of calls, results in order (used by the correspondence runner and the theorems) *)
  Fixpoint memo_run (cap : nat) (f : K -> S -> S * res V) (ks : list K) (ms : memo * S) : (memo * S) * list (res V) :=
    match ks with
    | [] => (ms, [])
    | k :: r => let '(ms1, v) := memo_call cap f k ms in
                let '(ms2, vs) := memo_run cap f r ms1 in (ms2, v :: vs)
    end.
End Memoize.
Arguments memo : clear implicits.
Arguments memo0 {K V}.

(* ------------------------------------------------------------------------------------- *)
(* bibtex/builtins.py:176-192 *)

Definition nkey := (str * Z * str)%type.      (* (names, n, format) *)
Definition nkey_eqb (a b : nkey) : bool :=
  let '(a1, a2, a3) := a in let '(b1, b2, b3) := b in str_eqb a1 b1 && Z.eqb a2 b2 && str_eqb a3 b3.

(* the un-memoised part of name formatting, format_bibtex_name(name, format)
   = NameFormat(format).format(name)  (bibtex/names.py:222-229): a function of its two arguments
   that reports some problems through report_error (Person(name): 'Too many commas') and then
   returns a string or raises.  It is C11's subject; here it is a parameter. *)
Definition fmt_fun := str -> str -> list err * res str.

Definition lift_res {A B} (st : A) (r : res B) {C} (k : B -> A * res C) : A * res C :=
  match r with Ok v => k v | PyErr c l => (st, PyErr c l) | Crash => (st, Crash) | OutOfFuel => (st, OutOfFuel) end.

(* _split_names(names): utils.split_name_list; touches no state *)
Definition split_names_f (names : str) (e : errs) : errs * res (list str) := (e, split_name_list names).

(* the body of _format_name(names, n, format), lines 182-187 *)
Definition format_name_f (cap : nat) (fmt : fmt_fun) (k : nkey) (s : memo str (list str) * errs)
  : (memo str (list str) * errs) * res str :=
  let '(names, n, format) := k in
  let '(s1, r) := memo_call str_eqb cap split_names_f names s in
  lift_res s1 r (fun split =>
    if (Z.leb 1 n && Z.leb n (Z.of_nat (length split)))%bool then
      let name := nth (Z.to_nat (n - 1)) split [] in
      let '(reps, v) := fmt name format in
      let '(e1, u) := report_all reps (snd s1) in
      lift_res (fst s1, e1) u (fun _ => ((fst s1, e1), v))
    else (s1, PyErr E_BIBTEXERR (-1)%Z)).

(* ------------------------------------------------------------------------------------- *)
(* dicts: month_names is a plain dict, Parser.macros a CaseInsensitiveDict *)
Record dcell := mkCell { c_ci : bool; c_items : list (str * str) }.

Definition ckey (ci : bool) (k : str) : str := if ci then lower k else k.

Fixpoint a_get (k : str) (l : list (str * str)) : option str :=
  match l with
  | [] => None
  | (k', v) :: r => if str_eqb k k' then Some v else a_get k r
  end.
(* d[k] = v: an existing key keeps its position *)
Fixpoint a_set (k v : str) (l : list (str * str)) : list (str * str) :=
  match l with
  | [] => [(k, v)]
  | (k', v') :: r => if str_eqb k k' then (k', v) :: r else (k', v') :: a_set k v r
  end.
Definition cell_get (c : dcell) (k : str) : option str := a_get (ckey (c_ci c) k) (c_items c).
Definition cell_set (c : dcell) (k v : str) : dcell := mkCell (c_ci c) (a_set (ckey (c_ci c) k) v (c_items c)).

(* CaseInsensitiveDict(mapping)  (utils.py __init__: self.update(...), i.e. MutableMapping.update):
   a new object; the pairs are inserted one after the other through __setitem__ *)
Definition ci_copy (items : list (str * str)) : dcell :=
  fold_left (fun c kv => cell_set c (fst kv) (snd kv)) items (mkCell true []).

(* bibtex.py:85-98 *)
Definition month_names : list (str * str) := Eval vm_compute in
  [ (s2l "jan", s2l "January"); (s2l "feb", s2l "February"); (s2l "mar", s2l "March");
    (s2l "apr", s2l "April"); (s2l "may", s2l "May"); (s2l "jun", s2l "June");
    (s2l "jul", s2l "July"); (s2l "aug", s2l "August"); (s2l "sep", s2l "September");
    (s2l "oct", s2l "October"); (s2l "nov", s2l "November"); (s2l "dec", s2l "December") ].

(* ------------------------------------------------------------------------------------- *)
(* .bib commands after tokenisation *)
Inductive vpart := VLit (s : str) | VMacro (name : str).
Inductive command :=
| CString (name : str) (v : list vpart)
| CPreamble (v : list vpart)
| CEntry (typ key : str) (fields : list (str * list vpart))
| CComment
| CBad.                         (* a command with a syntax error before its body ('@=') *)

(* what LowLevelParser yields for one command: (command name, key or macro name, fields) *)
Inductive item :=
| IString (name : str) (parts : list str)
| IPreamble (parts : list str)
| IEntry (typ : str) (key : option str) (fields : list (str * list str)).   (* key None: keyless_entries *)

Definition heap := list dcell.
Definition h_get (h : heap) (i : nat) : dcell := nth i h (mkCell false []).
Fixpoint h_set (h : heap) (i : nat) (c : dcell) : heap :=
  match h, i with
  | [], _ => []
  | _ :: r, O => c :: r
  | x :: r, S j => x :: h_set r j c
  end.

(* how a LowLevelParser reports: through the reader's handle_error (report_error), or, used on
   its own, by raising (LowLevelParser.handle_error, line 177) *)
Definition ll_report (via_reader : bool) (x : err) (e : errs) : errs * res unit :=
  if via_reader then report_error x e else (e, PyErr (fst x) (-1)%Z).

(* parse_value / parse_value_part / substitute_macro (lines 265-300): the parts of one value; an
   undefined macro is reported (want_current_entry() is true: no citation filter here) and
   expands to '' *)
Fixpoint ll_value (via : bool) (cell : dcell) (v : list vpart) (e : errs) : errs * res (list str) :=
  match v with
  | [] => (e, Ok [])
  | VLit s :: r => let '(e1, rr) := ll_value via cell r e in lift_res e1 rr (fun ps => (e1, Ok (s :: ps)))
  | VMacro m :: r =>
    match cell_get cell m with
    | Some s => let '(e1, rr) := ll_value via cell r e in lift_res e1 rr (fun ps => (e1, Ok (s :: ps)))
    | None =>
      let '(e0, u) := ll_report via (E_UNDEF, m) e in
      lift_res e0 u (fun _ =>
        let '(e1, rr) := ll_value via cell r e0 in lift_res e1 rr (fun ps => (e1, Ok ([] :: ps))))
    end
  end.

(* parse_entry_fields (lines 244-254) *)
Fixpoint ll_fields (via : bool) (cell : dcell) (fs : list (str * list vpart)) (e : errs)
  : errs * res (list (str * list str)) :=
  match fs with
  | [] => (e, Ok [])
  | (n, v) :: r =>
    let '(e1, pv) := ll_value via cell v e in
    lift_res e1 pv (fun parts =>
      let '(e2, rr) := ll_fields via cell r e1 in
      lift_res e2 rr (fun fr => (e2, Ok ((n, parts) :: fr))))
  end.

(* parse_command (lines 197-227) on one command: the cell after it (an @string writes through
   self.macros, line 237), the item yielded if any *)
Definition ll_command (via keyless : bool) (cell : dcell) (c : command) (e : errs) : (dcell * errs) * res (option item) :=
  match c with
  | CString name v =>
    let '(e1, pv) := ll_value via cell v e in
    lift_res (cell, e1) pv (fun parts =>
      ((cell_set cell name (concat parts), e1), Ok (Some (IString name parts))))
  | CPreamble v =>
    let '(e1, pv) := ll_value via cell v e in
    lift_res (cell, e1) pv (fun parts => ((cell, e1), Ok (Some (IPreamble parts))))
  | CEntry typ key fs =>
    let '(e1, pf) := ll_fields via cell fs e in
    (* parse_entry_body (lines 239-245): with keyless_entries no key is read, current_entry_key stays None *)
    lift_res (cell, e1) pf (fun fields => ((cell, e1), Ok (Some (IEntry typ (if keyless then None else Some key) fields))))
  | CComment => ((cell, e), Ok None)
  | CBad =>
    let '(e1, u) := ll_report via (E_SYNTAX, []) e in
    lift_res (cell, e1) u (fun _ => ((cell, e1), Ok None))
  end.

(* ------------------------------------------------------------------------------------- *)
(* the database a reader fills *)
Definition s_author : str := Eval vm_compute in s2l "author".
Definition s_editor : str := Eval vm_compute in s2l "editor".
Record entry := mkEntry { en_type : str; en_fields : list (str * str); en_persons : list (str * list person) }.
Record reader := mkReader {
  r_cell : nat; r_entries : list (str * entry); r_preamble : list str;
  r_keyless : bool;                 (* Parser(keyless_entries=...) *)
  r_pf : list str;                  (* Parser(person_fields=...), a CaseInsensitiveSet: lower-cased names *)
  r_counter : nat }.                (* self.unnamed_entry_counter *)

(* the constructor options of a reader *)
Record ropts := mkOpts { o_macros : option (list (str * str)); o_keyless : bool; o_pf : option (list str) }.
Definition default_pf : list str := [s_author; s_editor].      (* Person.valid_roles *)
Definition opts_pf (o : ropts) : list str := map lower (match o_pf o with None => default_pf | Some l => l end).

(* 'unnamed-%i' % n *)
Fixpoint digits_go (fuel : nat) (n : N) (acc : str) : str :=
  match fuel with
  | O => acc
  | S f => let acc' := (48 + N.modulo n 10)%N :: acc in
           if N.eqb (N.div n 10) 0 then acc' else digits_go f (N.div n 10) acc'
  end.
Definition nat_dec (n : nat) : str := digits_go (S n) (N.of_nat n) [].
Definition s_unnamed : str := Eval vm_compute in s2l "unnamed-".
Definition with_data (rd : reader) (es : list (str * entry)) (pre : list str) : reader :=
  mkReader (r_cell rd) es pre (r_keyless rd) (r_pf rd) (r_counter rd).
Definition with_counter (rd : reader) (n : nat) : reader :=
  mkReader (r_cell rd) (r_entries rd) (r_preamble rd) (r_keyless rd) (r_pf rd) n.

Definition normalize_whitespace (s : str) : str := join [c_space] (split_ws s).   (* textutils.py:113-133 *)

(* field_name in self.person_fields (a CaseInsensitiveSet) *)
Definition is_person_field (pf : list str) (n : str) : bool := existsb (str_eqb (lower n)) pf.

Fixpoint has_key_ci {X} (k : str) (l : list (str * X)) : bool :=
  match l with [] => false | (k', _) :: r => str_eqb (lower k) (lower k') || has_key_ci k r end.

(* entry.add_person(person, role): persons.setdefault(role, []).append(person), case-insensitive *)
Fixpoint add_person (role : str) (p : person) (l : list (str * list person)) : list (str * list person) :=
  match l with
  | [] => [(role, [p])]
  | (r', ps) :: t => if str_eqb (lower role) (lower r') then (r', ps ++ [p]) :: t else (r', ps) :: add_person role p t
  end.

(* for name in split_name_list(value): entry.add_person(Person(name), field_name) *)
Fixpoint add_persons (role : str) (names : list str) (en : entry) (e : errs) : errs * res entry :=
  match names with
  | [] => (e, Ok en)
  | nm :: r =>
    lift_res e (person_of_string nm) (fun pr =>
      let '(e1, u) := if (snd pr : bool) then report_error (E_NAME, nm) e else (e, Ok tt) in
      lift_res e1 u (fun _ =>
        add_persons role r (mkEntry (en_type en) (en_fields en) (add_person role (fst pr) (en_persons en))) e1))
  end.

(* Parser.process_entry, the loop over fields (lines 356-368) *)
Fixpoint process_fields (pf : list str) (key : str) (fs : list (str * list str)) (seen : list str) (en : entry) (e : errs)
  : errs * res entry :=
  match fs with
  | [] => (e, Ok en)
  | (n, parts) :: r =>
    if existsb (str_eqb (lower n)) seen then
      let '(e1, u) := report_error (E_DUPFIELD, n) e in
      lift_res e1 u (fun _ => process_fields pf key r seen en e1)
    else
      let value := normalize_whitespace (concat parts) in
      if is_person_field pf n then
        lift_res e (split_name_list value) (fun names =>
          let '(e1, ren) := add_persons n names en e in
          lift_res e1 ren (fun en1 => process_fields pf key r (lower n :: seen) en1 e1))
      else
        process_fields pf key r (lower n :: seen)
          (mkEntry (en_type en) (en_fields en ++ [(n, value)]) (en_persons en)) e
  end.

(* one yielded item through Parser.parse_string's loop (lines 396-404) *)
Definition process_item (rd : reader) (it : item) (e : errs) : (reader * errs) * res unit :=
  match it with
  | IString _ _ => ((rd, e), Ok tt)
  | IPreamble parts =>
    ((with_data rd (r_entries rd) (r_preamble rd ++ [normalize_whitespace (concat parts)]), e), Ok tt)
  | IEntry typ okey fields =>
    (* process_entry lines 358-360: a keyless entry is named from the reader's counter, which is
       advanced at once (also when the entry then fails) *)
    let '(key, rd0) := match okey with
                       | Some k => (k, rd)
                       | None => (s_unnamed ++ nat_dec (r_counter rd), with_counter rd (S (r_counter rd)))
                       end in
    let '(e1, ren) := process_fields (r_pf rd0) key fields [] (mkEntry (lower typ) [] []) e in
    lift_res (rd0, e1) ren (fun en =>
      (* BibliographyData.add_entry *)
      if has_key_ci key (r_entries rd0) then
        let '(e2, u) := report_error (E_REPEATED, key) e1 in
        lift_res (rd0, e2) u (fun _ => ((rd0, e2), Ok tt))
      else ((with_data rd0 (r_entries rd0 ++ [(key, en)]) (r_preamble rd0), e1), Ok tt))
  end.

(* Parser.parse_string(text): a LowLevelParser sharing the reader's macro object (so an @string is
   visible to the following commands, and to later files of the same reader), each yielded
   command processed before the next one is parsed.  [cell] is that macro object. *)
Fixpoint feed_go (cell : dcell) (rd : reader) (file : list command) (e : errs) : (dcell * reader * errs) * res unit :=
  match file with
  | [] => ((cell, rd, e), Ok tt)
  | c :: r =>
    let '((cell1, e1), ri) := ll_command true (r_keyless rd) cell c e in
    lift_res (cell1, rd, e1) ri (fun oi =>
      match oi with
      | None => feed_go cell1 rd r e1
      | Some it =>
        let '((rd1, e2), u) := process_item rd it e1 in
        lift_res (cell1, rd1, e2) u (fun _ => feed_go cell1 rd1 r e2)
      end)
  end.

(* Parser.parse_string line 389: self.unnamed_entry_counter = 1 at the start of EVERY parse (so the
   second keyless file of one reader starts at unnamed-1 again and collides with the first) *)
Definition feed (cell : dcell) (rd : reader) (file : list command) (e : errs) : (dcell * reader * errs) * res unit :=
  feed_go cell (with_counter rd 1) file e.

(* list(LowLevelParser(text, macros=<object>)): the items, or the first error raised *)
Fixpoint lowlevel (via : bool) (cell : dcell) (file : list command) (e : errs) : (dcell * errs) * res (list item) :=
  match file with
  | [] => ((cell, e), Ok [])
  | c :: r =>
    let '((cell1, e1), ri) := ll_command via false cell c e in
    lift_res (cell1, e1) ri (fun oi =>
      let '(ce2, rr) := lowlevel via cell1 r e1 in
      lift_res ce2 rr (fun its => (ce2, Ok (match oi with Some it => it :: its | None => its end))))
  end.

(* ------------------------------------------------------------------------------------- *)
(* the process state and the API calls *)
Record G := mkG {
  g_heap : heap;                          (* cell 0 is bibtex.month_names; the others are readers' macro tables *)
  g_readers : list reader;                (* the Parser objects the history keeps alive *)
  g_ms : memo str (list str);             (* _split_names: memory, history *)
  g_mf : memo nkey str;                   (* _format_name: memory, history *)
  g_err : errs }.

Definition G0 : G := mkG [mkCell false month_names] [] memo0 memo0 errs0.

Inductive op :=
| ONewReader (o : ropts)                                      (* Parser(macros=, keyless_entries=, person_fields=) kept alive *)
| OFeed (r : nat) (file : list command)                       (* readers[r].parse_string(text): accumulates *)
| OParse (o : ropts) (files : list (list command))
                                                              (* a fresh Parser(...).parse_files(files) *)
| OLowLevel (src : option nat) (file : list command)          (* list(LowLevelParser(text[, macros=readers[r].macros])) *)
| OFormatName (names : str) (n : Z) (format : str)            (* the memoised _format_name, as format.name$ calls it *)
| OBstRun (calls : list nkey)                                 (* Interpreter(...) + its format.name$ calls in order *)
| OSetStrict (b : bool)                                       (* errors.set_strict_mode(b) *)
| OOpaque (id : N).                                           (* a call whose result the model does not compute and that touches no cell of G:
                                                                 writers (to_string, each format), the YAML / BibTeXML readers, the Python engine
                                                                 (format_from_string, format_bibliography + back end) *)

(* snapshot of a reader's database: entries (key, type, fields, persons), preamble, macro table *)
Definition snapshot := (list (str * entry) * list str * list (str * str))%type.

Inductive oval :=
| VUnit
| VReader (i : nat)
| VData (d : snapshot)
| VItems (l : list item)
| VStr (s : str)
| VStrs (l : list str).

(* what a call returns: its value or exception, what it printed as warnings, and (when it ran
   inside errors.capture()) the captured problems *)
Record outcome := mkOut { o_val : res oval; o_stderr : list err; o_captured : option (list err) }.

(* Parser.__init__ (lines 338-350) after BaseParser.__init__ (a fresh BibliographyData):
   self.macros = CaseInsensitiveDict(macros) -- a copy, in a new heap cell *)
Definition new_macros (g_h : heap) (macros : option (list (str * str))) : dcell :=
  ci_copy (match macros with None => c_items (h_get g_h 0) | Some l => l end).
Definition fresh_reader (cellid : nat) (o : ropts) : reader := mkReader cellid [] [] (o_keyless o) (opts_pf o) 1.
Definition new_reader (g_h : heap) (o : ropts) : heap * reader :=
  (g_h ++ [new_macros g_h (o_macros o)], fresh_reader (length g_h) o).

Definition snap (cell : dcell) (rd : reader) : snapshot := (r_entries rd, r_preamble rd, c_items cell).

(* BaseParser.parse_files (input/__init__.py:50-53): the files one after the other into the same
   reader (same macro object, same BibliographyData) *)
Fixpoint feed_files (cell : dcell) (rd : reader) (files : list (list command)) (e : errs) : (dcell * reader * errs) * res unit :=
  match files with
  | [] => ((cell, rd, e), Ok tt)
  | f :: r => let '((c1, rd1, e1), u) := feed cell rd f e in
              lift_res (c1, rd1, e1) u (fun _ => feed_files c1 rd1 r e1)
  end.

Fixpoint set_nth {X} (l : list X) (i : nat) (x : X) : list X :=
  match l, i with
  | [], _ => []
  | _ :: r, O => x :: r
  | y :: r, S j => y :: set_nth r j x
  end.

Definition map_res_val {A B} (f : A -> B) (r : res A) : res B :=
  match r with Ok a => Ok (f a) | PyErr c l => PyErr c l | Crash => Crash | OutOfFuel => OutOfFuel end.

(* format.name$ calls of one BST run; the run ends at the first exception *)
Fixpoint bst_calls (cap : nat) (fmt : fmt_fun) (ks : list nkey) (st : memo nkey str * (memo str (list str) * errs))
  : (memo nkey str * (memo str (list str) * errs)) * res (list str) :=
  match ks with
  | [] => (st, Ok [])
  | k :: r =>
    let '(st1, v) := memo_call nkey_eqb cap (format_name_f cap fmt) k st in
    lift_res st1 v (fun s =>
      let '(st2, rr) := bst_calls cap fmt r st1 in
      lift_res st2 rr (fun l => (st2, Ok (s :: l))))
  end.

(* one API call in the current reporting mode; returns the value (or exception) *)
Definition exec (cap : nat) (fmt : fmt_fun) (g : G) (o : op) : G * res oval :=
  match o with
  | ONewReader o =>
    let '(h1, rd) := new_reader (g_heap g) o in
    (mkG h1 (g_readers g ++ [rd]) (g_ms g) (g_mf g) (g_err g), Ok (VReader (length (g_readers g))))
  | OFeed r file =>
    match nth_error (g_readers g) r with
    | None => (g, Crash)
    | Some rd =>
      let '((c1, rd1, e1), u) := feed (h_get (g_heap g) (r_cell rd)) rd file (g_err g) in
      (mkG (h_set (g_heap g) (r_cell rd) c1) (set_nth (g_readers g) r rd1) (g_ms g) (g_mf g) e1,
       map_res_val (fun _ => VData (snap c1 rd1)) u)
    end
  | OParse o files =>
    (* the reader and its macro table are local to the call: nothing of them stays in G *)
    let '((c2, rd2, e2), u) := feed_files (new_macros (g_heap g) (o_macros o)) (fresh_reader 0 o) files (g_err g) in
    (mkG (g_heap g) (g_readers g) (g_ms g) (g_mf g) e2, map_res_val (fun _ => VData (snap c2 rd2)) u)
  | OLowLevel src file =>
    match src with
    | None =>
      (* LowLevelParser.__init__ (lines 142-158): macros=None -> a private plain-dict copy
         dict(month_names); @string definitions stay in it *)
      let '((cell1, e1), rr) := lowlevel false (mkCell false (c_items (h_get (g_heap g) 0))) file (g_err g) in
      (mkG (g_heap g) (g_readers g) (g_ms g) (g_mf g) e1, map_res_val VItems rr)
    | Some r =>
      match nth_error (g_readers g) r with
      | None => (g, Crash)
      | Some rd =>
        let i := r_cell rd in
        let '((cell1, e1), rr) := lowlevel false (h_get (g_heap g) i) file (g_err g) in
        (mkG (h_set (g_heap g) i cell1) (g_readers g) (g_ms g) (g_mf g) e1, map_res_val VItems rr)
      end
    end
  | OFormatName names n format =>
    let '((mf1, (ms1, e1)), v) := memo_call nkey_eqb cap (format_name_f cap fmt) (names, n, format) (g_mf g, (g_ms g, g_err g)) in
    (mkG (g_heap g) (g_readers g) ms1 mf1 e1, map_res_val VStr v)
  | OBstRun calls =>
    (* Interpreter.__init__ creates only per-run objects: stack, vars, macros, output, entry_vars *)
    let '((mf1, (ms1, e1)), v) := bst_calls cap fmt calls (g_mf g, (g_ms g, g_err g)) in
    (mkG (g_heap g) (g_readers g) ms1 mf1 e1, map_res_val VStrs v)
  | OSetStrict b =>
    (mkG (g_heap g) (g_readers g) (g_ms g) (g_mf g) (set_strict b (g_err g)), Ok VUnit)
  | OOpaque _ => (g, Ok VUnit)
  end.

Definition with_err (g : G) (e : errs) : G := mkG (g_heap g) (g_readers g) (g_ms g) (g_mf g) e.
Definition clear_stderr (e : errs) : errs := mkErrs (e_strict e) (e_code e) (e_captured e) [].

(* a call, optionally inside  `with errors.capture() as captured:`  *)
Definition step (cap : nat) (fmt : fmt_fun) (g : G) (co : bool * op) : G * outcome :=
  let '(cpt, o) := co in
  let g0 := with_err g (clear_stderr (g_err g)) in
  if cpt then
    let '(g1, v) := exec cap fmt (with_err g0 (capture_enter (g_err g0))) o in
    (with_err g1 (capture_exit (g_err g1)), mkOut v (e_stderr (g_err g1)) (e_captured (g_err g1)))
  else
    let '(g1, v) := exec cap fmt g0 o in
    (g1, mkOut v (e_stderr (g_err g1)) None).

Fixpoint run (cap : nat) (fmt : fmt_fun) (g : G) (cos : list (bool * op)) : G * list outcome :=
  match cos with
  | [] => (g, [])
  | co :: r => let '(g1, out) := step cap fmt g co in
               let '(g2, outs) := run cap fmt g1 r in (g2, out :: outs)
  end.

Definition final (cap : nat) (fmt : fmt_fun) (g : G) (cos : list (bool * op)) : G := fst (run cap fmt g cos).
