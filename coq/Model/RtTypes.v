(* Model/RtTypes.v -- the rich-text tree datatype shared by the C08 (richtext.py) and
   C09 (backends) models.  pybtex/richtext.py classes:
     String(value) | Symbol(name) | Text(parts...) | Tag(name, parts...)
     | HRef(url, parts..., external=False) | Protected(parts...) *)
From Pybtex Require Import Base.Prelude.

Inductive rt : Type :=
| RStr (s : str)
| RSym (name : str)
| RText (parts : list rt)
| RTag (name : str) (parts : list rt)
| RHRef (url : str) (external : bool) (parts : list rt)
| RProt (parts : list rt).

(* markup attached to a character, outermost first *)
Inductive markup : Type :=
| MTag (name : str)
| MHRef (url : str) (external : bool)
| MProt.

(* a flat rich text: the sequence of (atom, enclosing markup) pairs *)
Inductive atom : Type := ACh (c : char) | ASym (name : str).
Definition flat_text := list (atom * list markup).

(* wire encoding: (0 s) (1 name) (2 parts) (3 name parts) (4 url ext parts) (5 parts) *)
Fixpoint e_rt (t : rt) : sexp :=
  match t with
  | RStr s => L [A 0%Z; e_str s]
  | RSym n => L [A 1%Z; e_str n]
  | RText ps => L [A 2%Z; L (map e_rt ps)]
  | RTag n ps => L [A 3%Z; e_str n; L (map e_rt ps)]
  | RHRef u e ps => L [A 4%Z; e_str u; e_bool e; L (map e_rt ps)]
  | RProt ps => L [A 5%Z; L (map e_rt ps)]
  end.

Fixpoint d_rt (fuel : nat) (s : sexp) : rt :=
  match fuel with
  | O => RStr []
  | S f =>
    match d_items s with
    | A 0%Z :: x :: _ => RStr (d_str x)
    | A 1%Z :: x :: _ => RSym (d_str x)
    | A 2%Z :: ps :: _ => RText (map (d_rt f) (d_items ps))
    | A 3%Z :: n :: ps :: _ => RTag (d_str n) (map (d_rt f) (d_items ps))
    | A 4%Z :: u :: e :: ps :: _ => RHRef (d_str u) (d_bool e) (map (d_rt f) (d_items ps))
    | A 5%Z :: ps :: _ => RProt (map (d_rt f) (d_items ps))
    | _ => RStr []
    end
  end.

Definition e_markup (m : markup) : sexp :=
  match m with
  | MTag n => L [A 0%Z; e_str n]
  | MHRef u e => L [A 1%Z; e_str u; e_bool e]
  | MProt => L [A 2%Z]
  end.
Definition e_atom (a : atom) : sexp :=
  match a with ACh c => L [A 0%Z; e_N c] | ASym n => L [A 1%Z; e_str n] end.
Definition e_flat (f : flat_text) : sexp := e_list (fun p => L [e_atom (fst p); e_list e_markup (snd p)]) f.
