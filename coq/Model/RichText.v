(* Model/RichText.v -- executable model of pybtex/richtext.py (property C08).
   Values are the trees of Model/RtTypes.v (`rt`); an *expression* (`expr`) is a
   program over the public API (constructors and methods applied on top of one
   another); `eval` runs it the way CPython runs the corresponding Python expression.
   Every definition names the Python function it mirrors (file pybtex/richtext.py,
   line numbers of the working tree the model was written against).
   No proofs in this file. *)
From Pybtex Require Import Base.Prelude Base.PyChar Base.PyStr Model.RtTypes.

(* ------------------------------------------------------------------------------ *)
(* small generic helpers *)

Fixpoint mapM {X Y} (f : X -> res Y) (l : list X) : res (list Y) :=
  match l with
  | [] => Ok []
  | x :: r => do y <- f x; do ys <- mapM f r; Ok (y :: ys)
  end.

Definition of_opt {X} (o : option X) : res X :=
  match o with Some x => Ok x | None => OutOfFuel end.

Definition list_eqb {X} (eqb : X -> X -> bool) : list X -> list X -> bool :=
  fix go (a b : list X) : bool :=
    match a, b with
    | [], [] => true
    | x :: a', y :: b' => eqb x y && go a' b'
    | _, _ => false
    end.

(* ------------------------------------------------------------------------------ *)
(* observers that need no fuel *)

(* the `parts` attribute: BaseMultipartText.parts (a list of texts), String.parts
   (richtext.py:781-783: `[str(self)]`, represented as the one String).  Symbol has no
   such attribute; it is never asked for one (cls is None in _merge_similar). *)
Definition parts_of (t : rt) : list rt :=
  match t with
  | RStr s => [RStr s]
  | RSym _ => []
  | RText ps | RTag _ ps | RHRef _ _ ps | RProt ps => ps
  end.

(* __len__: String 731-732, Symbol 956-957, BaseMultipartText 357-371 (self.length,
   computed in __init__ 339 as the sum of the parts' lengths) *)
Fixpoint rlen (t : rt) : nat :=
  match t with
  | RStr s => length s
  | RSym _ => 1
  | RText ps | RTag _ ps | RHRef _ _ ps | RProt ps => list_sum (map rlen ps)
  end.
Definition zlen (t : rt) : Z := Z.of_nat (rlen t).

(* nesting depth, used only to compute sufficient fuel *)
Fixpoint depth (t : rt) : nat :=
  match t with
  | RStr _ | RSym _ => 0
  | RText ps | RTag _ ps | RHRef _ _ ps | RProt ps => S (list_max (map depth ps))
  end.
Definition ldepth (l : list rt) : nat := list_max (map depth l).

(* __str__: String 722-723, Symbol 962-964 ('<%s>' % name), BaseMultipartText 341-342 *)
Fixpoint rstr (t : rt) : str :=
  match t with
  | RStr s => s
  | RSym n => (60%N :: n) ++ [62%N]
  | RText ps | RTag _ ps | RHRef _ _ ps | RProt ps => concat (map rstr ps)
  end.

(* render(backend) with the tracing back end of the harness (RenderType = list;
   format_str -> one (char, ()) pair per character; symbols[name] -> one (symbol, ())
   pair; format_tag / format_href / format_protected push their markup onto every pair;
   render_sequence concatenates): String 788-789, Symbol 1005-1006,
   BaseMultipartText 566-577, Tag 859-861, HRef 896-898, Protected 950-952 *)
Definition push (m : markup) (p : atom * list markup) : atom * list markup :=
  (fst p, m :: snd p).
Fixpoint flat (t : rt) : flat_text :=
  match t with
  | RStr s => map (fun c => (ACh c, [])) s
  | RSym n => [(ASym n, [])]
  | RText ps => concat (map flat ps)
  | RTag n ps => map (push (MTag n)) (concat (map flat ps))
  | RHRef u e ps => map (push (MHRef u e)) (concat (map flat ps))
  | RProt ps => map (push MProt) (concat (map flat ps))
  end.

(* ------------------------------------------------------------------------------ *)
(* _typeinfo: BaseText 287-300 -> (None, ()) [Symbol], String 785-786,
   BaseMultipartText 579-588 -> (type(self), self.info); info is (name,) for Tag,
   (url,) for HRef -- `external` is NOT part of it -- and () otherwise *)
Inductive tinfo := TINone | TIStr | TIText | TITag (n : str) | TIHRef (u : str) | TIProt.

Definition typeinfo (t : rt) : tinfo :=
  match t with
  | RStr _ => TIStr
  | RSym _ => TINone
  | RText _ => TIText
  | RTag n _ => TITag n
  | RHRef u _ _ => TIHRef u
  | RProt _ => TIProt
  end.

Definition tinfo_eqb (a b : tinfo) : bool :=
  match a, b with
  | TINone, TINone | TIStr, TIStr | TIText, TIText | TIProt, TIProt => true
  | TITag n, TITag m => str_eqb n m
  | TIHRef u, TIHRef w => str_eqb u w
  | _, _ => false
  end.

(* the class and constructor arguments a multipart text is built with *)
Inductive kind := KText | KTag (n : str) | KHRef (u : str) (ext : bool) | KProt.

(* Tag.__check_name 824-832: the deprecated name 'emph' becomes 'em' (with a warning) *)
Definition check_name (n : str) : str :=
  if str_eqb n [101; 109; 112; 104]%N then [101; 109]%N else n.   (* "emph" -> "em" (no Coq string literal: extraction) *)

Definition build (k : kind) (ps : list rt) : rt :=
  match k with
  | KText => RText ps
  | KTag n => RTag (check_name n) ps
  | KHRef u e => RHRef u e ps
  | KProt => RProt ps
  end.

(* _unpack: BaseText 277-285 (yield self), Text 801-803 (yield the parts) *)
Definition unpack (t : rt) : list rt :=
  match t with RText ps => ps | _ => [t] end.

(* itertools.groupby(parts, key=_typeinfo): maximal runs of equal keys *)
Fixpoint groupby (l : list rt) : list (list rt) :=
  match l with
  | [] => []
  | x :: r =>
    match groupby r with
    | (y :: g) :: gs =>
      if tinfo_eqb (typeinfo x) (typeinfo y) then (x :: y :: g) :: gs else [x] :: (y :: g) :: gs
    | _ => [[x]]
    end
  end.

Definition str_val (t : rt) : str := match t with RStr s => s | _ => [] end.

(* BaseMultipartText.__init__ 309-339 (parts are already texts: ensure_text is in
   `eval`): drop the empty parts (`if part` = len(part) != 0), unpack Text parts, merge
   similar neighbours, store.  _merge_similar 604-623: a group of more than one part of
   the same class-with-info is rebuilt as cls(info..., all their parts...) -- for String
   that is the concatenation (String.__init__ 715-717), for Tag / HRef / Protected /
   Text a recursive construction; HRef is rebuilt WITHOUT `external` (it defaults to
   False, 887).  Symbols (cls None) and singleton groups are kept as they are.
   Fuel: the recursion goes through the parts of the parts. *)
Definition merge_group (rec : kind -> list rt -> option rt) (g : list rt) : option (list rt) :=
  match g with
  | [] => Some []
  | [x] => Some [x]
  | x :: _ =>
    match typeinfo x with
    | TINone => Some g
    | TIStr => Some [RStr (flat_map str_val (flat_map parts_of g))]
    | TIText => option_map (fun t => [t]) (rec KText (flat_map parts_of g))
    | TITag n => option_map (fun t => [t]) (rec (KTag n) (flat_map parts_of g))
    | TIHRef u => option_map (fun t => [t]) (rec (KHRef u false) (flat_map parts_of g))
    | TIProt => option_map (fun t => [t]) (rec KProt (flat_map parts_of g))
    end
  end.
Fixpoint merge_all (rec : kind -> list rt -> option rt) (gs : list (list rt)) : option (list rt) :=
  match gs with
  | [] => Some []
  | g :: r =>
    match merge_group rec g, merge_all rec r with
    | Some a, Some b => Some (a ++ b)
    | _, _ => None
    end
  end.
Definition nonempty (p : rt) : bool := negb (Nat.eqb (rlen p) 0).
Fixpoint mk (fuel : nat) (k : kind) (raw : list rt) : option rt :=
  match fuel with
  | O => None
  | S f => option_map (build k) (merge_all (mk f) (groupby (flat_map unpack (filter nonempty raw))))
  end.

(* the constructor with fuel that is always sufficient (Proofs: mk_fuel_enough) *)
Definition mkc (k : kind) (raw : list rt) : res rt := of_opt (mk (S (S (ldepth raw))) k raw).

(* _create_similar 590-602: cls(info..., parts...) -- an HRef loses `external` here too *)
Definition kind_of (t : rt) : kind :=
  match t with
  | RTag n _ => KTag n
  | RHRef u _ _ => KHRef u false
  | RProt _ => KProt
  | _ => KText
  end.
Definition create_similar (t : rt) (ps : list rt) : res rt := mkc (kind_of t) ps.

Definition is_multipart (t : rt) : bool :=
  match t with RStr _ | RSym _ => false | _ => true end.

(* ------------------------------------------------------------------------------ *)
(* __getitem__ *)

Inductive key := KInt (i : Z) | KSlice (i j : option Z).

(* slice(i, j).indices(n) for step None: (start, stop) clamped into [0, n] *)
Definition slice_indices (n : Z) (i j : option Z) : Z * Z :=
  (match i with None => 0%Z | Some i => clamp_idx n i end,
   match j with None => n | Some j => clamp_idx n j end).

(* _slice_beginning 424-438; `gi` is __getitem__ of the parts *)
Fixpoint slice_beginning_parts (gi : rt -> key -> res rt) (ps : list rt) (len sl : Z) : res (list rt) :=
  match ps with
  | [] => Ok []
  | p :: r =>
    if (len + zlen p >? sl)%Z
    then do x <- gi p (KSlice None (Some (sl - len)%Z)); Ok [x]
    else do r' <- slice_beginning_parts gi r (len + zlen p)%Z sl; Ok (p :: r')
  end.
Definition slice_beginning (gi : rt -> key -> res rt) (t : rt) (sl : Z) : res rt :=
  do ps <- slice_beginning_parts gi (parts_of t) 0%Z sl; create_similar t ps.

(* _slice_end 440-454: walks reversed(self.parts), collects, then reverses again; the
   list returned here is in collection order (last part first) *)
Fixpoint slice_end_parts (gi : rt -> key -> res rt) (rps : list rt) (len sl : Z) : res (list rt) :=
  match rps with
  | [] => Ok []
  | p :: r =>
    if (len + zlen p >? sl)%Z
    then do x <- gi p (KSlice (Some (zlen p - (sl - len))%Z) None); Ok [x]
    else do r' <- slice_end_parts gi r (len + zlen p)%Z sl; Ok (p :: r')
  end.
Definition slice_end (gi : rt -> key -> res rt) (t : rt) (sl : Z) : res rt :=
  do ps <- slice_end_parts gi (rev (parts_of t)) 0%Z sl; create_similar t (rev ps).

(* String.__getitem__ 737-738 (str indexing: IndexError outside the bounds),
   Symbol.__getitem__ 972-979 ('a'[index]; IndexError re-raised),
   BaseMultipartText.__getitem__ 393-422 *)
Fixpoint getitem (fuel : nat) (t : rt) (k : key) : res rt :=
  match fuel with
  | O => OutOfFuel
  | S f =>
    match t with
    | RStr s =>
      match k with
      | KInt i =>
        let n := Z.of_nat (length s) in
        if ((- n <=? i) && (i <? n))%Z
        then Ok (RStr (firstn 1 (skipn (Z.to_nat (if (i <? 0)%Z then n + i else i)) s)))
        else Crash
      | KSlice i j => Ok (RStr (pyslice s i j))
      end
    | RSym n =>
      match k with
      | KInt i => if ((i =? 0) || (i =? -1))%Z then Ok t else Crash
      | KSlice i j => match pyslice [0%N] i j with [] => Ok (RStr []) | _ => Ok t end
      end
    | _ =>
      let n := zlen t in
      let '(start, oend) :=
        match k with
        | KInt i => (i, None)
        | KSlice i j => let '(a, b) := slice_indices n i j in (a, Some b)
        end in
      let start := if (start <? 0)%Z then (n + start)%Z else start in
      let end_ := match oend with None => (start + 1)%Z | Some e => e end in
      let end_ := if (end_ <? 0)%Z then (n + end_)%Z else end_ in
      do a <- slice_end (getitem f) t (n - start)%Z;
      slice_beginning (getitem f) a (Z.max (end_ - start) 0)%Z
    end
  end.
Definition getitem_c (t : rt) (k : key) : res rt := getitem (S (S (depth t))) t k.

(* ------------------------------------------------------------------------------ *)
(* lower / upper: String 775-779, Symbol 1008-1012 (self), Protected 939-943 (self),
   BaseMultipartText 545-564 (_create_similar of the converted parts) *)
Fixpoint case_conv (fuel : nat) (up : bool) (t : rt) : res rt :=
  match fuel with
  | O => OutOfFuel
  | S f =>
    match t with
    | RStr s => Ok (RStr (if up then upper s else lower s))
    | RSym _ => Ok t
    | RProt _ => Ok t
    | _ => do ps <- mapM (case_conv f up) (parts_of t); create_similar t ps
    end
  end.
Definition case_c (up : bool) (t : rt) : res rt := case_conv (S (depth t)) up t.

(* __add__: BaseText 122-131, String 740-741: Text(self, other) *)
Definition add (a b : rt) : res rt := mkc KText [a; b].

(* append: BaseText 133-147 (self + text), BaseMultipartText 456-470 *)
Definition append (t x : rt) : res rt :=
  if is_multipart t then create_similar t (parts_of t ++ [x]) else add t x.

(* join: BaseText 149-167 *)
Fixpoint join_list (sep : rt) (ps : list rt) : list rt :=
  match ps with
  | [] => []
  | [p] => [p]
  | p :: r => p :: sep :: join_list sep r
  end.
Definition rjoin (sep : rt) (ps : list rt) : res rt := mkc KText (join_list sep ps).

(* ------------------------------------------------------------------------------ *)
(* startswith / endswith (the argument is one string or a tuple of strings; one string
   is the singleton list): String 758-772, Symbol 984-988 (False),
   BaseMultipartText 502-536: only the first / last part is asked *)
Fixpoint rstartswith (t : rt) (ps : list str) : bool :=
  match t with
  | RStr s => existsb (startswith s) ps
  | RSym _ => false
  | RText qs | RTag _ qs | RHRef _ _ qs | RProt qs =>
    match qs with [] => false | q :: _ => rstartswith q ps end
  end.
Fixpoint rendswith (t : rt) (ps : list str) : bool :=
  match t with
  | RStr s => existsb (fun p => startswith (rev s) (rev p)) ps
  | RSym _ => false
  | RText qs | RTag _ qs | RHRef _ _ qs | RProt qs =>
    (fix last_ends (l : list rt) : bool :=
       match l with
       | [] => false
       | [q] => rendswith q ps
       | _ :: r => last_ends r
       end) qs
  end.

(* __contains__: String 734-735 (substring), Symbol 969-970 (False),
   BaseMultipartText 373-391: `not item or any(part.__contains__(item) ...)` *)
Fixpoint substr (fuel : nat) (s p : str) : bool :=
  startswith s p ||
  match fuel with
  | O => false
  | S f => match s with [] => false | _ :: t => substr f t p end
  end.
Definition str_contains (s p : str) : bool := substr (length s) s p.
Fixpoint rcontains (t : rt) (p : str) : bool :=
  match t with
  | RStr s => str_contains s p
  | RSym _ => false
  | RText qs | RTag _ qs | RHRef _ _ qs | RProt qs =>
    match p with [] => true | _ => existsb (fun q => rcontains q p) qs end
  end.

(* isalpha: String 772-773 (str.isalpha: non-empty and all letters -- ASCII domain),
   Symbol 990-991 (False), BaseMultipartText 538-543 *)
Fixpoint risalpha (t : rt) : bool :=
  match t with
  | RStr s => negb (Nat.eqb (length s) 0) && forallb is_alpha s
  | RSym _ => false
  | RText qs | RTag _ qs | RHRef _ _ qs | RProt qs =>
    negb (Nat.eqb (rlen t) 0) && forallb risalpha qs
  end.

(* __eq__: String 724-729, Symbol 966-967, BaseMultipartText 344-355 (same class and
   info -- `external` is not compared -- and equal part lists) *)
Fixpoint rt_eqb (a b : rt) {struct a} : bool :=
  match a, b with
  | RStr s, RStr t => str_eqb s t
  | RSym n, RSym m => str_eqb n m
  | RText ps, RText qs => list_eqb rt_eqb ps qs
  | RTag n ps, RTag m qs => str_eqb n m && list_eqb rt_eqb ps qs
  | RHRef u _ ps, RHRef w _ qs => str_eqb u w && list_eqb rt_eqb ps qs
  | RProt ps, RProt qs => list_eqb rt_eqb ps qs
  | _, _ => false
  end.

(* ------------------------------------------------------------------------------ *)
(* split *)

Inductive sepk := SepNone | SepStr (s : str) | SepDelim | SepBad.

(* whitespace_re.split(value), whitespace_re = r'\s+' (textutils.py:31) *)
Fixpoint re_split_ws (s acc : str) (in_ws : bool) : list str :=
  match s with
  | [] => if in_ws then [[]] else [rev acc]
  | c :: t =>
    if is_space c
    then (if in_ws then re_split_ws t [] true else rev acc :: re_split_ws t [] true)
    else re_split_ws t (c :: acc) false
  end.
(* delimiter_re.split(value), delimiter_re = r'([\s\-])' (textutils.py:30): the
   delimiters are captured, so they are part of the result *)
Fixpoint re_split_delim (s acc : str) : list str :=
  match s with
  | [] => [rev acc]
  | c :: t =>
    if is_space c || N.eqb c c_hyphen
    then rev acc :: [c] :: re_split_delim t []
    else re_split_delim t (c :: acc)
  end.

(* String.split 743-758 *)
Definition str_split (s : str) (sep : sepk) (keep : option bool) : res (list rt) :=
  let keep := match keep with Some b => b | None => match sep with SepNone => false | _ => true end end in
  do pieces <-
    match sep with
    | SepNone => Ok (re_split_ws s [] false)
    | SepStr [] => Crash                       (* ValueError: empty separator *)
    | SepStr p => Ok (split_on p s)
    | SepDelim => Ok (re_split_delim s [])
    | SepBad => Crash                          (* TypeError *)
    end;
  Ok (map RStr (filter (fun p => negb (Nat.eqb (length p) 0) || keep) pieces)).

(* the loop of BaseMultipartText.split 472-500 over the already-split parts:
   state = tail; output = the yielded argument lists for _create_similar *)
Fixpoint split_items (keep : bool) (items : list rt) (tail : list rt) : list (list rt) * list rt :=
  match items with
  | [] => ([], tail)
  | it :: r =>
    match tail with
    | _ :: _ => let '(ys, tl) := split_items keep r [] in ((tail ++ [it]) :: ys, tl)
    | [] =>
      let '(ys, tl) := split_items keep r [] in
      if negb (Nat.eqb (rlen it) 0) || keep then ([it] :: ys, tl) else (ys, tl)
    end
  end.
Fixpoint split_loop (keep : bool) (sps : list (list rt)) (tail : list rt) : list (list rt) * list rt :=
  match sps with
  | [] => ([], tail)
  | sp :: r =>
    match sp with
    | [] => split_loop keep r tail                       (* `if not split_part: continue` *)
    | _ =>
      let '(ys, tl) := split_items keep (removelast sp) tail in
      let '(zs, tl') := split_loop keep r (tl ++ [last sp (RStr [])]) in
      (ys ++ zs, tl')
    end
  end.

(* split: String 743-758, Symbol 981-982 ([self]), Protected 945-946 ([self]),
   BaseMultipartText 472-500 *)
Fixpoint split (fuel : nat) (t : rt) (sep : sepk) (keep : option bool) : res (list rt) :=
  match fuel with
  | O => OutOfFuel
  | S f =>
    match t with
    | RStr s => str_split s sep keep
    | RSym _ => Ok [t]
    | RProt _ => Ok [t]
    | _ =>
      let keepb := match keep with Some b => b | None => match sep with SepNone => false | _ => true end end in
      do sps <- mapM (fun p => split f p sep (Some true)) (parts_of t);
      let '(ys, tl) := split_loop keepb sps (if keepb then [RStr []] else []) in
      do out <- mapM (create_similar t) ys;
      match tl with
      | [] => Ok out
      | _ => do tlt <- create_similar t tl;
             if negb (Nat.eqb (rlen tlt) 0) || keepb then Ok (out ++ [tlt]) else Ok out
      end
    end
  end.
Definition split_c (t : rt) (sep : sepk) (keep : option bool) : res (list rt) :=
  split (S (depth t)) t sep keep.

(* ------------------------------------------------------------------------------ *)
(* add_period 205-224, textutils.is_terminated 40-66 (endswith(('.', '?', '!'))) *)
Definition terminators : list str := [[46%N]; [63%N]; [33%N]].
Definition add_period (t : rt) (period : str) : res rt :=
  if negb (Nat.eqb (rlen t) 0) && negb (rendswith t terminators)
  then append t (RStr period) else Ok t.

(* capfirst 236-245, capitalize 247-256; Protected 933-937 returns self *)
Definition capfirst (t : rt) : res rt :=
  match t with
  | RProt _ => Ok t
  | _ => do a <- getitem_c t (KSlice None (Some 1%Z)); do a' <- case_c true a;
         do b <- getitem_c t (KSlice (Some 1%Z) None); add a' b
  end.
Definition capitalize (t : rt) : res rt :=
  match t with
  | RProt _ => Ok t
  | _ => do a <- getitem_c t (KSlice None (Some 1%Z)); do a' <- case_c true a;
         do b <- getitem_c t (KSlice (Some 1%Z) None); do b' <- case_c false b; add a' b'
  end.

(* abbreviate 226-234 *)
Definition abbreviate_word (w : rt) : res rt :=
  if risalpha w then do c <- getitem_c w (KInt 0%Z); add_period c [46%N] else Ok w.
Definition abbreviate (t : rt) : res rt :=
  do ws <- split_c t SepDelim None;
  do ws' <- mapM abbreviate_word ws;
  rjoin (RStr []) ws'.

(* ------------------------------------------------------------------------------ *)
(* expressions over the public API *)

Inductive expr :=
| EStr (s : str)                      (* a Python str where a part is expected, String(s) elsewhere *)
| ESym (n : str)
| EBad                                (* an object that is neither str nor BaseText (an int) *)
| EText (ps : list expr)
| ETag (n : str) (ps : list expr)
| EHRef (u : str) (ext : bool) (ps : list expr)
| EProt (ps : list expr)
| EUpper (e : expr) | ELower (e : expr) | ECapitalize (e : expr) | ECapfirst (e : expr)
| EAddPeriod (e : expr) (p : str)
| EAbbrev (e : expr)
| ESlice (e : expr) (i j : option Z)
| EIndex (e : expr) (i : Z)
| EAdd (a b : expr)
| EAppend (a b : expr)
| EJoin (sep : expr) (es : list expr)
| ESplitNth (e : expr) (sep : sepk) (keep : option bool) (k : nat).

(* ensure_text 85-93: ValueError for anything that is neither str nor BaseText.  A
   method called on such an object is an AttributeError.  Both are `Crash`. *)
Fixpoint eval (fuel : nat) (e : expr) : res rt :=
  match fuel with
  | O => OutOfFuel
  | S f =>
    let ev := eval f in
    match e with
    | EStr s => Ok (RStr s)
    | ESym n => Ok (RSym n)
    | EBad => Crash
    | EText ps => do vs <- mapM ev ps; mkc KText vs
    | ETag n ps => do vs <- mapM ev ps; mkc (KTag n) vs
    | EHRef u x ps => do vs <- mapM ev ps; mkc (KHRef u x) vs
    | EProt ps => do vs <- mapM ev ps; mkc KProt vs
    | EUpper a => do v <- ev a; case_c true v
    | ELower a => do v <- ev a; case_c false v
    | ECapitalize a => do v <- ev a; capitalize v
    | ECapfirst a => do v <- ev a; capfirst v
    | EAddPeriod a p => do v <- ev a; add_period v p
    | EAbbrev a => do v <- ev a; abbreviate v
    | ESlice a i j => do v <- ev a; getitem_c v (KSlice i j)
    | EIndex a i => do v <- ev a; getitem_c v (KInt i)
    | EAdd a b => do v <- ev a; do w <- ev b; add v w
    | EAppend a b => do v <- ev a; do w <- ev b; append v w
    | EJoin s es => do v <- ev s; do ws <- mapM ev es; rjoin v ws
    | ESplitNth a sep keep k =>
      do v <- ev a; do l <- split_c v sep keep;
      match nth_error l k with Some x => Ok x | None => Crash end   (* IndexError *)
    end
  end.

Fixpoint esize (e : expr) : nat :=
  match e with
  | EStr _ | ESym _ | EBad => 1
  | EText ps | ETag _ ps | EHRef _ _ ps | EProt ps => S (list_sum (map esize ps))
  | EUpper a | ELower a | ECapitalize a | ECapfirst a | EAddPeriod a _ | EAbbrev a
  | ESlice a _ _ | EIndex a _ | ESplitNth a _ _ _ => S (esize a)
  | EAdd a b | EAppend a b => S (esize a + esize b)
  | EJoin s es => S (esize s + list_sum (map esize es))
  end.
Definition eval_c (e : expr) : res rt := eval (S (esize e)) e.
