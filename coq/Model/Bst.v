(* Model/Bst.v -- the BST stack machine of pybtex:
     pybtex/bibtex/interpreter.py  (Variable .. FunctionLiteral, Interpreter.run and the command_xxx methods)
     pybtex/bibtex/builtins.py     (all 37 built-ins, in the code's pop order)
   as of /repo HEAD (after the fix: commits for bibtex_prefix, bibtex_substring, add.period$,
   format.name$ and int.to.chr$).  No proofs here.

   Python is dynamically typed and the model follows it: a built-in applied to operands of
   the wrong kind does what the Python expression does (TypeError / AttributeError / ValueError
   -> Crash, BibTeXError -> PyErr, and sometimes a perfectly good result: "a" "b" + is "ab",
   #1 #2 * is 3, #0 add.period$ is 0).

   What is NOT computed by this model but handed to it (Section variables / oracle data,
   DESIGN.md 3/C03 "Tie"):
     - format_bibtex_name(name, format)  (pybtex/bibtex/names.py -- C11's model)  : [fmt_name]
     - charwidths.get(c, 0)              (regenerated table)                     : [cw]
     - the result of READ (parsing the .bib files, wildcard / crossref expansion, dropping of
       missing citations, field lookup through crossref = C01/C05/C14's models)   : [st_reads]
   Outside the modelled domain (the model answers OutOfFuel = "declines"):
     - printing or stringifying an interpreter object (top$ / stack$ / int.to.str$ applied to a
       function value or a quoted variable: Python prints repr() of pybtex internals);
     - a quoted variable ('x) is represented by its (lower-cased) name; INTEGERS / STRINGS
       re-declaring a name while an older reference to it is still on the stack is outside the
       domain (Python keeps the old object alive). *)
From Pybtex Require Import Base.Prelude Base.PyChar Base.PyStr Model.BibtexStr Model.Wrap.
Local Open Scope Z_scope.

(* ---------------------------------------------------------------------------------- *)
(* syntax: what bst.BstParser.parse_group yields                                        *)
Inductive instr :=
| IInt (z : Z)                 (* Integer(z)        #z   *)
| IStr (s : str)               (* String(s)         "s"  *)
| IId (name : str)             (* Identifier(name)       *)
| IQuote (name : str)          (* QuotedVar(name)   'name *)
| IFun (body : list instr).    (* FunctionLiteral(body)  {...} *)

(* a top-level command: name and its (at most arity many) brace groups *)
Inductive command := Cmd (name : str) (args : list (list instr)).

(* values that can be on the stack *)
Inductive value :=
| VInt (z : Z)
| VStr (s : str)
| VMissing (name : str)        (* MissingField(name): an empty str subclass *)
| VFun (body : list instr)     (* Function(body) *)
| VRef (name : str).           (* the object interpreter.vars[name] (name lower-cased), pushed by 'name *)

Inductive builtin :=
| B_gt | B_lt | B_eq | B_concat | B_assign | B_plus | B_minus | B_add_period | B_call_type
| B_change_case | B_chr_to_int | B_cite | B_duplicate | B_empty | B_format_name | B_if
| B_int_to_chr | B_int_to_str | B_missing | B_newline | B_num_names | B_pop | B_preamble
| B_purify | B_quote | B_skip | B_substring | B_stack | B_swap | B_text_length | B_text_prefix
| B_top | B_type | B_warning | B_while | B_width | B_write.

(* what interpreter.vars maps a name to *)
Inductive obj :=
| OBuiltin (b : builtin)
| OInt (v : value)             (* Integer: _value (always a VInt) *)
| OStr (v : value)             (* String: _value (VStr or VMissing) *)
| OEInt (name : str)           (* EntryInteger(interpreter, name) *)
| OEStr (name : str)           (* EntryString(interpreter, name) *)
| OField (name : str)          (* Field(interpreter, name) *)
| OCrossref                    (* Crossref(interpreter) *)
| OFun (body : list instr).    (* Function(body) *)

(* a literal's .value(): what the commands read out of their groups *)
Inductive lit := LInt (z : Z) | LStr (s : str).

(* one database entry as the interpreter sees it (oracle data, see header) *)
Record entry := mkEntry {
  e_key : str;                       (* entry.key *)
  e_type : str;                      (* entry.type *)
  e_fields : list (str * str);       (* lower-cased declared field name -> _find_field value *)
  e_crossref : option str            (* Crossref.value(): key of the cross-referenced entry *)
}.
Record readres := mkRead {
  r_cites : list str;                (* self.citations after READ *)
  r_entries : list (str * entry);    (* citation -> bib_data.entries[citation] *)
  r_preamble : str;                  (* bib_data.preamble *)
  r_warnings : nat                   (* errors reported while reading *)
}.

Inductive warning := WUser (v : value) | WType | WRead.

Record state := mkSt {
  st_stack : list value;                       (* interpreter.stack, top first *)
  st_vars : list (str * obj);                  (* interpreter.vars (keys lower-cased) *)
  st_evars : list (str * list (str * value));  (* interpreter.entry_vars *)
  st_macros : list (lit * lit);                (* interpreter.macros *)
  st_buf : list value;                         (* interpreter.output_buffer *)
  st_lines : list str;                         (* interpreter.output_lines *)
  st_cur : option (str * entry);               (* current_entry_key, current_entry *)
  st_cites : list str;                         (* interpreter.citations *)
  st_db : option readres;                      (* interpreter.bib_data (None before READ) *)
  st_warn : list warning;                      (* errors reported through report_error *)
  st_print : str;                              (* text printed to pybtex.io.stdout *)
  st_reads : list readres                      (* oracle: what the next READs will find *)
}.

Definition set_stack (st : state) (s : list value) : state :=
  mkSt s (st_vars st) (st_evars st) (st_macros st) (st_buf st) (st_lines st) (st_cur st)
       (st_cites st) (st_db st) (st_warn st) (st_print st) (st_reads st).
Definition set_vars (st : state) (v : list (str * obj)) : state :=
  mkSt (st_stack st) v (st_evars st) (st_macros st) (st_buf st) (st_lines st) (st_cur st)
       (st_cites st) (st_db st) (st_warn st) (st_print st) (st_reads st).
Definition set_evars (st : state) (v : list (str * list (str * value))) : state :=
  mkSt (st_stack st) (st_vars st) v (st_macros st) (st_buf st) (st_lines st) (st_cur st)
       (st_cites st) (st_db st) (st_warn st) (st_print st) (st_reads st).
Definition set_macros (st : state) (m : list (lit * lit)) : state :=
  mkSt (st_stack st) (st_vars st) (st_evars st) m (st_buf st) (st_lines st) (st_cur st)
       (st_cites st) (st_db st) (st_warn st) (st_print st) (st_reads st).
Definition set_out (st : state) (b : list value) (l : list str) : state :=
  mkSt (st_stack st) (st_vars st) (st_evars st) (st_macros st) b l (st_cur st)
       (st_cites st) (st_db st) (st_warn st) (st_print st) (st_reads st).
Definition set_cur (st : state) (c : option (str * entry)) : state :=
  mkSt (st_stack st) (st_vars st) (st_evars st) (st_macros st) (st_buf st) (st_lines st) c
       (st_cites st) (st_db st) (st_warn st) (st_print st) (st_reads st).
Definition set_cites (st : state) (c : list str) : state :=
  mkSt (st_stack st) (st_vars st) (st_evars st) (st_macros st) (st_buf st) (st_lines st) (st_cur st)
       c (st_db st) (st_warn st) (st_print st) (st_reads st).
Definition set_db (st : state) (d : option readres) (r : list readres) : state :=
  mkSt (st_stack st) (st_vars st) (st_evars st) (st_macros st) (st_buf st) (st_lines st) (st_cur st)
       (st_cites st) d (st_warn st) (st_print st) r.
Definition add_warn (st : state) (w : list warning) : state :=
  mkSt (st_stack st) (st_vars st) (st_evars st) (st_macros st) (st_buf st) (st_lines st) (st_cur st)
       (st_cites st) (st_db st) (st_warn st ++ w) (st_print st) (st_reads st).
Definition add_print (st : state) (t : str) : state :=
  mkSt (st_stack st) (st_vars st) (st_evars st) (st_macros st) (st_buf st) (st_lines st) (st_cur st)
       (st_cites st) (st_db st) (st_warn st) (st_print st ++ t) (st_reads st).

Definition E_BST : N := 10.   (* BibTeXError *)
Definition err {X} : res X := PyErr E_BST (-1).
Definition Unmodelled {X} : res X := OutOfFuel.

(* ---------------------------------------------------------------------------------- *)
(* association lists with dict semantics (assignment to an existing key keeps its place) *)
Section Assoc.
  Context {K V : Type} (keq : K -> K -> bool).
  Fixpoint alookup (k : K) (l : list (K * V)) : option V :=
    match l with
    | [] => None
    | (k', v) :: r => if keq k k' then Some v else alookup k r
    end.
  Fixpoint aset (k : K) (v : V) (l : list (K * V)) : list (K * V) :=
    match l with
    | [] => [(k, v)]
    | (k', v') :: r => if keq k k' then (k', v) :: r else (k', v') :: aset k v r
    end.
End Assoc.

Definition lit_eqb (a b : lit) : bool :=
  match a, b with
  | LInt x, LInt y => Z.eqb x y
  | LStr x, LStr y => str_eqb x y
  | _, _ => false
  end.

(* CaseInsensitiveDict: keys are compared lower-cased (ASCII names: DESIGN.md 2.2) *)
Definition vlookup (name : str) (vars : list (str * obj)) : option obj := alookup str_eqb (lower name) vars.
Definition vset (name : str) (o : obj) (vars : list (str * obj)) : list (str * obj) := aset str_eqb (lower name) o vars.


(* names used by the interpreter itself, as code-point lists *)
Definition nm_crossref : str := Eval vm_compute in s2l "crossref".
Definition nm_default_type : str := Eval vm_compute in s2l "default.type".
Definition nm_entry : str := Eval vm_compute in s2l "entry".
Definition nm_execute : str := Eval vm_compute in s2l "execute".
Definition nm_function : str := Eval vm_compute in s2l "function".
Definition nm_integers : str := Eval vm_compute in s2l "integers".
Definition nm_iterate : str := Eval vm_compute in s2l "iterate".
Definition nm_macro : str := Eval vm_compute in s2l "macro".
Definition nm_read : str := Eval vm_compute in s2l "read".
Definition nm_reverse : str := Eval vm_compute in s2l "reverse".
Definition nm_sort : str := Eval vm_compute in s2l "sort".
Definition nm_sort_key_ : str := Eval vm_compute in s2l "sort.key$".
Definition nm_strings : str := Eval vm_compute in s2l "strings".

(* ---------------------------------------------------------------------------------- *)
(* Python-level helpers                                                                *)

(* str(int) *)
Fixpoint dec_digits (fuel : nat) (n : N) (acc : str) : str :=
  match fuel with
  | O => acc
  | S f => let d := N.modulo n 10 in let q := N.div n 10 in
           if N.eqb q 0 then (48 + d)%N :: acc else dec_digits f q ((48 + d)%N :: acc)
  end.
Definition N_to_str (n : N) : str := dec_digits (S (N.size_nat n)) n [].
Definition Z_to_str (z : Z) : str :=
  match z with
  | Z0 => [48%N]
  | Zpos p => N_to_str (Npos p)
  | Zneg p => 45%N :: N_to_str (Npos p)
  end.

(* str < str : lexicographic on code points *)
Fixpoint str_ltb (a b : str) : bool :=
  match a, b with
  | _, [] => false
  | [], _ :: _ => true
  | x :: a', y :: b' => if N.ltb x y then true else if N.eqb x y then str_ltb a' b' else false
  end.
Definition str_leb (a b : str) : bool := negb (str_ltb b a).

(* the str a value is, when it is one (MissingField is the empty string) *)
Definition as_str (v : value) : option str :=
  match v with VStr s => Some s | VMissing _ => Some [] | _ => None end.

(* structural equality of parsed code: Variable.__eq__ / Function.__eq__ compare type and payload *)
Fixpoint instr_eqb (a b : instr) : bool :=
  match a, b with
  | IInt x, IInt y => Z.eqb x y
  | IStr x, IStr y => str_eqb x y
  | IId x, IId y => str_eqb x y
  | IQuote x, IQuote y => str_eqb x y
  | IFun p, IFun q =>
    (fix go (p q : list instr) : bool :=
       match p, q with
       | [], [] => true
       | x :: p', y :: q' => instr_eqb x y && go p' q'
       | _, _ => false
       end) p q
  | _, _ => false
  end.
Fixpoint instrs_eqb (p q : list instr) : bool :=
  match p, q with
  | [], [] => true
  | x :: p', y :: q' => instr_eqb x y && instrs_eqb p' q'
  | _, _ => false
  end.

(* arg2 == arg1 *)
Definition obj_eq (n m : str) (a b : obj) : res bool :=
  match a, b with
  | OInt (VInt x), OInt (VInt y) => Ok (Z.eqb x y)
  | OStr x, OStr y =>
    match as_str x, as_str y with Some s, Some t => Ok (str_eqb s t) | _, _ => Crash end
  | OEInt _, OEInt _ => Crash          (* EntryVariable never gets a _value: AttributeError *)
  | OEStr _, OEStr _ => Crash
  | OBuiltin _, OBuiltin _ | OField _, OField _ | OCrossref, OCrossref => Ok (str_eqb n m)  (* identity *)
  | _, _ => Ok false
  end.
Definition py_eq (vars : list (str * obj)) (a b : value) : res bool :=
  match a, b with
  | VInt x, VInt y => Ok (Z.eqb x y)
  | VFun p, VFun q => Ok (instrs_eqb p q)
  | VRef n, VRef m =>
    match alookup str_eqb n vars, alookup str_eqb m vars with
    | Some o1, Some o2 => obj_eq n m o1 o2
    | _, _ => Crash
    end
  | _, _ =>
    match as_str a, as_str b with
    | Some s, Some t => Ok (str_eqb s t)
    | _, _ => Ok false
    end
  end.

(* s.rstrip('}') *)
Definition rstrip_rbrace (s : str) : str :=
  rev ((fix go (r : str) : str := match r with c :: t => if is_rbrace c then go t else r | [] => [] end) (rev s)).
Definition is_terminator (c : char) : bool := N.eqb c 46 || N.eqb c 63 || N.eqb c 33.
Definition ends_with_terminator (s : str) : bool :=
  match rev (rstrip_rbrace s) with c :: _ => is_terminator c | [] => false end.

(* hashable(v): Function and Variable define __eq__ without __hash__ *)
Definition hashable (vars : list (str * obj)) (v : value) : bool :=
  match v with
  | VFun _ => false
  | VRef n => match alookup str_eqb n vars with
              | Some (OInt _) | Some (OStr _) | Some (OEInt _) | Some (OEStr _) => false
              | _ => true
              end
  | _ => true
  end.

(* ---------------------------------------------------------------------------------- *)
(* stack                                                                               *)
Definition push (v : value) (st : state) : state := set_stack st (v :: st_stack st).
(* Interpreter.pop: BibTeXError('pop from empty stack') *)
Definition pop (st : state) : res (value * state) :=
  match st_stack st with
  | [] => err
  | v :: r => Ok (v, set_stack st r)
  end.
Definition of_bool (b : bool) : value := VInt (if b then 1 else 0).

(* entry-variable frames: entry_vars[key] is created on first access; only its content matters *)
Definition frame (st : state) (key : str) : list (str * value) :=
  match alookup str_eqb key (st_evars st) with Some f => f | None => [] end.

(* the initial interpreter.vars: CaseInsensitiveDict(builtins) + global.max$, entry.max$, sort.key$ *)
Definition initial_vars : list (str * obj) := Eval vm_compute in
  [ (s2l ">", OBuiltin B_gt); (s2l "<", OBuiltin B_lt); (s2l "=", OBuiltin B_eq);
    (s2l "*", OBuiltin B_concat); (s2l ":=", OBuiltin B_assign); (s2l "+", OBuiltin B_plus);
    (s2l "-", OBuiltin B_minus); (s2l "add.period$", OBuiltin B_add_period);
    (s2l "call.type$", OBuiltin B_call_type); (s2l "change.case$", OBuiltin B_change_case);
    (s2l "chr.to.int$", OBuiltin B_chr_to_int); (s2l "cite$", OBuiltin B_cite);
    (s2l "duplicate$", OBuiltin B_duplicate); (s2l "empty$", OBuiltin B_empty);
    (s2l "format.name$", OBuiltin B_format_name); (s2l "if$", OBuiltin B_if);
    (s2l "int.to.chr$", OBuiltin B_int_to_chr); (s2l "int.to.str$", OBuiltin B_int_to_str);
    (s2l "missing$", OBuiltin B_missing); (s2l "newline$", OBuiltin B_newline);
    (s2l "num.names$", OBuiltin B_num_names); (s2l "pop$", OBuiltin B_pop);
    (s2l "preamble$", OBuiltin B_preamble); (s2l "purify$", OBuiltin B_purify);
    (s2l "quote$", OBuiltin B_quote); (s2l "skip$", OBuiltin B_skip);
    (s2l "substring$", OBuiltin B_substring); (s2l "stack$", OBuiltin B_stack);
    (s2l "swap$", OBuiltin B_swap); (s2l "text.length$", OBuiltin B_text_length);
    (s2l "text.prefix$", OBuiltin B_text_prefix); (s2l "top$", OBuiltin B_top);
    (s2l "type$", OBuiltin B_type); (s2l "warning$", OBuiltin B_warning);
    (s2l "while$", OBuiltin B_while); (s2l "width$", OBuiltin B_width);
    (s2l "write$", OBuiltin B_write);
    (s2l "global.max$", OInt (VInt 20000)); (s2l "entry.max$", OInt (VInt 250));
    (s2l "sort.key$", OEStr (s2l "sort.key$")) ].

Definition initial_state (cites : list str) (reads : list readres) : state :=
  mkSt [] initial_vars [] [] [] [] None cites None [] [] reads.

(* ---------------------------------------------------------------------------------- *)
Section Exec.
  Variable fmt_name : str -> str -> res str.   (* names.format_name(name, format) *)
  Variable cw : char -> Z.                     (* charwidths.get(c, 0) *)

  (* print(value, file=pybtex.io.stdout) / str(value) *)
  Definition py_str (v : value) : res str :=
    match v with
    | VInt z => Ok (Z_to_str z)
    | VStr s => Ok s
    | VMissing _ => Ok []
    | _ => Unmodelled
    end.

  (* builtins.py:166-176 _format_name, through memoize (arguments must be hashable) *)
  Definition format_name_call (vars : list (str * obj)) (names n format : value) : res value :=
    if negb (hashable vars names && hashable vars n && hashable vars format) then Crash else
    match as_str names, n with
    | Some ns, VInt k =>
      do parts <- split_name_list ns;
      if (1 <=? k) && (k <=? Z.of_nat (length parts)) then
        match as_str format with
        | Some f => do r <- fmt_name (nth (Z.to_nat (k - 1)) parts []) f; Ok (VStr r)
        | None => Crash
        end
      else err
    | _, _ => Crash
    end.

  (* Variable.set / EntryVariable.set (interpreter.py:46-56, 71-76) through ':=' *)
  Definition assign (st : state) (var value_ : value) : res state :=
    match var with
    | VRef n =>
      match alookup str_eqb n (st_vars st) with
      | Some (OInt _) =>
        match value_ with VInt _ => Ok (set_vars st (aset str_eqb n (OInt value_) (st_vars st))) | _ => Crash end
      | Some (OStr _) =>
        match as_str value_ with Some _ => Ok (set_vars st (aset str_eqb n (OStr value_) (st_vars st))) | None => Crash end
      | Some (OEInt name) =>
        match value_, st_cur st with
        | VInt _, Some (key, _) => Ok (set_evars st (aset str_eqb key (aset str_eqb name value_ (frame st key)) (st_evars st)))
        | _, _ => Crash
        end
      | Some (OEStr name) =>
        match as_str value_, st_cur st with
        | Some _, Some (key, _) => Ok (set_evars st (aset str_eqb key (aset str_eqb name value_ (frame st key)) (st_evars st)))
        | _, _ => Crash
        end
      | _ => Crash       (* no .set attribute *)
      end
    | _ => Crash
    end.

  (* Interpreter.newline (interpreter.py:216-220): ''.join(output_buffer) needs strings *)
  Fixpoint join_buffer (b : list value) : res str :=
    match b with
    | [] => Ok []
    | v :: r => match as_str v with Some s => do t <- join_buffer r; Ok (s ++ t) | None => Crash end
    end.
  Definition do_newline (st : state) : res state :=
    do text <- join_buffer (st_buf st);
    do w <- wrap text default_width default_indent;
    Ok (set_out st [] (st_lines st ++ [w; [c_nl]])).

  (* f.execute(i) for a value popped from the stack: Function runs its body, an interpreter
     object does what the identifier would do, int / str have no execute() *)
  Definition exec_value (rec : state -> list instr -> res state) (st : state) (v : value) : res state :=
    match v with
    | VFun body => rec st body
    | VRef n => rec st [IId n]
    | _ => Crash
    end.

  (* stack$: while i.stack: print(i.pop()) *)
  Fixpoint print_all (l : list value) : res str :=
    match l with
    | [] => Ok []
    | v :: r => do s <- py_str v; do t <- print_all r; Ok (s ++ [c_nl] ++ t)
    end.

  (* builtins.py:60-317, one case per @builtin *)
  Definition builtin_step (rec : state -> list instr -> res state)
             (wh : state -> value -> value -> res state) (b : builtin) (st : state) : res state :=
    match b with
    | B_gt =>
      do (a1, st) <- pop st; do (a2, st) <- pop st;
      match a2, a1 with
      | VInt x, VInt y => Ok (push (of_bool (y <? x)) st)
      | _, _ => match as_str a2, as_str a1 with
                | Some s, Some t => Ok (push (of_bool (str_ltb t s)) st)
                | _, _ => Crash
                end
      end
    | B_lt =>
      do (a1, st) <- pop st; do (a2, st) <- pop st;
      match a2, a1 with
      | VInt x, VInt y => Ok (push (of_bool (x <? y)) st)
      | _, _ => match as_str a2, as_str a1 with
                | Some s, Some t => Ok (push (of_bool (str_ltb s t)) st)
                | _, _ => Crash
                end
      end
    | B_eq =>
      do (a1, st) <- pop st; do (a2, st) <- pop st;
      do r <- py_eq (st_vars st) a2 a1; Ok (push (of_bool r) st)
    | B_concat | B_plus =>       (* both are arg2 + arg1 *)
      do (a1, st) <- pop st; do (a2, st) <- pop st;
      match a2, a1 with
      | VInt x, VInt y => Ok (push (VInt (x + y)) st)
      | _, _ => match as_str a2, as_str a1 with
                | Some s, Some t => Ok (push (VStr (s ++ t)) st)
                | _, _ => Crash
                end
      end
    | B_assign =>
      do (var, st) <- pop st; do (v, st) <- pop st; assign st var v
    | B_minus =>
      do (a1, st) <- pop st; do (a2, st) <- pop st;
      match a2, a1 with
      | VInt x, VInt y => Ok (push (VInt (x - y)) st)
      | _, _ => Crash
      end
    | B_add_period =>
      do (s, st) <- pop st;
      match s with
      | VInt 0 => Ok (push s st)
      | VMissing _ => Ok (push s st)
      | VStr t => match t with
                  | [] => Ok (push s st)
                  | _ => if ends_with_terminator t then Ok (push s st) else Ok (push (VStr (t ++ [46%N])) st)
                  end
      | _ => Crash
      end
    | B_call_type =>
      match st_cur st with
      | None => Crash
      | Some (_, e) =>
        match vlookup (e_type e) (st_vars st) with
        | Some _ => rec st [IId (e_type e)]
        | None =>
          let st := add_warn st [WType] in
          match vlookup nm_default_type (st_vars st) with
          | Some _ => rec st [IId nm_default_type]
          | None => Ok st
          end
        end
      end
    | B_change_case =>
      do (mode, st) <- pop st; do (s, st) <- pop st;
      match mode with
      | VInt 0 | VMissing _ | VStr [] => err
      | VStr (c :: _) =>
        let l := to_lower c in
        if N.eqb l 108 || N.eqb l 117 || N.eqb l 116 then
          match as_str s with
          | Some t => do r <- change_case t (if N.eqb l 108 then 0%nat else if N.eqb l 117 then 1%nat else 2%nat);
                      Ok (push (VStr r) st)
          | None => Crash
          end
        else err
      | _ => Crash
      end
    | B_chr_to_int =>
      do (s, st) <- pop st;
      match as_str s with
      | Some [c] => Ok (push (VInt (Z.of_N c)) st)
      | _ => err
      end
    | B_cite =>
      match st_cur st with
      | Some (key, _) => Ok (push (VStr key) st)
      | None => Crash
      end
    | B_duplicate => do (v, st) <- pop st; Ok (push v (push v st))
    | B_empty =>
      do (s, st) <- pop st;
      match s with
      | VInt 0 => Ok (push (VInt 1) st)
      | VInt _ | VFun _ | VRef _ => Crash
      | VMissing _ => Ok (push (VInt 1) st)
      | VStr t => Ok (push (of_bool (forallb is_space t)) st)
      end
    | B_format_name =>
      do (format, st) <- pop st; do (n, st) <- pop st; do (names, st) <- pop st;
      do r <- format_name_call (st_vars st) names n format; Ok (push r st)
    | B_if =>
      do (f1, st) <- pop st; do (f2, st) <- pop st; do (p, st) <- pop st;
      match p with
      | VInt z => if 0 <? z then exec_value rec st f2 else exec_value rec st f1
      | _ => Crash
      end
    | B_int_to_chr =>
      do (n, st) <- pop st;
      match n with
      | VInt z =>      (* chr(): ValueError / OverflowError outside range(0x110000) -> BibTeXError *)
        if (z <? 0) || (1114111 <? z) then err
        else Ok (push (VStr [Z.to_N z]) st)
      | _ => Crash
      end
    | B_int_to_str => do (v, st) <- pop st; do s <- py_str v; Ok (push (VStr s) st)
    | B_missing =>
      do (f, st) <- pop st;
      Ok (push (of_bool (match f with VMissing _ => true | _ => false end)) st)
    | B_newline => do_newline st
    | B_num_names =>
      do (names, st) <- pop st;
      match as_str names with
      | Some ns => do parts <- split_name_list ns; Ok (push (VInt (Z.of_nat (length parts))) st)
      | None => Crash
      end
    | B_pop => do (_, st) <- pop st; Ok st
    | B_preamble =>
      match st_db st with
      | Some d => Ok (push (VStr (r_preamble d)) st)
      | None => Crash
      end
    | B_purify =>
      do (s, st) <- pop st;
      match as_str s with
      | Some t => do r <- bibtex_purify t; Ok (push (VStr r) st)
      | None => Crash
      end
    | B_quote => Ok (push (VStr [c_quote]) st)
    | B_skip => Ok st
    | B_substring =>
      do (len, st) <- pop st; do (start, st) <- pop st; do (s, st) <- pop st;
      match start with
      | VInt 0 => Ok (push (VStr []) st)
      | VInt a =>
        match len, as_str s with
        | VInt l, Some t => Ok (push (VStr (bibtex_substring t a l)) st)
        | _, _ => Crash
        end
      | _ => Crash
      end
    | B_stack =>
      do t <- print_all (st_stack st); Ok (add_print (set_stack st []) t)
    | B_swap =>
      do (t1, st) <- pop st; do (t2, st) <- pop st; Ok (push t2 (push t1 st))
    | B_text_length =>
      do (s, st) <- pop st;
      match as_str s with
      | Some t => do n <- bibtex_len t; Ok (push (VInt (Z.of_nat n)) st)
      | None => Crash
      end
    | B_text_prefix =>
      do (l, st) <- pop st; do (s, st) <- pop st;
      match l with
      | VInt n =>
        if 0 <? n then
          match as_str s with
          | Some t => do r <- bibtex_prefix t n; Ok (push (VStr r) st)
          | None => Crash
          end
        else Ok (push (VStr []) st)
      | _ => Crash
      end
    | B_top =>
      do (v, st) <- pop st; do s <- py_str v; Ok (add_print st (s ++ [c_nl]))
    | B_type =>
      match st_cur st with
      | Some (_, e) => Ok (push (VStr (e_type e)) st)
      | None => Crash
      end
    | B_warning => do (msg, st) <- pop st; Ok (add_warn st [WUser msg])
    | B_while => do (f, st) <- pop st; do (p, st) <- pop st; wh st p f
    | B_width =>
      do (s, st) <- pop st;
      match as_str s with
      | Some t => do w <- bibtex_width cw t; Ok (push (VInt w) st)
      | None => Crash
      end
    | B_write => do (s, st) <- pop st; Ok (set_out st (st_buf st ++ [s]) (st_lines st))
    end.

  (* .execute(interpreter) of the object an identifier names (interpreter.py:56, 108, 166) *)
  Definition exec_obj (rec : state -> list instr -> res state)
             (wh : state -> value -> value -> res state) (o : obj) (st : state) : res state :=
    match o with
    | OBuiltin b => builtin_step rec wh b st
    | OInt v | OStr v => Ok (push v st)
    | OEInt name =>
      match st_cur st with
      | Some (key, _) => Ok (push (match alookup str_eqb name (frame st key) with Some v => v | None => VInt 0 end) st)
      | None => Crash
      end
    | OEStr name =>
      match st_cur st with
      | Some (key, _) => Ok (push (match alookup str_eqb name (frame st key) with Some v => v | None => VStr [] end) st)
      | None => Crash
      end
    | OField name =>
      match st_db st, st_cur st with
      | Some _, Some (_, e) =>
        Ok (push (match alookup str_eqb (lower name) (e_fields e) with Some v => VStr v | None => VMissing name end) st)
      | _, _ => Crash
      end
    | OCrossref =>
      match st_cur st with
      | Some (_, e) =>
        Ok (push (match e_crossref e with Some k => VStr k | None => VMissing nm_crossref end) st)
      | None => Crash
      end
    | OFun body => rec st body
    end.

  (* element.execute(interpreter) for one parsed element *)
  Definition step (rec : state -> list instr -> res state)
             (wh : state -> value -> value -> res state) (st : state) (i : instr) : res state :=
    match i with
    | IInt z => Ok (push (VInt z) st)
    | IStr s => Ok (push (VStr s) st)
    | IFun body => Ok (push (VFun body) st)
    | IQuote name =>                      (* QuotedVar.execute *)
      match vlookup name (st_vars st) with
      | None => err
      | Some (OFun body) => Ok (push (VFun body) st)
      | Some _ => Ok (push (VRef (lower name)) st)
      end
    | IId name =>                         (* Identifier.execute *)
      match vlookup name (st_vars st) with
      | None => err
      | Some o => exec_obj rec wh o st
      end
    end.

  (* Function.execute: for element in body: element.execute(interpreter); one unit of fuel per
     element; while$ loops on the same fuel *)
  Fixpoint exec (fuel : nat) (st : state) (p : list instr) {struct fuel} : res state :=
    match p with
    | [] => Ok st
    | i :: r =>
      match fuel with
      | O => OutOfFuel
      | S f => do st' <- step (exec f) (while_loop f) st i; exec f st' r
      end
    end
  with while_loop (fuel : nat) (st : state) (pv fv : value) {struct fuel} : res state :=
    match fuel with
    | O => OutOfFuel
    | S f =>
      do st1 <- exec_value (exec f) st pv;
      do (v, st2) <- pop st1;
      match v with
      | VInt z => if z <=? 0 then Ok st2
                  else do st3 <- exec_value (exec f) st2 fv; while_loop f st3 pv fv
      | _ => Crash
      end
    end.

  (* ---------------------------------------------------------------------------------- *)
  (* commands (interpreter.py:222-320)                                                   *)

  (* literal.value(): FunctionLiteral has no value() -> AttributeError *)
  Definition lit_of (i : instr) : res lit :=
    match i with
    | IInt z => Ok (LInt z)
    | IStr s | IId s | IQuote s => Ok (LStr s)
    | IFun _ => Crash
    end.
  (* a variable name: `name in self.vars` / self.vars[name] call name.lower() *)
  Definition name_of (i : instr) : res str :=
    do l <- lit_of i; match l with LStr s => Ok s | LInt _ => Crash end.
  Definition first_of (g : list instr) : res instr :=
    match g with i :: _ => Ok i | [] => Crash end.     (* group[0]: IndexError *)

  (* Interpreter.add_variable *)
  Definition add_variable (st : state) (name : str) (o : obj) : res state :=
    match vlookup name (st_vars st) with
    | Some _ => err
    | None => Ok (set_vars st (vset name o (st_vars st)))
    end.

  Fixpoint declare (mk : str -> obj) (ids : list instr) (st : state) : res state :=
    match ids with
    | [] => Ok st
    | i :: r => do n <- name_of i; do st' <- add_variable st n (mk n); declare mk r st'
    end.
  (* command_integers / command_strings (after fix C03-F2): add_variable, like ENTRY and FUNCTION -- a name that is
     already bound is BibTeX's "already declared" error *)
  Definition declare_global (o : obj) (ids : list instr) (st : state) : res state := declare (fun _ => o) ids st.

  (* Interpreter._iterate *)
  Fixpoint iterate (fuel : nat) (fname : str) (keys : list str) (st : state) : res state :=
    match keys with
    | [] => Ok st
    | key :: r =>
      match st_db st with
      | None => Crash
      | Some d =>
        match alookup str_eqb key (r_entries d) with
        | None => Crash
        | Some e => do st' <- exec fuel (set_cur st (Some (key, e))) [IId fname]; iterate fuel fname r st'
        end
      end
    end.

  (* command_sort: list.sort(key=...) is stable; keys are computed first (KeyError if unset) *)
  Fixpoint sort_keys (st : state) (keys : list str) : res (list (str * str)) :=
    match keys with
    | [] => Ok []
    | k :: r =>
      match alookup str_eqb nm_sort_key_ (frame st k) with
      | Some v => match as_str v with
                  | Some s => do t <- sort_keys st r; Ok ((s, k) :: t)
                  | None => Crash
                  end
      | None => Crash
      end
    end.
  Fixpoint insert_sorted (x : str * str) (l : list (str * str)) : list (str * str) :=
    match l with
    | [] => [x]
    | y :: r => if str_leb (fst x) (fst y) then x :: l else y :: insert_sorted x r
    end.
  Definition stable_sort (l : list (str * str)) : list (str * str) := fold_right insert_sorted [] l.

  Definition run_command (fuel : nat) (st : state) (c : command) : res state :=
    let '(Cmd name args) := c in
    let n := lower name in
    if str_eqb n nm_entry then
      match args with
      | [fields; ints; strings] =>
        do st <- declare OField fields st;
        do st <- add_variable st nm_crossref OCrossref;
        do st <- declare OEInt ints st;
        declare OEStr strings st
      | _ => Crash
      end
    else if str_eqb n nm_execute then
      match args with
      | [g] => do i <- first_of g; exec fuel st [i]
      | _ => Crash
      end
    else if str_eqb n nm_function then
      match args with
      | [g; body] => do i <- first_of g; do nm <- lit_of i;
                     match nm with LStr s => add_variable st s (OFun body) | LInt _ => Crash end
      | _ => Crash
      end
    else if str_eqb n nm_integers then
      match args with [ids] => declare_global (OInt (VInt 0)) ids st | _ => Crash end
    else if str_eqb n nm_strings then
      match args with [ids] => declare_global (OStr (VStr [])) ids st | _ => Crash end
    else if str_eqb n nm_iterate || str_eqb n nm_reverse then
      match args with
      | [g] =>
        do i <- first_of g; do f <- name_of i;
        match vlookup f (st_vars st) with
        | None => Crash                       (* self.vars[function]: KeyError *)
        | Some _ => iterate fuel f (if str_eqb n nm_reverse then rev (st_cites st) else st_cites st) st
        end
      | _ => Crash
      end
    else if str_eqb n nm_macro then
      match args with
      | [g1; g2] => do i1 <- first_of g1; do k <- lit_of i1; do i2 <- first_of g2; do v <- lit_of i2;
                    Ok (set_macros st (aset lit_eqb k v (st_macros st)))
      | _ => Crash
      end
    else if str_eqb n nm_read then
      match args with
      | [] =>
        match st_reads st with
        | [] => Unmodelled
        | d :: more =>
          Ok (add_warn (set_cites (set_db st (Some d) more) (r_cites d)) (repeat WRead (r_warnings d)))
        end
      | _ => Crash
      end
    else if str_eqb n nm_sort then
      match args with
      | [] => do ks <- sort_keys st (st_cites st); Ok (set_cites st (map snd (stable_sort ks)))
      | _ => Crash
      end
    else Ok st.     (* print('Unknown command', name) -- the parser never yields one *)

  (* Interpreter.run: the returned text is ''.join(output_lines) *)
  Fixpoint run (fuel : nat) (st : state) (cs : list command) : res state :=
    match cs with
    | [] => Ok st
    | c :: r => do st' <- run_command fuel st c; run fuel st' r
    end.
  Definition output_of (st : state) : str := concat (st_lines st).
End Exec.
