(* Model/Styles.v -- label styles, sorting styles and BaseStyle of the Python engine (property C07).
   Mirrors /repo HEAD:
     pybtex/style/formatting/__init__.py:37-91   BaseStyle.format_entries / format_entry / format_bibliography
     pybtex/style/labels/number.py:27-34         number LabelStyle.format_labels
     pybtex/style/labels/alpha.py:40-180         _strip_nonalnum / _abbr / alpha LabelStyle.*
     pybtex/textutils.py:100-118                 abbreviate
     pybtex/style/sorting/__init__.py:26-31      BaseSortingStyle.sort (sorted(entries, key=...), stable)
     pybtex/style/sorting/author_year_title.py:27-56, none.py:27-30
   Citation resolution (add_extra_citations, the missing-entry report) is the C05 model
   Model/Citations.v.  No proofs here. *)
From Pybtex Require Import Base.Prelude Base.PyChar Base.PyStr Model.RtTypes Model.Citations Model.Template.


(* ------------------------------------------------------------------------------ *)
(* str(number): decimal digits of a nat *)
Fixpoint uint_str (u : Decimal.uint) : str :=
  match u with
  | Decimal.Nil => []
  | Decimal.D0 r => 48%N :: uint_str r | Decimal.D1 r => 49%N :: uint_str r
  | Decimal.D2 r => 50%N :: uint_str r | Decimal.D3 r => 51%N :: uint_str r
  | Decimal.D4 r => 52%N :: uint_str r | Decimal.D5 r => 53%N :: uint_str r
  | Decimal.D6 r => 54%N :: uint_str r | Decimal.D7 r => 55%N :: uint_str r
  | Decimal.D8 r => 56%N :: uint_str r | Decimal.D9 r => 57%N :: uint_str r
  end.
Definition nat_str (n : nat) : str := uint_str (Nat.to_uint n).

(* number LabelStyle.format_labels: str(number + 1) for number, entry in enumerate(sorted_entries) *)
Definition number_labels {X} (es : list X) : list str := map nat_str (seq 1 (length es)).

(* ------------------------------------------------------------------------------ *)
(* textutils.abbreviate(text): ''.join(abbreviate(part) for part in delimiter_re.split(text)),
   delimiter_re = ([\s\-]) -- the delimiters are pieces too; a piece with str.isalpha() becomes
   part[0] + '.' *)
Fixpoint split_delim (s acc : str) : list str :=
  match s with
  | [] => [rev acc]
  | c :: t =>
    if is_space c || N.eqb c c_hyphen
    then rev acc :: [c] :: split_delim t []
    else split_delim t (c :: acc)
  end.
Definition str_isalpha (s : str) : bool := negb (is_nil s) && forallb is_alpha s.
Definition abbreviate_part (p : str) : str :=
  match p with
  | c :: _ => if forallb is_alpha p then [c; 46%N] else p
  | [] => []
  end.
Definition abbreviate (s : str) : str := concat (map abbreviate_part (split_delim s [])).

(* _strip_nonalnum(parts): _nonalnum_pattern.sub('', _strip_accents(''.join(parts))) with
   _nonalnum_pattern = [^A-Za-z0-9]+ ; _strip_accents is the identity on the modelled domain
   (ASCII, whitespace, non-letter symbols: whatever it leaves of them is removed by the pattern) *)
Definition strip_nonalnum (parts : list str) : str := filter is_alnum (concat parts).
(* _abbr *)
Definition abbr_all (parts : list str) : list str := map abbreviate parts.

Definition s_others : str := [111; 116; 104; 101; 114; 115]%N.   (* "others" *)
Definition s_author : str := [97; 117; 116; 104; 111; 114]%N.
Definition s_editor : str := [101; 100; 105; 116; 111; 114]%N.
Definition s_key : str := [107; 101; 121]%N.
Definition s_year : str := [121; 101; 97; 114]%N.
Definition s_title : str := [116; 105; 116; 108; 101]%N.
Definition s_organization : str := [111; 114; 103; 97; 110; 105; 122; 97; 116; 105; 111; 110]%N.
Definition s_book : str := [98; 111; 111; 107]%N.
Definition s_inbook : str := [105; 110; 98; 111; 111; 107]%N.
Definition s_proceedings : str := [112; 114; 111; 99; 101; 101; 100; 105; 110; 103; 115]%N.
Definition s_manual : str := [109; 97; 110; 117; 97; 108]%N.
Definition s_The_ : str := [84; 104; 101; 32]%N.                  (* "The " *)
Definition c_plus : char := 43%N.

Definition lab_name (p : person) : str := strip_nonalnum (abbr_all (p_prelast p ++ p_last p)).

(* format_lab_names (alpha.py:142-180): the while loop over the first namesleft persons *)
Fixpoint lab_loop (persons : list person) (nameptr numnames namesleft : nat) : str :=
  match namesleft, persons with
  | S nl, p :: r =>
    (if Nat.eqb nameptr numnames && str_eqb (person_str p) s_others then [c_plus] else lab_name p)
    ++ lab_loop r (S nameptr) numnames nl
  | _, _ => []
  end.
Definition format_lab_names (persons : list person) : res str :=
  let numnames := length persons in
  if Nat.ltb 1 numnames then
    let namesleft := if Nat.ltb 4 numnames then 3 else numnames in
    Ok (lab_loop persons 1 numnames namesleft ++ (if Nat.ltb 4 numnames then [c_plus] else []))
  else
    match persons with
    | [] => Crash                             (* persons[0]: IndexError *)
    | p :: _ =>
      let r := lab_name p in
      if Nat.ltb (length r) 2 then Ok (firstn 3 (strip_nonalnum (p_last p))) else Ok r
    end.

(* the four selectors (alpha.py:84-140) *)
Definition key3 (e : entry) : str :=
  match ci_get s_key (e_fields e) with
  | None => firstn 3 (e_key e)
  | Some k => firstn 3 k
  end.
Definition author_key_label (e : entry) : res str :=
  match ci_get s_author (e_persons e) with
  | None => Ok (key3 e)
  | Some ps => format_lab_names ps
  end.
Definition author_editor_key_label (e : entry) : res str :=
  match ci_get s_author (e_persons e) with
  | None =>
    match ci_get s_editor (e_persons e) with
    | None => Ok (key3 e)
    | Some ps => format_lab_names ps
    end
  | Some ps => format_lab_names ps
  end.
Definition org_label (e : entry) : str :=
  match ci_get s_key (e_fields e) with
  | Some k => firstn 3 k
  | None =>
    match ci_get s_organization (e_fields e) with
    | None => firstn 3 (e_key e)
    | Some o => if startswith o s_The_ then skipn 4 o else o
    end
  end.
Definition author_key_organization_label (e : entry) : res str :=
  match ci_get s_author (e_persons e) with
  | None => Ok (org_label e)
  | Some ps => format_lab_names ps
  end.
Definition editor_key_organization_label (e : entry) : res str :=
  match ci_get s_editor (e_persons e) with
  | None => Ok (org_label e)
  | Some ps => format_lab_names ps
  end.

(* format_label (alpha.py:71-82) *)
Definition last2 (s : str) : str := skipn (length s - 2) s.       (* s[-2:] *)
Definition format_label (e : entry) : res str :=
  do l <- (if str_eqb (e_type e) s_book || str_eqb (e_type e) s_inbook then author_editor_key_label e
           else if str_eqb (e_type e) s_proceedings then editor_key_organization_label e
           else if str_eqb (e_type e) s_manual then author_key_organization_label e
           else author_key_label e);
  match ci_get s_year (e_fields e) with
  | Some y => Ok (l ++ last2 y)
  | None => Ok l
  end.

(* format_labels (alpha.py:61-69): Counter(labels); a label that occurs more than once gets
   chr(ord('a') + number of its earlier occurrences) appended *)
Definition count_occ_str (l : list str) (x : str) : nat := length (filter (str_eqb x) l).
Fixpoint suffix_loop (all : list str) (todo seen : list str) : list str :=
  match todo with
  | [] => []
  | l :: r =>
    (if Nat.eqb (count_occ_str all l) 1 then l
     else l ++ [(97 + N.of_nat (count_occ_str seen l))%N])
    :: suffix_loop all r (if Nat.eqb (count_occ_str all l) 1 then seen else l :: seen)
  end.
Definition disambiguate (labels : list str) : list str := suffix_loop labels labels [].

Fixpoint mapR {X Y} (f : X -> res Y) (l : list X) : res (list Y) :=
  match l with
  | [] => Ok []
  | x :: r => do y <- f x; do ys <- mapR f r; Ok (y :: ys)
  end.
Definition alpha_labels (es : list entry) : res (list str) :=
  do ls <- mapR format_label es; Ok (disambiguate ls).

(* ------------------------------------------------------------------------------ *)
(* sorting *)

(* person_key / persons_key (author_year_title.py:40-48) *)
Definition sp2 : str := [32; 32]%N.
Definition sp3 : str := [32; 32; 32]%N.
Definition person_key (p : person) : str :=
  lower (join sp2 [join [c_space] (p_prelast p ++ p_last p);
                   join [c_space] (p_first p ++ p_middle p);
                   join [c_space] (p_lineage p)]).
Definition persons_key (ps : list person) : str := join sp3 (map person_key ps).

(* author_editor_key (50-56): persons.get(...) must be truthy (a non-empty list) *)
Definition nonempty_get (role : str) (e : entry) : option (list person) :=
  match ci_get role (e_persons e) with
  | Some (p :: r) => Some (p :: r)
  | _ => None
  end.
Definition author_editor_key (e : entry) : str :=
  match nonempty_get s_author e with
  | Some ps => persons_key ps
  | None => match nonempty_get s_editor e with Some ps => persons_key ps | None => [] end
  end.

(* sorting_key (29-36) *)
Definition sortkey := (str * str * str)%type.
Definition sorting_key (e : entry) : sortkey :=
  let ak := if str_eqb (e_type e) s_book || str_eqb (e_type e) s_inbook then author_editor_key e
            else match ci_get s_author (e_persons e) with Some ps => persons_key ps | None => [] end in
  (ak,
   match ci_get s_year (e_fields e) with Some y => y | None => [] end,
   match ci_get s_title (e_fields e) with Some t => t | None => [] end).

(* Python's order on str (code points, lexicographic) and on tuples *)
Fixpoint str_leb (a b : str) : bool :=
  match a, b with
  | [], _ => true
  | _ :: _, [] => false
  | x :: a', y :: b' => if N.ltb x y then true else if N.ltb y x then false else str_leb a' b'
  end.
Definition key_leb (a b : sortkey) : bool :=
  let '(a1, a2, a3) := a in let '(b1, b2, b3) := b in
  if str_eqb a1 b1 then (if str_eqb a2 b2 then str_leb a3 b3 else str_leb a2 b2) else str_leb a1 b1.

(* sorted(entries, key=f): the stable sort (insertion after the elements that are <=) *)
Fixpoint insert_by {X} (le : X -> X -> bool) (x : X) (l : list X) : list X :=
  match l with
  | [] => [x]
  | y :: r => if le y x then y :: insert_by le x r else x :: y :: r
  end.
(* fold from the right so that among equal keys the earlier element ends up first *)
Fixpoint sort_by {X} (le : X -> X -> bool) (l : list X) : list X :=
  match l with
  | [] => []
  | x :: r => insert_by (fun a b => negb (le b a)) x (sort_by le r)
  end.

Inductive sstyle := SNone | SAuthorYearTitle.
Inductive lstyle := LNumber | LAlpha.

Definition sort_entries (s : sstyle) (es : list entry) : list entry :=
  match s with
  | SNone => es
  | SAuthorYearTitle => sort_by (fun a b => key_leb (sorting_key a) (sorting_key b)) es
  end.

Definition format_labels (l : lstyle) (es : list entry) : res (list str) :=
  match l with
  | LNumber => Ok (number_labels es)
  | LAlpha => alpha_labels es
  end.

(* ------------------------------------------------------------------------------ *)
(* BaseStyle *)
Record config := mkCfg {
  cf_sort : sstyle; cf_label : lstyle; cf_names : nstyle; cf_abbr : bool; cf_mincross : Z; cf_strict : bool }.

Definition lift {X} (r : res X) : tres X :=
  match r with Ok v => TOk v | PyErr _ _ => TErr | Crash => TCrash | OutOfFuel => TFuel end.

(* the template of an entry: get_<type>_template(entry), dumped by the harness; None = the style has
   neither get_<type>_template nor format_<type> (AttributeError) *)
Definition templates := list (str * option tnode).
Definition template_of (tp : templates) (e : entry) : option tnode :=
  match find (fun p => str_eqb (fst p) (e_key e)) tp with
  | Some (_, t) => t
  | None => None
  end.

Definition fentry := (str * str * ftext)%type.    (* FormattedEntry(key, text, label) as (key, label, text) *)

(* format_entry (formatting/__init__.py:57-70) *)
Definition format_entry (cf : config) (tbl : dectable) (tp : templates) (db : option (list entry))
  (label : str) (e : entry) : tres fentry :=
  match template_of tp e with
  | None => TCrash
  | Some t =>
    dot f <- eval_top (mkC e db tbl (cf_names cf) (cf_abbr cf)) t;
    TOk (e_key e, label, f)
  end.

(* format_entries (51-55): sort, label, format in that order *)
Definition format_entries (cf : config) (tbl : dectable) (tp : templates) (db : option (list entry))
  (es : list entry) : tres (list fentry) :=
  let sorted := sort_entries (cf_sort cf) es in
  dot labels <- lift (format_labels (cf_label cf) sorted);
  tmapM (fun le => format_entry cf tbl tp db (fst le) (snd le)) (combine labels sorted).

(* the view of the database Model/Citations.v works on: (stored key, crossref field) *)
Definition edict_of (db : list entry) : edict :=
  map (fun e => (e_key e, ci_get s_crossref (e_fields e))) db.

(* the entries handed to format_entries: bib_data.entries[key] for the resolved citations *)
Definition resolved (db : list entry) (cites : option (list str)) (m : Z) : list str * list report :=
  format_bibliography_raw (edict_of db) cites m.
Definition entries_of (db : list entry) (keys : list str) : list entry :=
  flat_map (fun k => match db_get k db with Some e => [e] | None => [] end) keys.

(* format_bibliography (72-91): in strict mode (pybtex.errors.strict, the default) the first report
   (bad cross-reference, missing database entry) is raised *)
Definition format_bibliography (cf : config) (tbl : dectable) (tp : templates) (db : list entry)
  (cites : option (list str)) : tres (list fentry) :=
  let '(keys, reports) := resolved db cites (cf_mincross cf) in
  if cf_strict cf && negb (is_nil reports) then TErr
  else format_entries cf tbl tp (Some db) (entries_of db keys).
