(* Model/CIDict.v -- pybtex/utils.py:80-379
     CaseInsensitiveDict, CaseInsensitiveDefaultDict, OrderedCaseInsensitiveDict, CaseInsensitiveSet
   together with the collections.abc MutableMapping / MutableSet mix-ins they inherit
   (CPython 3.12 Lib/_collections_abc.py), function by function.

   Keys are an abstract type K with `lower : K -> K` and a boolean equality; values an abstract
   type V.  A Python dict (insertion ordered since CPython 3.7; OrderedDict behaves the same for
   the operations used here) is an association list with CPython's semantics: assignment to an
   existing key keeps its position, assignment to a new key appends, deletion removes.
   No proofs in this file. *)
From Pybtex Require Import Base.Prelude.

(* the Python exceptions the modelled code can raise (both are `Crash` on the wire) *)
Inductive exn := KeyError | TypeError.
Inductive eres (A : Type) : Type := EOk (a : A) | EExn (e : exn).
Arguments EOk {A} a.
Arguments EExn {A} e.

Definition ebind {A B} (r : eres A) (f : A -> eres B) : eres B :=
  match r with EOk a => f a | EExn e => EExn e end.

Definition eres_to_res {A} (r : eres A) : res A :=
  match r with EOk a => Ok a | EExn _ => Crash end.

Section CI.
Variables K V : Type.
Variable keqb : K -> K -> bool.
Variable lower : K -> K.           (* str.lower *)
Variable ksort : list K -> list K. (* sorted() on keys, used by CaseInsensitiveSet.__repr__ only *)

(* ------------------------------------------------------------------ Python dict *)
Section AL.
Context {X : Type}.
Definition alist := list (K * X).

(* d[k]  (None = KeyError) *)
Fixpoint al_get (k : K) (l : alist) : option X :=
  match l with
  | [] => None
  | (k', x) :: r => if keqb k k' then Some x else al_get k r
  end.
(* k in d *)
Definition al_mem (k : K) (l : alist) : bool :=
  match al_get k l with Some _ => true | None => false end.
(* d[k] = x : overwrite keeps the position (and the stored key object), a new key is appended *)
Fixpoint al_set (k : K) (x : X) (l : alist) : alist :=
  match l with
  | [] => [(k, x)]
  | (k', x') :: r => if keqb k k' then (k', x) :: r else (k', x') :: al_set k x r
  end.
(* removal of the (unique) binding of k *)
Fixpoint al_remove (k : K) (l : alist) : alist :=
  match l with
  | [] => []
  | (k', x') :: r => if keqb k k' then r else (k', x') :: al_remove k r
  end.
(* del d[k]  (None = KeyError) *)
Definition al_del (k : K) (l : alist) : option alist :=
  if al_mem k l then Some (al_remove k l) else None.
(* dict(pairs) *)
Definition py_dict (pairs : list (K * X)) : alist :=
  fold_left (fun acc p => al_set (fst p) (snd p) acc) pairs [].
End AL.

(* ------------------------------------------------------------------ the mapping classes *)
Inductive cls := ClsPlain | ClsOrdered | ClsDefault.

(* self.default_factory: absent (plain / ordered) or a callable returning d *)
Inductive factory := FacNone | FacVal (d : V).

Record cid := mkcid {
  c_cls : cls;
  c_dict : list (K * V);    (* self._dict : lower-cased key -> value      (utils.py:144) *)
  c_keys : list (K * K);    (* self._keys : lower-cased key -> spelling   (utils.py:145, 285) *)
  c_fac : factory
}.

Definition upd (c : cid) (d : list (K * V)) (ks : list (K * K)) : cid :=
  mkcid (c_cls c) d ks (c_fac c).

(* __setitem__ utils.py:153-157 *)
Definition ci_setitem (c : cid) (k : K) (v : V) : cid :=
  let kl := lower k in upd c (al_set kl v (c_dict c)) (al_set kl k (c_keys c)).
(* MutableMapping.update(other) with an iterable of pairs (or a mapping, which is iterated the same way):
   for key, value in other: self[key] = value *)
Definition ci_update (c : cid) (kvs : list (K * V)) : cid :=
  fold_left (fun acc p => ci_setitem acc (fst p) (snd p)) kvs c.
(* CaseInsensitiveDict.__init__ utils.py:142-145 / OrderedCaseInsensitiveDict.__init__ utils.py:282-285:
     self._dict = {}; self._keys = {} (OrderedDict()); self.update(args)  -- the pairs are inserted in order *)
Definition ci_init (c : cls) (pairs : list (K * V)) : cid :=
  ci_update (mkcid c [] [] FacNone) pairs.
(* CaseInsensitiveDefaultDict.__init__ utils.py:202-204 *)
Definition default_init (f : factory) : cid := mkcid ClsDefault [] [] f.

(* __len__ utils.py:147 *)
Definition ci_len (c : cid) : nat := length (c_dict c).
(* __iter__ utils.py:150 : iter(self._keys.values()) *)
Definition ci_iter (c : cid) : list K := map snd (c_keys c).
(* CaseInsensitiveDict.__getitem__ utils.py:159-160 *)
Definition base_getitem (c : cid) (k : K) : eres V :=
  match al_get (lower k) (c_dict c) with Some v => EOk v | None => EExn KeyError end.
(* CaseInsensitiveDefaultDict.__getitem__ utils.py:206-210: except KeyError: return self.default_factory() *)
Definition ci_getitem (c : cid) (k : K) : eres V :=
  match c_cls c with
  | ClsDefault =>
    match base_getitem c k with
    | EExn KeyError =>
      match c_fac c with
      | FacVal d => EOk d
      | FacNone => EExn TypeError      (* no default_factory: unreachable through the constructors *)
      end
    | r => r
    end
  | _ => base_getitem c k
  end.
(* __delitem__ utils.py:162-165: two separate `del`s; the first may succeed and the second raise *)
Definition ci_delitem (c : cid) (k : K) : cid * eres unit :=
  let kl := lower k in
  match al_del kl (c_dict c) with
  | None => (c, EExn KeyError)
  | Some d' =>
    match al_del kl (c_keys c) with
    | None => (upd c d' (c_keys c), EExn KeyError)
    | Some ks' => (upd c d' ks', EOk tt)
    end
  end.
(* __contains__ utils.py:167-168 *)
Definition ci_contains (c : cid) (k : K) : bool := al_mem (lower k) (c_dict c).

(* Mapping.items() -> ItemsView.__iter__: for key in self: yield (key, self[key]) *)
Fixpoint items_of (c : cid) (ks : list K) : eres (list (K * V)) :=
  match ks with
  | [] => EOk []
  | k :: r => ebind (ci_getitem c k) (fun v => ebind (items_of c r) (fun t => EOk ((k, v) :: t)))
  end.
Definition ci_items (c : cid) : eres (list (K * V)) := items_of c (ci_iter c).
(* Mapping.values() *)
Definition ci_values (c : cid) : eres (list V) := ebind (ci_items c) (fun l => EOk (map snd l)).

(* __repr__: the data that is printed.
   CaseInsensitiveDict.__repr__ utils.py:170-175: dict((key, self[key]) for key in self)  -- a dict keyed by spelling
   OrderedCaseInsensitiveDict.__repr__ utils.py:287-290: list(self.items()) *)
Definition ci_repr_data (c : cid) : eres (list (K * V)) :=
  match c_cls c with
  | ClsOrdered => ci_items c
  | _ => ebind (ci_items c) (fun l => EOk (py_dict l))
  end.

(* items_lower utils.py:177-178 *)
Definition ci_items_lower (c : cid) : eres (list (K * V)) :=
  ebind (ci_items c) (fun l => EOk (map (fun p => (lower (fst p), snd p)) l)).
(* CaseInsensitiveDict.lower utils.py:180-181: type(self)(self.items_lower())
   CaseInsensitiveDefaultDict.lower utils.py:218-221: result = type(self)(self.default_factory);
     result.update(self.items_lower()); return result *)
Definition ci_lower (c : cid) : eres cid :=
  match c_cls c with
  | ClsDefault => ebind (ci_items_lower c) (fun l => EOk (ci_update (default_init (c_fac c)) l))
  | k => ebind (ci_items_lower c) (fun l => EOk (ci_init k l))
  end.

(* ---- collections.abc mix-ins *)
(* Mapping.get: try: return self[key] except KeyError: return default *)
Definition ci_get (c : cid) (k : K) (d : option V) : eres (option V) :=
  match ci_getitem c k with
  | EOk v => EOk (Some v)
  | EExn KeyError => EOk d
  | EExn e => EExn e
  end.
(* MutableMapping.pop:
     try: value = self[key]
     except KeyError: if default is marker: raise; return default
     else: del self[key]; return value *)
Definition base_pop (c : cid) (k : K) (d : option V) : cid * eres V :=
  match ci_getitem c k with
  | EOk v =>
    match ci_delitem c k with
    | (c', EOk _) => (c', EOk v)
    | (c', EExn e) => (c', EExn e)
    end
  | EExn KeyError => (c, match d with Some dv => EOk dv | None => EExn KeyError end)
  | EExn e => (c, EExn e)
  end.
(* CaseInsensitiveDefaultDict.pop utils.py:213-216:
     if default and key not in self: return default[0]
     return super().pop(key)          -- WITHOUT the default *)
Definition ci_pop (c : cid) (k : K) (d : option V) : cid * eres V :=
  match c_cls c with
  | ClsDefault =>
    match d with
    | Some dv => if ci_contains c k then base_pop c k None else (c, EOk dv)
    | None => base_pop c k None
    end
  | _ => base_pop c k d
  end.
(* MutableMapping.popitem: key = next(iter(self)) (StopIteration -> KeyError); value = self[key]; del self[key] *)
Definition ci_popitem (c : cid) : cid * eres (K * V) :=
  match ci_iter c with
  | [] => (c, EExn KeyError)
  | k :: _ =>
    match ci_getitem c k with
    | EExn e => (c, EExn e)
    | EOk v =>
      match ci_delitem c k with
      | (c', EOk _) => (c', EOk (k, v))
      | (c', EExn e) => (c', EExn e)
      end
    end
  end.
(* MutableMapping.clear: try: while True: self.popitem() except KeyError: pass.
   Every successful popitem shortens _keys, so fuel = len(_keys)+1 always suffices. *)
Fixpoint clear_loop (fuel : nat) (c : cid) : cid * eres unit :=
  match fuel with
  | O => (c, EOk tt)     (* unreachable with the fuel given by ci_clear *)
  | S f =>
    match ci_popitem c with
    | (c', EOk _) => clear_loop f c'
    | (c', EExn KeyError) => (c', EOk tt)
    | (c', EExn e) => (c', EExn e)
    end
  end.
Definition ci_clear (c : cid) : cid * eres unit := clear_loop (S (length (c_keys c))) c.
(* MutableMapping.setdefault: try: return self[key] except KeyError: self[key] = default; return default *)
Definition base_setdefault (c : cid) (k : K) (d : V) : cid * eres V :=
  match ci_getitem c k with
  | EOk v => (c, EOk v)
  | EExn KeyError => (ci_setitem c k d, EOk d)
  | EExn e => (c, EExn e)
  end.
(* CaseInsensitiveDefaultDict.setdefault utils.py:218-221:
     if key not in self: self[key] = default
     return self[key] *)
Definition ci_setdefault (c : cid) (k : K) (d : V) : cid * eres V :=
  match c_cls c with
  | ClsDefault =>
    let c' := if ci_contains c k then c else ci_setitem c k d in (c', ci_getitem c' k)
  | _ => base_setdefault c k d
  end.

(* "mutate in place the object the lookup returns":  v = c[key]; v.append(x)  (v[i] = x, v.add(x) ...).
   Values of the model are values; f v = Some v' is the content of the object after the mutation, f v = None
   means that v is not a mutable object (AttributeError / TypeError).  The object c[key] returns is the STORED one
   when the key is present -- its content changes in place, position and spelling untouched -- and, in the
   defaulting variant, a FRESH default (default_factory() is called on every miss, utils.py:206-210) when it is
   absent: mutating that changes nothing in the container, and the next miss yields a pristine default again. *)
Definition ci_mutate (c : cid) (k : K) (f : V -> option V) : cid * eres unit :=
  match ci_getitem c k with
  | EExn e => (c, EExn e)
  | EOk v =>
    match f v with
    | None => (c, EExn TypeError)
    | Some v' => ((if ci_contains c k then upd c (al_set (lower k) v' (c_dict c)) (c_keys c) else c), EOk tt)
    end
  end.

(* ---- operations of a history, their results, one step *)
Inductive op :=
| OSet (k : K) (v : V) | OGet (k : K) | ODel (k : K) | OContains (k : K)
| OGetD (k : K) (d : option V) | OPop (k : K) (d : option V) | OPopitem
| OSetdefault (k : K) (d : V) | OUpdate (kvs : list (K * V)) | OClear | OLower
| OMutate (k : K) (f : V -> option V).

Inductive ret := RNone | RVal (v : V) | RBool (b : bool) | RKey (k : K) | RItem (k : K) (v : V).

Definition ret_unit (r : eres unit) : eres ret := ebind r (fun _ => EOk RNone).
Definition ret_val (r : eres V) : eres ret := ebind r (fun v => EOk (RVal v)).

(* OLower replaces the container by c.lower() (so that histories continue on the lowered copy) *)
Definition step (c : cid) (o : op) : cid * eres ret :=
  match o with
  | OSet k v => (ci_setitem c k v, EOk RNone)
  | OGet k => (c, ret_val (ci_getitem c k))
  | ODel k => let (c', r) := ci_delitem c k in (c', ret_unit r)
  | OContains k => (c, EOk (RBool (ci_contains c k)))
  | OGetD k d => (c, ebind (ci_get c k d) (fun o => EOk (match o with Some v => RVal v | None => RNone end)))
  | OPop k d => let (c', r) := ci_pop c k d in (c', ret_val r)
  | OPopitem => let (c', r) := ci_popitem c in (c', ebind r (fun kv => EOk (RItem (fst kv) (snd kv))))
  | OSetdefault k d => let (c', r) := ci_setdefault c k d in (c', ret_val r)
  | OUpdate kvs => (ci_update c kvs, EOk RNone)
  | OClear => let (c', r) := ci_clear c in (c', ret_unit r)
  | OLower => match ci_lower c with EOk c' => (c', EOk RNone) | EExn e => (c, EExn e) end
  | OMutate k f => let (c', r) := ci_mutate c k f in (c', ret_unit r)
  end.

(* what the public protocol shows of a container *)
Record obs := mkobs {
  o_iter : list K;                    (* list(c) *)
  o_items : eres (list (K * V));      (* list(c.items()) *)
  o_len : nat;                        (* len(c) *)
  o_repr : eres (list (K * V));       (* the data printed by repr(c) *)
  o_contains : list bool;             (* [p in c for p in probes] *)
  o_lookup : list (eres V)            (* [c[p] for p in probes] *)
}.
Definition observe (probes : list K) (c : cid) : obs :=
  mkobs (ci_iter c) (ci_items c) (ci_len c) (ci_repr_data c)
        (map (ci_contains c) probes) (map (ci_getitem c) probes).

(* a history: results and observations after every operation *)
Fixpoint run (probes : list K) (c : cid) (ops : list op) : list (eres ret * obs) :=
  match ops with
  | [] => []
  | o :: r => let (c', x) := step c o in (x, observe probes c') :: run probes c' r
  end.
Fixpoint run_state (c : cid) (ops : list op) : cid :=
  match ops with
  | [] => c
  | o :: r => run_state (fst (step c o)) r
  end.

(* ------------------------------------------------------------------ CaseInsensitiveSet utils.py:293-379 *)
Record cis := mkcis {
  s_set : list K;          (* self._set : Python set of lower-cased keys; its order is never observed *)
  s_keys : list (K * K)    (* self._keys : lower-cased key -> spelling *)
}.

Fixpoint kmem (k : K) (l : list K) : bool :=
  match l with [] => false | x :: r => if keqb k x then true else kmem k r end.
Fixpoint kremove (k : K) (l : list K) : list K :=
  match l with [] => [] | x :: r => if keqb k x then r else x :: kremove k r end.

(* add utils.py:365-368 *)
Definition cs_add (s : cis) (k : K) : cis :=
  let kl := lower k in
  mkcis (if kmem kl (s_set s) then s_set s else s_set s ++ [kl]) (al_set kl k (s_keys s)).
(* __init__ utils.py:347-351 *)
Definition cs_init (l : list K) : cis := fold_left cs_add l (mkcis [] []).
(* discard utils.py:370-373: self._set.discard(key_lower); self._keys.pop(key_lower, None) *)
Definition cs_discard (s : cis) (k : K) : cis :=
  let kl := lower k in mkcis (kremove kl (s_set s)) (al_remove kl (s_keys s)).
(* __contains__ utils.py:353-354 *)
Definition cs_contains (s : cis) (k : K) : bool := kmem (lower k) (s_set s).
(* __iter__ utils.py:356-357: the LOWER-CASED keys (in hash order) *)
Definition cs_iter (s : cis) : list K := s_set s.
(* __len__ utils.py:359-360 *)
Definition cs_len (s : cis) : nat := length (s_set s).
(* __repr__ utils.py:362-366: sorted(self._keys.values()) *)
Definition cs_repr_data (s : cis) : list K := ksort (map snd (s_keys s)).
(* get_canonical_key utils.py:375-376 *)
Definition cs_canonical (s : cis) (k : K) : eres K :=
  match al_get (lower k) (s_keys s) with Some sp => EOk sp | None => EExn KeyError end.
(* lower utils.py:378-379: type(self)(self._set) *)
Definition cs_lower (s : cis) : cis := cs_init (s_set s).
(* MutableSet.remove: if value not in self: raise KeyError(value); self.discard(value) *)
Definition cs_remove (s : cis) (k : K) : cis * eres unit :=
  if cs_contains s k then (cs_discard s k, EOk tt) else (s, EExn KeyError).
(* MutableSet.pop: value = next(iter(self)) (StopIteration -> KeyError); self.discard(value); return value.
   Which element `next(iter(self))` yields is hash order: the caller supplies the element that came out
   (`choice`); the model checks that it is one that can come out. None = "impossible choice". *)
Definition cs_pop (s : cis) (choice : K) : option (cis * eres K) :=
  match s_set s with
  | [] => Some (s, EExn KeyError)
  | _ => if kmem choice (s_set s) then Some (cs_discard s choice, EOk choice) else None
  end.
(* MutableSet.clear: try: while True: self.pop() except KeyError: pass.
   The loop pops in hash order; the model pops the head of its list.  If discard(value) does not
   remove value (lower not idempotent) the Python loop does not terminate: OutOfFuel. *)
Fixpoint cs_clear_loop (fuel : nat) (s : cis) : option cis :=
  match fuel with
  | O => None
  | S f =>
    match s_set s with
    | [] => Some s
    | x :: _ => cs_clear_loop f (cs_discard s x)
    end
  end.
Definition cs_clear (s : cis) : option cis := cs_clear_loop (S (length (s_set s))) s.
(* MutableSet.__ior__: for value in it: self.add(value) *)
Definition cs_ior (s : cis) (l : list K) : cis := fold_left cs_add l s.
(* MutableSet.__isub__ (it is not self): for value in it: self.discard(value) *)
Definition cs_isub (s : cis) (l : list K) : cis := fold_left cs_discard l s.

Inductive sop :=
| SAdd (k : K) | SDiscard (k : K) | SRemove (k : K) | SContains (k : K) | SCanonical (k : K)
| SLower | SClear | SIor (l : list K) | SIsub (l : list K) | SPop (choice : K).

Inductive sret := SRNone | SRBool (b : bool) | SRKey (k : K).

(* None = the history is impossible (a pop choice that is not an element) or clear diverges *)
Definition sstep (s : cis) (o : sop) : option (cis * eres sret) :=
  match o with
  | SAdd k => Some (cs_add s k, EOk SRNone)
  | SDiscard k => Some (cs_discard s k, EOk SRNone)
  | SRemove k => let (s', r) := cs_remove s k in Some (s', ebind r (fun _ => EOk SRNone))
  | SContains k => Some (s, EOk (SRBool (cs_contains s k)))
  | SCanonical k => Some (s, ebind (cs_canonical s k) (fun x => EOk (SRKey x)))
  | SLower => Some (cs_lower s, EOk SRNone)
  | SClear => match cs_clear s with Some s' => Some (s', EOk SRNone) | None => None end
  | SIor l => Some (cs_ior s l, EOk SRNone)
  | SIsub l => Some (cs_isub s l, EOk SRNone)
  | SPop ch => match cs_pop s ch with Some (s', r) => Some (s', ebind r (fun x => EOk (SRKey x))) | None => None end
  end.

Record sobs := mksobs {
  so_iter : list K;                 (* sorted(list(s)) *)
  so_len : nat;
  so_repr : list K;                 (* the list printed by repr(s) *)
  so_contains : list bool;
  so_canonical : list (eres K)
}.
Definition sobserve (probes : list K) (s : cis) : sobs :=
  mksobs (ksort (cs_iter s)) (cs_len s) (cs_repr_data s)
         (map (cs_contains s) probes) (map (cs_canonical s) probes).

Fixpoint srun (probes : list K) (s : cis) (ops : list sop) : option (list (eres sret * sobs)) :=
  match ops with
  | [] => Some []
  | o :: r =>
    match sstep s o with
    | None => None
    | Some (s', x) =>
      match srun probes s' r with
      | None => None
      | Some t => Some ((x, sobserve probes s') :: t)
      end
    end
  end.
Fixpoint srun_state (s : cis) (ops : list sop) : option cis :=
  match ops with
  | [] => Some s
  | o :: r => match sstep s o with None => None | Some (s', _) => srun_state s' r end
  end.

End CI.

Arguments EOk {A} a.
Arguments EExn {A} e.

Arguments OSet {K V} k v.
Arguments OGet {K V} k.
Arguments ODel {K V} k.
Arguments OContains {K V} k.
Arguments OGetD {K V} k d.
Arguments OPop {K V} k d.
Arguments OPopitem {K V}.
Arguments OSetdefault {K V} k d.
Arguments OUpdate {K V} kvs.
Arguments OClear {K V}.
Arguments OLower {K V}.
Arguments OMutate {K V} k f.
Arguments RNone {K V}.
Arguments RVal {K V} v.
Arguments RBool {K V} b.
Arguments RKey {K V} k.
Arguments RItem {K V} k v.
Arguments SAdd {K} k.
Arguments SDiscard {K} k.
Arguments SRemove {K} k.
Arguments SContains {K} k.
Arguments SCanonical {K} k.
Arguments SLower {K}.
Arguments SClear {K}.
Arguments SIor {K} l.
Arguments SIsub {K} l.
Arguments SPop {K} choice.
Arguments SRNone {K}.
Arguments SRBool {K} b.
Arguments SRKey {K} k.
Arguments FacNone {V}.
Arguments FacVal {V} d.
