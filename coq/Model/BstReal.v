(* Model/BstReal.v -- the BST interpreter with format.name$ computed by C11's validated model of
   pybtex/bibtex/names.py (Model/NameFormat.v, imported read-only) instead of a table handed in.
   Model/Bst.v stays parametrised by [fmt_name] (C06 builds on that interface); this file is its
   instance for the real name formatter.  The InvalidNameString flag of format_name ("too many commas",
   reported through errors.report_error) is dropped: names with three or more commas are outside the
   domain of the C03 generators (C04 / C18 own that report). *)
From Pybtex Require Import Base.Prelude Base.PyChar Base.PyStr Model.BibtexStr Model.Wrap Model.Names Model.NameFormat Model.Bst.

(* builtins.py:176-192: format_bibtex_name(name, format) *)
Definition real_fmt (name f : str) : res str :=
  do r <- NameFormat.format_name name f; Ok (fst r).

Definition exec_real := Bst.exec real_fmt.
Definition run_real := Bst.run real_fmt.
