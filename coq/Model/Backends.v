(* Model/Backends.v -- the four output back ends (pybtex/backends/*.py), rendering of an
   already-built rich-text tree (pybtex/richtext.py  *.render), whole documents
   (BaseBackend.write_to_stream) and LaTeXParser / Text.from_latex
   (pybtex/markup/__init__.py, richtext.py:810-816).   Property C09.
   No proofs here (Proofs/Backends*.v). *)
From Pybtex Require Import Base.Prelude Base.PyChar Base.PyStr Model.RtTypes.
Local Open Scope N_scope.

(* string literals are evaluated to code-point lists when a definition is read, so that the
   extracted model does not mention Coq's string type *)
Notation "'lit' s" := (ltac:(let v := eval vm_compute in (s2l s) in exact v)) (only parsing, at level 10).

(* ------------------------------------------------------------------------------------ *)
(* small string helpers *)

(* str.replace(old, new) for a ONE-character old: a per-character substitution *)
Definition replace_char (c : char) (new : str) (s : str) : str :=
  flat_map (fun x => if x =? c then new else [x]) s.

Fixpoint lookup {V} (k : str) (tab : list (str * V)) : option V :=
  match tab with
  | [] => None
  | (k', v) :: r => if str_eqb k k' then Some v else lookup k r
  end.

Definition c_amp : char := 38.
Definition c_lt : char := 60.
Definition c_gt : char := 62.
Definition c_semi : char := 59.

(* xml.sax.saxutils.escape(data) with no extra entities:
     data.replace("&", "&amp;").replace(">", "&gt;").replace("<", "&lt;") *)
Definition xml_escape (s : str) : str :=
  replace_char c_lt ((lit "&lt;")) (replace_char c_gt ((lit "&gt;")) (replace_char c_amp ((lit "&amp;")) s)).

(* the fifteen characters the Markdown syntax document lets one backslash-escape, the
   backslash first (pybtex/backends/markdown.py:45-61 SPECIAL_CHARS; tied to the
   live table by the per-run obligation special_chars_exact) *)
Definition markdown_escapable : list char :=
  [92; 96; 42; 95; 123; 125; 91; 93; 40; 41; 35; 43; 45; 46; 33].

(* ------------------------------------------------------------------------------------ *)
(* latexcodec's incremental encoder (codec.py LatexIncrementalEncoder.get_latex_chars):
   a per-character translation table (text, "the translation ends in a control word")
   and a two-state machine: after a control word the next piece is preceded by a space,
   or, if it starts with a space, that space becomes a control space.  The table is
   data of the library: measured by the harness for the characters of each case. *)
Definition enc_table := list (char * (str * bool)).

Fixpoint enc_lookup (c : char) (tab : enc_table) : str * bool :=
  match tab with
  | [] => ([c], false)
  | (c', v) :: r => if c =? c' then v else enc_lookup c r
  end.

Fixpoint enc_go (tab : enc_table) (eating : bool) (s : str) : str :=
  match s with
  | [] => []
  | c :: r =>
    let '(bytes, cw) := enc_lookup c tab in
    let out :=
      if eating then
        match bytes with
        | 32 :: b' => [c_bslash; c_space] ++ b'
        | _ => c_space :: bytes
        end
      else bytes in
    out ++ enc_go tab cw r
  end.
Definition enc_tab (tab : enc_table) (s : str) : str := enc_go tab false s.

(* ------------------------------------------------------------------------------------ *)
(* back ends *)
Inductive backend := BHtml | BLatex | BMarkdown | BPlain.

Record tables := mkTables {
  t_symbols : list (str * str);          (* Backend.symbols *)
  t_tags : list (str * option str);      (* Backend.tags (latex, markdown); value None = Python None *)
  t_special : list char                  (* markdown SPECIAL_CHARS *)
}.

Section Render.
Variable enc : str -> str.     (* latex Backend.format_str = codecs.encode(s, 'ulatex+<encoding>') *)
Variable T : tables.

(* markdown.py:100-107 Backend.format_str: escape(), then one str.replace per special char, in table order *)
Definition md_replace_loop (sc : list char) (s : str) : str :=
  fold_left (fun text c => replace_char c [c_bslash; c] text) sc s.
Definition format_str_md (s : str) : str := md_replace_loop (t_special T) (xml_escape s).

(* html.py:71 / latex.py:66 / markdown.py:100 / backends/__init__.py:56 format_str *)
Definition format_str (b : backend) (s : str) : str :=
  match b with
  | BHtml => xml_escape s
  | BLatex => enc s
  | BMarkdown => format_str_md s
  | BPlain => s
  end.

Definition is_empty (s : str) : bool := match s with [] => true | _ => false end.

(* html.py:77  r'<{0}>{1}</{0}>'.format(tag, text) if text else u'' *)
Definition html_tag (n text : str) : str :=
  if is_empty text then [] else [c_lt] ++ n ++ [c_gt] ++ text ++ [c_lt; 47] ++ n ++ [c_gt].

(* html.py:80-83 (staticmethod, also used by markdown.py:121) *)
Definition html_href (url text : str) (ext : bool) : str :=
  let target := if ext then (lit " target=""_blank""") else [] in
  if is_empty text then []
  else (lit "<a href=""") ++ url ++ [c_quote] ++ target ++ [c_gt] ++ text ++ (lit "</a>").

(* format_tag: html.py:77, latex.py:69-74, markdown.py:109-114, plaintext.py:36 *)
Definition format_tag (b : backend) (n text : str) : str :=
  match b with
  | BHtml => html_tag n text
  | BLatex =>
    match lookup n (t_tags T) with
    | Some (Some tag) => if is_empty text then [] else [c_bslash] ++ tag ++ [c_lbrace] ++ text ++ [c_rbrace]
    | _ => if is_empty text then [] else [c_lbrace] ++ text ++ [c_rbrace]
    end
  | BMarkdown =>
    match lookup n (t_tags T) with
    | Some (Some tag) => if is_empty text then [] else tag ++ text ++ tag
    | _ => html_tag n text
    end
  | BPlain => text
  end.

(* format_href: html.py:80, latex.py:76-83, markdown.py:116-122, plaintext.py:39 *)
Definition format_href (b : backend) (url text : str) (ext : bool) : str :=
  match b with
  | BHtml => html_href url text ext
  | BLatex =>
    if is_empty text then []
    else if str_eqb text (enc url) then (lit "\url{") ++ url ++ [c_rbrace]
    else (lit "\href") ++ (if ext then (lit "[pdfnewwindow]") else []) ++ [c_lbrace] ++ url ++ [c_rbrace; c_lbrace] ++ text ++ [c_rbrace]
  | BMarkdown =>
    if is_empty text then []
    else if ext then html_href url text ext
    else [91] ++ text ++ [93; 40] ++ url ++ [41]
  | BPlain => text
  end.

(* format_protected: html.py:74, latex.py:85-92, base class (markdown, plaintext) *)
Definition format_protected (b : backend) (text : str) : str :=
  match b with
  | BHtml => (lit "<span class=""bibtex-protected"">") ++ text ++ (lit "</span>")
  | BLatex => [c_lbrace] ++ text ++ [c_rbrace]
  | _ => text
  end.

(* richtext.py: String.render :792, Symbol.render :1005 (KeyError for an unknown name),
   BaseMultipartText.render :566-577 + BaseBackend.render_sequence (''.join),
   Tag.render :859, HRef.render :896, Protected.render :950 *)
Fixpoint render (b : backend) (t : rt) : res str :=
  let render_parts := fix rp (ps : list rt) : res str :=
    match ps with
    | [] => Ok []
    | p :: r => do x <- render b p; do y <- rp r; Ok (x ++ y)
    end in
  match t with
  | RStr s => Ok (format_str b s)
  | RSym n => match lookup n (t_symbols T) with Some v => Ok v | None => Crash end
  | RText ps => render_parts ps
  | RTag n ps => do x <- render_parts ps; Ok (format_tag b n x)
  | RHRef u e ps => do x <- render_parts ps; Ok (format_href b u x e)
  | RProt ps => do x <- render_parts ps; Ok (format_protected b x)
  end.

Fixpoint render_parts (b : backend) (ps : list rt) : res str :=
  match ps with
  | [] => Ok []
  | p :: r => do x <- render b p; do y <- render_parts b r; Ok (x ++ y)
  end.

(* ---- whole documents: BaseBackend.write_to_stream (backends/__init__.py:103-111) ---- *)
Record fentry := mkEntry { e_key : str; e_label : str; e_width : Z; e_text : rt }.

(* style/labels/__init__.py:29 get_longest_label: max(labels, key=width, default=''): the FIRST
   label of maximal width; the empty string for no entries.  width() (textutils) is
   outside the anchored code: each label's measured width is part of the input. *)
Fixpoint max_label (best : str) (bw : Z) (es : list fentry) : str :=
  match es with
  | [] => best
  | e :: r => if (bw <? e_width e)%Z then max_label (e_label e) (e_width e) r else max_label best bw r
  end.
Definition longest_label (es : list fentry) : res str :=
  match es with
  | [] => Ok []
  | e :: r => Ok (max_label (e_label e) (e_width e) r)
  end.

(* write_prologue: html.py:85-87 (PROLOGUE % encoding), latex.py:94-99, base: nothing *)
Definition html_prologue (encoding : str) : str :=
  (lit "<!DOCTYPE html PUBLIC ""-//W3C//DTD HTML 4.01//EN"">") ++ [c_nl] ++
  (lit "<html>") ++ [c_nl] ++
  (lit "<head><meta name=""generator"" content=""Pybtex"">") ++ [c_nl] ++
  (lit "<meta http-equiv=""Content-Type"" content=""text/html; charset=") ++ encoding ++ (lit """>") ++ [c_nl] ++
  (lit "<title>Bibliography</title>") ++ [c_nl] ++
  (lit "</head>") ++ [c_nl] ++
  (lit "<body>") ++ [c_nl] ++
  (lit "<dl>") ++ [c_nl].

Definition write_prologue (b : backend) (encoding preamble : str) (es : list fentry) : res str :=
  match b with
  | BHtml => Ok (html_prologue encoding)
  | BLatex =>
    do ll <- longest_label es;
    Ok ((if is_empty preamble then [] else preamble ++ [c_nl]) ++ (lit "\begin{thebibliography}{") ++ ll ++ [c_rbrace])
  | _ => Ok []
  end.

(* write_epilogue: html.py:89, latex.py:101, base: nothing *)
Definition write_epilogue (b : backend) : str :=
  match b with
  | BHtml => (lit "</dl></body></html>") ++ [c_nl]
  | BLatex => [c_nl; c_nl] ++ (lit "\end{thebibliography}") ++ [c_nl]
  | _ => []
  end.

(* write_entry(key, label, text): html.py:92-94, latex.py:104-106, markdown.py:124-131, plaintext.py:42-45 *)
Definition write_entry (b : backend) (php_extra : bool) (key label text : str) : str :=
  match b with
  | BHtml => (lit "<dt>") ++ label ++ (lit "</dt>") ++ [c_nl] ++ (lit "<dd>") ++ text ++ (lit "</dd>") ++ [c_nl]
  | BLatex => [c_nl; c_nl] ++ (lit "\bibitem[") ++ label ++ (lit "]{") ++ key ++ [c_rbrace; c_nl] ++ text
  | BMarkdown =>
    if php_extra then label ++ [c_nl] ++ (lit ":   ") ++ text ++ [c_nl; c_nl]
    else [91] ++ label ++ (lit "] ") ++ text ++ (lit "  ") ++ [c_nl]
  | BPlain => [91] ++ label ++ (lit "] ") ++ text ++ [c_nl]
  end.

Fixpoint write_entries (b : backend) (php_extra : bool) (es : list fentry) : res str :=
  match es with
  | [] => Ok []
  | e :: r =>
    do x <- render b (e_text e);
    do y <- write_entries b php_extra r;
    Ok (write_entry b php_extra (e_key e) (e_label e) x ++ y)
  end.

Definition write_to_stream (b : backend) (php_extra : bool) (encoding preamble : str) (es : list fentry) : res str :=
  do p <- write_prologue b encoding preamble es;
  do body <- write_entries b php_extra es;
  Ok (p ++ body ++ write_epilogue b).

End Render.

(* ------------------------------------------------------------------------------------ *)
(* LaTeXParser (markup/__init__.py:28-63) over Scanner.skip_to (scanner.py:65-79) *)

(* skip_to([LBRACE, RBRACE]): the pattern whose first match ENDS first wins, i.e. the first
   brace character after pos; value = text up to and including it.
   Result: (token.value[:-1], is_lbrace, rest) or None when there is no brace. *)
Fixpoint skip_to_brace (s : str) : option (str * bool * str) :=
  match s with
  | [] => None
  | c :: r =>
    if c =? c_lbrace then Some ([], true, r)
    else if c =? c_rbrace then Some ([], false, r)
    else match skip_to_brace r with
         | Some (pre, k, rest) => Some (c :: pre, k, rest)
         | None => None
         end
  end.

(* the smart constructor BaseMultipartText.__init__ (richtext.py:309-340) restricted to what
   the parser feeds it: parts that are String or (already constructed) Protected objects.
     - empty parts are dropped (bool(part) is len(part) != 0),
     - nothing is unpacked (no Text among the parts),
     - _merge_similar (richtext.py:605-621): runs of adjacent Strings are concatenated, runs of
       adjacent Protected are replaced by Protected( *all their parts) -- constructed again. *)
Fixpoint rt_len (t : rt) : nat :=
  match t with
  | RStr s => length s
  | RSym _ => 1
  | RText ps | RTag _ ps | RHRef _ _ ps | RProt ps => fold_right (fun p n => rt_len p + n)%nat 0%nat ps
  end.
Definition rt_nonempty (t : rt) : bool := negb (Nat.eqb (rt_len t) 0).

(* leading run of Strings: (concatenated values, how many, rest) *)
Fixpoint span_str (ps : list rt) : str * nat * list rt :=
  match ps with
  | RStr s :: r => let '(v, n, rest) := span_str r in (s ++ v, S n, rest)
  | _ => ([], O, ps)
  end.
(* leading run of Protected: (their parts chained, how many, rest) *)
Fixpoint span_prot (ps : list rt) : list rt * nat * list rt :=
  match ps with
  | RProt q :: r => let '(v, n, rest) := span_prot r in (q ++ v, S n, rest)
  | _ => ([], O, ps)
  end.

(* merge_similar fuel n ps: n bounds the length of ps (structural recursion along the list),
   fuel bounds the depth of re-construction (Protected( *args) inside _merge_similar).
   Parts of other kinds do not occur in the parser's output and are passed through. *)
Fixpoint merge_similar (fuel : nat) : nat -> list rt -> res (list rt) :=
  match fuel with
  | O => fun _ _ => OutOfFuel
  | S f =>
    fix go (n : nat) (ps : list rt) : res (list rt) :=
    match n with
    | O => Ok ps      (* n >= length ps: not reached *)
    | S n' =>
      match ps with
      | [] => Ok []
      | RStr s :: r =>
        let '(v, k, rest) := span_str r in
        do tl <- go n' rest;
        Ok (RStr (s ++ v) :: tl)
      | RProt q :: r =>
        let '(v, k, rest) := span_prot r in
        do tl <- go n' rest;
        match k with
        | O => Ok (RProt q :: tl)                      (* a group of one is passed through *)
        | _ =>
          let args := filter rt_nonempty (q ++ v) in   (* Protected( *chain(parts)) *)
          do inner <- merge_similar f (length args) args;
          Ok (RProt inner :: tl)
        end
      | p :: r => do tl <- go n' r; Ok (p :: tl)
      end
    end
  end.

Definition mk_parts (fuel : nat) (ps : list rt) : res (list rt) :=
  let args := filter rt_nonempty ps in
  merge_similar fuel (length args) args.

(* iter_string_parts(level) (markup/__init__.py:45-63).  Returns the parts yielded and the
   unread rest of the text; PyErr 1 = PybtexSyntaxError('unbalanced braces'). *)
Fixpoint iter_string_parts (fuel : nat) (level : nat) (s : str) : res (list rt * str) :=
  match fuel with
  | O => OutOfFuel
  | S f =>
    match skip_to_brace s with
    | None =>
      (* remainder = get_remainder(); if remainder: yield String(remainder) *)
      match level with
      | O => Ok ((if is_empty s then [] else [RStr s]), [])
      | _ => PyErr 1 (-1)
      end
    | Some (pre, true, rest) =>
      do (inner, rest') <- iter_string_parts f (S level) rest;
      do ip <- mk_parts (S (length s)) inner;           (* Protected( *inner parts) *)
      do (more, rest'') <- iter_string_parts f level rest';
      Ok (RStr pre :: RProt ip :: more, rest'')
    | Some (pre, false, rest) =>
      match level with
      | O => PyErr 1 (-1)
      | _ => Ok ([RStr pre], rest)
      end
    end
  end.

(* LaTeXParser(text).parse() = Text( *self.iter_string_parts(level=0)) *)
Definition parse_latex (s : str) : res rt :=
  do (ps, _) <- iter_string_parts (S (length s)) 0 s;
  do parts <- mk_parts (S (length s)) ps;
  Ok (RText parts).

(* Text.from_latex(latex) (richtext.py:810-816) = LaTeXParser(codecs.decode(latex, 'ulatex')).parse() *)
Definition from_latex (dec : str -> str) (latex : str) : res rt := parse_latex (dec latex).

(* ------------------------------------------------------------------------------------ *)
(* one back-end OBJECT used several times.  The attributes an object keeps between calls:
   self.output and self.formatted_bibliography, both assigned by write_to_stream
   (backends/__init__.py:105-106) before anything reads them; encoding / latex_encoding /
   php_extra are set once by __init__.  write_to_file (:98-102) is write_to_stream on a file. *)
Record bstate := mkBState { st_preamble : str; st_entries : list fentry }.

Inductive bop :=
| OpDoc (preamble : str) (es : list fentry)     (* write_to_stream / write_to_file *)
| OpRender (t : rt)                             (* text.render(backend) *)
| OpStr (s : str)                               (* backend.format_str(s) *)
| OpEntry (key label text : str).               (* backend.write_entry(key, label, text) into a given sink *)

Section History.
Variable enc : str -> str.
Variable T : tables.
Variable b : backend.
Variable php_extra : bool.
Variable encoding : str.

Definition step (st : bstate) (op : bop) : bstate * res str :=
  match op with
  | OpDoc pre es =>
    let st' := mkBState pre es in      (* self.formatted_bibliography = formatted_bibliography *)
    (st', write_to_stream enc T b php_extra encoding (st_preamble st') (st_entries st'))
  | OpRender t => (st, render enc T b t)
  | OpStr s => (st, Ok (format_str enc T b s))
  | OpEntry k l x => (st, Ok (write_entry b php_extra k l x))
  end.

Fixpoint run_history (st : bstate) (ops : list bop) : list (res str) :=
  match ops with
  | [] => []
  | op :: r => let '(st', x) := step st op in x :: run_history st' r
  end.
End History.
