(* Model/BstParser.v -- .bst source parsing.
     pybtex/bibtex/bst.py:37-164   (literal constructors, strip_comment, BstParser, parse_file /
                                    parse_stream / parse_string)
     pybtex/scanner.py:56-121      (Scanner.update_lineno / eat_whitespace / eof / get_token /
                                    optional / required, PrematureEOF, TokenRequired)
     pybtex/bibtex/interpreter.py:35-175 (Integer / String / QuotedVar / Identifier /
                                    FunctionLiteral, compared structurally: class + value)
   Mirrors /repo HEAD (with fixes 135237f: a missing argument group is a syntax error, and
   6970deb: line breaks inside a token are counted), quirks
   included.  No proofs here.

   The scanner object (text, pos, lineno) is modelled by the pair (remaining text, lineno):
   pos only ever moves forward and nothing looks behind it.

   Error classes carried by PyErr (Base/Prelude.res):
     0  EOFError      -- raised by get_token(allow_eof=True) at the end of the text; it is control
                         flow (caught by BstParser.parse, bst.py:122), never escapes parse_*
     1  PrematureEOF  (scanner.py:162)   a PybtexSyntaxError
     2  TokenRequired (scanner.py:168)   a PybtexSyntaxError
   The line is Scanner.lineno at the time the error object is created (scanner.py:148). *)
From Pybtex Require Import Base.Prelude Base.PyChar Base.PyStr.
Local Open Scope N_scope.

Definition cls_eof : N := 0.
Definition cls_premature : N := 1.
Definition cls_token_required : N := 2.

(* ------------------------------------------------------------------------------------------- *)
(* the parsed program (bst.py yields, per command, [name, group, group ...]) *)
Inductive tok :=
| TInt (z : Z)              (* interpreter.Integer *)
| TStr (s : str)            (* interpreter.String *)
| TQuote (s : str)          (* interpreter.QuotedVar *)
| TId (s : str)             (* interpreter.Identifier *)
| TFun (body : list tok).   (* interpreter.FunctionLiteral *)
Definition command := (str * list (list tok))%type.
Definition program := list command.

(* ------------------------------------------------------------------------------------------- *)
(* generic helpers *)
Fixpoint span (p : char -> bool) (s : str) : str * str :=
  match s with
  | c :: t => if p c then let (a, b) := span p t in (c :: a, b) else ([], s)
  | [] => ([], [])
  end.

Fixpoint count_char (x : char) (s : str) : Z :=
  match s with
  | [] => 0%Z
  | c :: t => Z.add (if N.eqb c x then 1%Z else 0%Z) (count_char x t)
  end.
Fixpoint count_crlf (s : str) : Z :=
  match s with
  | [] => 0%Z
  | c :: t => Z.add (if (c =? 13) && (match t with d :: _ => d =? 10 | [] => false end) then 1%Z else 0%Z)
                    (count_crlf t)
  end.

(* ------------------------------------------------------------------------------------------- *)
(* bst.py:55-87  strip_comment: the loop searches a percent or double quote from pos; a quote toggles in_string, a
   percent outside a string cuts the line there.  (`while pos <= end` with end = len-1 is
   `while pos < len`; search returning None ends the loop.) *)
Fixpoint strip_comment_go (in_string : bool) (line : str) : str :=
  match line with
  | [] => []
  | c :: t =>
    if (c =? c_percent) && negb in_string then []
    else if c =? c_quote then c :: strip_comment_go (negb in_string) t
    else c :: strip_comment_go in_string t
  end.
Definition strip_comment (line : str) : str := strip_comment_go false line.

(* ------------------------------------------------------------------------------------------- *)
(* str.splitlines() (CPython unicodeobject.c, Py_UNICODE_ISLINEBREAK): boundaries are
   \n \r \r\n \v \f \x1c \x1d \x1e \x85    ; no empty last line after a final boundary *)
Definition is_linebreak (c : char) : bool :=
  ((10 <=? c) && (c <=? 13)) || ((28 <=? c) && (c <=? 30)) || (c =? 133) || (c =? 8232) || (c =? 8233).
Fixpoint splitlines (s : str) : list str :=
  match s with
  | [] => []
  | c :: t =>
    if is_linebreak c then
      [] :: (if c =? 13
             then match t with
                  | d :: t' => if d =? 10 then splitlines t' else splitlines t
                  | [] => splitlines t
                  end
             else splitlines t)
    else match splitlines t with
         | [] => [[c]]
         | l :: ls => (c :: l) :: ls
         end
  end.

(* iteration over a text stream opened with newline='\n' (io.StringIO default): lines end after
   each \n and keep it *)
Fixpoint lines_keepends (s : str) : list str :=
  match s with
  | [] => []
  | c :: t =>
    if c =? 10 then [c] :: lines_keepends t
    else match lines_keepends t with
         | [] => [[c]]
         | l :: ls => (c :: l) :: ls
         end
  end.
(* universal-newlines translation done by io.open(..., newline=None) on reading *)
Fixpoint universal_newlines (s : str) : str :=
  match s with
  | [] => []
  | c :: t =>
    if c =? 13
    then 10 :: match t with
               | d :: t' => if d =? 10 then universal_newlines t' else universal_newlines t
               | [] => []
               end
    else c :: universal_newlines t
  end.

(* ------------------------------------------------------------------------------------------- *)
(* scanner.py:83-85 update_lineno: count(LF) + count(CR) - count(CR LF) *)
Definition nl_count (v : str) : Z := Z.sub (Z.add (count_char 10 v) (count_char 13 v)) (count_crlf v).

(* scanner.py:87-91 eat_whitespace: WHITESPACE = \s+ matched at pos *)
Definition eat_whitespace (s : str) (ln : Z) : str * Z :=
  let (w, r) := span is_space s in (r, Z.add ln (nl_count w)).

(* bst.py:93-97 the token patterns *)
Inductive pat := P_NAME | P_STRING | P_INTEGER | P_LBRACE | P_RBRACE.
Definition pat_code (p : pat) : nat :=
  match p with P_NAME => 0 | P_STRING => 1 | P_INTEGER => 2 | P_LBRACE => 3 | P_RBRACE => 4 end%nat.

(* NAME = one or more characters other than hash, double quote, braces and whitespace *)
Definition is_name_char (c : char) : bool :=
  negb ((c =? c_hash) || (c =? c_quote) || (c =? c_lbrace) || (c =? c_rbrace) || is_space c).
Definition not_quote (c : char) : bool := negb (c =? c_quote).

(* pattern.match(text, pos): Some (matched value, rest) *)
Definition match_pat (p : pat) (s : str) : option (str * str) :=
  match p with
  | P_NAME => let (v, r) := span is_name_char s in match v with [] => None | _ => Some (v, r) end
  | P_STRING =>            (* quote, non-quotes, quote *)
    match s with
    | c :: t =>
      if c =? c_quote then
        let (body, r) := span not_quote t in
        match r with
        | q :: r' => Some (c :: body ++ [q], r')      (* q is the closing quote *)
        | [] => None
        end
      else None
    | [] => None
    end
  | P_INTEGER =>           (* #-?\d+  (digits: ASCII; other Unicode digits are outside the domain) *)
    match s with
    | c :: t =>
      if c =? c_hash then
        let (sign, t') := match t with
                          | m :: u => if m =? c_hyphen then ([m], u) else ([], t)
                          | [] => ([], t)
                          end in
        let (ds, r) := span is_digit t' in
        match ds with [] => None | _ => Some (c :: sign ++ ds, r) end
      else None
    | [] => None
    end
  | P_LBRACE => match s with c :: t => if c =? c_lbrace then Some ([c], t) else None | [] => None end
  | P_RBRACE => match s with c :: t => if c =? c_rbrace then Some ([c], t) else None | [] => None end
  end.

Fixpoint first_match (ps : list pat) (s : str) : option (pat * str * str) :=
  match ps with
  | [] => None
  | p :: rest =>
    match match_pat p s with
    | Some (v, r) => Some (p, v, r)
    | None => first_match rest s
    end
  end.

(* scanner.py:96-112 get_token: eat whitespace; at the end EOFError / PrematureEOF; else the first
   pattern of the list that matches at pos, or None (the position stays after the whitespace).
   After fix 6970deb the line breaks inside the matched token advance the line counter too (a .bst
   string literal may run over a line end); BstParser always has an integer lineno. *)
Definition state := (str * Z)%type.
Definition get_token (ps : list pat) (allow_eof : bool) (s : str) (ln : Z)
  : res (option (pat * str) * state) :=
  let (r, ln') := eat_whitespace s ln in
  match r with
  | [] => if allow_eof then PyErr cls_eof ln' else PyErr cls_premature ln'
  | _ :: _ =>
    match first_match ps r with
    | Some (p, v, r') => Ok (Some (p, v), (r', Z.add ln' (nl_count v)))   (* fix 6970deb: update_lineno(value) *)
    | None => Ok (None, (r, ln'))
    end
  end.

(* scanner.py:111-112 *)
Definition optional (ps : list pat) (s : str) (ln : Z) := get_token ps false s ln.

(* scanner.py:114-121 required: None -> TokenRequired at the current line *)
Definition required (ps : list pat) (allow_eof : bool) (s : str) (ln : Z)
  : res ((pat * str) * state) :=
  do r <- get_token ps allow_eof s ln;
  match fst r with
  | Some t => Ok (t, snd r)
  | None => PyErr cls_token_required (snd (snd r))
  end.

(* ------------------------------------------------------------------------------------------- *)
(* literal constructors *)
Fixpoint strip_hash_l (s : str) : str :=
  match s with c :: t => if c =? c_hash then strip_hash_l t else s | [] => [] end.
Definition strip_hash (s : str) : str := rev (strip_hash_l (rev (strip_hash_l s))).

Definition digits_value (ds : str) : Z :=
  fold_left (fun a d => (a * 10 + Z.of_N (d - 48))%Z) ds 0%Z.

(* int(text) for text = -?[0-9]+ ; anything else (cannot come out of INTEGER) is a ValueError.
   CPython >= 3.11 refuses more than 4300 digits with a ValueError as well
   (sys.int_info.default_max_str_digits; leading zeros count). *)
Definition max_str_digits : Z := 4300.
Definition py_int (t : str) : res Z :=
  let (neg, ds) := match t with
                   | m :: u => if m =? c_hyphen then (true, u) else (false, t)
                   | [] => (false, t)
                   end in
  match ds with
  | [] => Crash
  | _ =>
    if negb (forallb is_digit ds) then Crash
    else if (max_str_digits <? Z.of_nat (length ds))%Z then Crash
    else Ok (if neg then (- digits_value ds)%Z else digits_value ds)
  end.

(* bst.py:37-38 process_int_literal: Integer(int(value.strip('#'))) *)
Definition process_int_literal (v : str) : res tok :=
  do z <- py_int (strip_hash v); Ok (TInt z).
(* bst.py:40-43 process_string_literal: String(value[1:-1]) (the asserts hold for STRING tokens) *)
Definition process_string_literal (v : str) : res tok :=
  match v with
  | c :: t => if (c =? c_quote) && (last v 0 =? c_quote) then Ok (TStr (removelast t)) else Crash
  | [] => Crash
  end.
(* bst.py:45-49 process_identifier: a leading apostrophe -> QuotedVar(name[1:]) *)
Definition process_identifier (v : str) : res tok :=
  match v with
  | c :: t => if c =? 39 then Ok (TQuote t) else Ok (TId v)
  | [] => Crash
  end.
(* bst.py:112-116 LITERAL_TYPES; a brace pattern is not a key (KeyError) but never gets here *)
Definition literal (p : pat) (v : str) : res tok :=
  match p with
  | P_STRING => process_string_literal v
  | P_INTEGER => process_int_literal v
  | P_NAME => process_identifier v
  | _ => Crash
  end.

(* ------------------------------------------------------------------------------------------- *)
(* bst.py:99-110 COMMANDS, looked up with command_name.upper() (ASCII case mapping in the model) *)
(* the names are spelt as code points (s2l would drag Coq's string type into the extracted
   runner); Proofs/BstParser.v checks them against the s2l spellings *)
Definition commands : list (str * nat) :=
  [ ([69; 78; 84; 82; 89], 3%nat) (* ENTRY *);
    ([69; 88; 69; 67; 85; 84; 69], 1%nat) (* EXECUTE *);
    ([70; 85; 78; 67; 84; 73; 79; 78], 2%nat) (* FUNCTION *);
    ([73; 78; 84; 69; 71; 69; 82; 83], 1%nat) (* INTEGERS *);
    ([73; 84; 69; 82; 65; 84; 69], 1%nat) (* ITERATE *);
    ([77; 65; 67; 82; 79], 2%nat) (* MACRO *);
    ([82; 69; 65; 68], 0%nat) (* READ *);
    ([82; 69; 86; 69; 82; 83; 69], 1%nat) (* REVERSE *);
    ([83; 79; 82; 84], 0%nat) (* SORT *);
    ([83; 84; 82; 73; 78; 71; 83], 1%nat) (* STRINGS *) ].
Fixpoint lookup (k : str) (tbl : list (str * nat)) : option nat :=
  match tbl with
  | [] => None
  | (k', v) :: r => if str_eqb k k' then Some v else lookup k r
  end.
Definition arity (name : str) : option nat := lookup (upper name) commands.

(* bst.py:128-136 parse_group: tokens up to the matching closing brace; a '{' opens a nested
   FunctionLiteral (the recursion is not depth-guarded in the code: CPython gives up with a
   RecursionError somewhere between 500 and 1000 levels; the model has no such limit, the claimed
   domain is depth <= 150).  fuel: every iteration consumes at least one character. *)
Definition group_pats : list pat := [P_NAME; P_STRING; P_INTEGER; P_LBRACE; P_RBRACE].
Fixpoint parse_group (fuel : nat) (s : str) (ln : Z) : res (list tok * state) :=
  match fuel with
  | O => OutOfFuel
  | S f =>
    do t <- required group_pats false s ln;
    let '((p, v), (s1, ln1)) := t in
    match p with
    | P_LBRACE =>
      do b <- parse_group f s1 ln1;
      let '(body, (s2, ln2)) := b in
      do r <- parse_group f s2 ln2;
      Ok (TFun body :: fst r, snd r)
    | P_RBRACE => Ok ([], (s1, ln1))
    | _ =>
      do l <- literal p v;
      do r <- parse_group f s1 ln1;
      Ok (l :: fst r, snd r)
    end
  end.

(* bst.py:145-147 the loop over range(arity): each of the arity groups must open with a brace
   (required: TokenRequired at a token that is not an opening brace, PrematureEOF at the end of
   the text) -- /repo after fix 135237f *)
Fixpoint parse_args (fuel : nat) (n : nat) (s : str) (ln : Z) : res (list (list tok) * state) :=
  match n with
  | O => Ok ([], (s, ln))
  | S k =>
    do b <- required [P_LBRACE] false s ln;
    let '(_, (s1, ln1)) := b in
    do g <- parse_group fuel s1 ln1;
    let '(grp, (s2, ln2)) := g in
    do r <- parse_args fuel k s2 ln2;
    Ok (grp :: fst r, snd r)
  end.

(* bst.py:138-149 parse_command *)
Definition parse_command (fuel : nat) (s : str) (ln : Z) : res (command * state) :=
  do t <- required [P_NAME] true s ln;
  let '((_, name), (s1, ln1)) := t in
  match arity name with
  | None => PyErr cls_token_required ln1
  | Some n =>
    do a <- parse_args fuel n s1 ln1;
    Ok ((name, fst a), snd a)
  end.

(* bst.py:118-126 parse: commands until EOFError; a syntax error propagates *)
Fixpoint parse_loop (fuel : nat) (s : str) (ln : Z) : res program :=
  match fuel with
  | O => OutOfFuel
  | S f =>
    match parse_command (S (length s)) s ln with
    | Ok (c, (s1, ln1)) => do rest <- parse_loop f s1 ln1; Ok (c :: rest)
    | PyErr cls l => if cls =? cls_eof then Ok [] else PyErr cls l
    | Crash => Crash
    | OutOfFuel => OutOfFuel
    end
  end.

(* list(BstParser(text).parse()): Scanner starts with pos = 0, lineno = 1 *)
Definition parse_text (text : str) : res program := parse_loop (S (length text)) text 1%Z.

(* bst.py:162-164 parse_string *)
Definition text_of_string (src : str) : str := join [c_nl] (map strip_comment (splitlines src)).
Definition parse_string (src : str) : res program := parse_text (text_of_string src).

(* bst.py:157-159 parse_stream: the stream is any iterable of lines *)
Definition text_of_lines (lines : list str) : str :=
  join [c_nl] (map (fun l => strip_comment (rstrip l)) lines).
Definition parse_stream (lines : list str) : res program := parse_text (text_of_lines lines).

(* bst.py:152-154 parse_file: the file is opened in text mode with universal newlines
   (pybtex.io.open_unicode -> io.open) and iterated line by line *)
Definition parse_file (content : str) : res program :=
  parse_stream (lines_keepends (universal_newlines content)).

(* ------------------------------------------------------------------------------------------- *)
(* a trace of the scanner for the tie: required(group_pats) until it fails; each token with the
   line number after it *)
Fixpoint scan_tokens (fuel : nat) (s : str) (ln : Z) : list (nat * str * Z) * (N * Z) :=
  match fuel with
  | O => ([], (9, ln))
  | S f =>
    match required group_pats true s ln with
    | Ok ((p, v), (s1, ln1)) =>
      let (l, e) := scan_tokens f s1 ln1 in ((pat_code p, v, ln1) :: l, e)
    | PyErr c l => ([], (c, l))
    | _ => ([], (9, ln))
    end
  end.
