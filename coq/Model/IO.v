(* Model/IO.v -- pybtex/io.py:52-105 (_open_existing, _open_or_create, _open, open_raw,
   open_unicode), pybtex/kpathsea.py:27-31 (kpsewhich) and posixpath.join.

   The operating system is an argument: the opener (io.open) is a *script* of outcomes,
   one consumed per call, so every pattern of open() failures (first attempt, fallback
   attempt, both) is a value of the model; every call is logged with the path, mode and
   encoding it received.  posixpath.isfile is a boolean, the kpsewhich process an outcome
   (could not be started / exit status and standard output), os.environ an optional
   TEXMFOUTPUT.  No proofs here. *)
From Pybtex Require Import Base.Prelude Base.PyChar Base.PyStr Model.Plugins.

(* one scripted outcome of opener(path, mode, **kwargs) *)
Inductive oresult :=
| OHandle (h : N)                      (* an open file object *)
| OEnvErr (strerror : option str)      (* OSError / EnvironmentError with that .strerror *)
| OOther.                              (* any other exception (ValueError, LookupError ...) *)

Definition logent := ((str * str) * option str)%type.      (* path, mode, encoding kwarg *)
Record ost := { script : list oresult; log : list logent }.

(* call the opener once: log the call, consume one outcome (an exhausted script raises
   a foreign exception -- the harness never lets that happen) *)
Definition call_opener (st : ost) (path mode : str) (enc : option str) : oresult * ost :=
  let lg := log st ++ [((path, mode), enc)] in
  match script st with
  | [] => (OOther, {| script := []; log := lg |})
  | o :: rest => (o, {| script := rest; log := lg |})
  end.

(* posixpath.join(a, b) *)
Definition path_join (a b : str) : str :=
  if startswith b [c_slash] then b
  else match a with
       | [] => b
       | _ => if endswith a [c_slash] then a ++ b else a ++ [c_slash] ++ b
       end.

(* ---- kpathsea.py:27-31 kpsewhich ---- *)
Inductive proc :=
| PExecFail (strerror : option str)     (* Popen raised OSError (no such program ...) *)
| PExit (rc : Z) (out : str).           (* exit status, standard output (bytes) *)
Inductive located := LPath (p : str) | LNone | LEnvErr (strerror : option str).
(* bytes.rstrip(): ASCII whitespace only *)
Definition is_bspace (c : char) : bool :=
  N.eqb c 32 || (N.leb 9 c && N.leb c 13).
Fixpoint blstrip (s : str) : str :=
  match s with
  | c :: t => if is_bspace c then blstrip t else s
  | [] => []
  end.
Definition brstrip (s : str) : str := rev (blstrip (rev s)).
Definition kpsewhich (p : proc) : located :=
  match p with
  | PExecFail e => LEnvErr e
  | PExit rc out => if Z.eqb rc 0 then LPath (brstrip out) else LNone
  end.

(* the three ways an attempt to open ends *)
Inductive attempt := AOk (h : N) | AEnv (strerror : option str) | AOther.
Definition of_oresult (o : oresult) : attempt :=
  match o with OHandle h => AOk h | OEnvErr e => AEnv e | OOther => AOther end.

(* io.py:52-57 _open_existing *)
Definition open_existing (st : ost) (filename mode : str) (enc : option str)
                         (isfile : bool) (kp : proc) : attempt * ost :=
  if isfile then let '(o, st') := call_opener st filename mode enc in (of_oresult o, st')
  else
    match kpsewhich kp with
    | LEnvErr e => (AEnv e, st)
    | LPath (c :: p) => let '(o, st') := call_opener st (c :: p) mode enc in (of_oresult o, st')
    | _ => let '(o, st') := call_opener st filename mode enc in (of_oresult o, st')
    end.

(* io.py:60-70 _open_or_create: the first error is re-raised when the fallback fails too;
   a foreign exception of the fallback attempt propagates *)
Definition open_or_create (st : ost) (filename mode : str) (enc : option str)
                          (texmfoutput : option str) : attempt * ost :=
  let '(o, st1) := call_opener st filename mode enc in
  match o with
  | OHandle h => (AOk h, st1)
  | OOther => (AOther, st1)
  | OEnvErr e =>
    match texmfoutput with
    | None => (AEnv e, st1)
    | Some d =>
      let '(o2, st2) := call_opener st1 (path_join d filename) mode enc in
      match o2 with
      | OHandle h => (AOk h, st2)
      | OEnvErr _ => (AEnv e, st2)
      | OOther => (AOther, st2)
      end
    end
  end.

(* what _open is given: an object with read and close, or a file name *)
Inductive target := TFile (h : N) | TName (filename : str).
Inductive open_out := OpenOk (h : N) | OpenErr (msg : str) | OpenCrash.

(* string literals are evaluated to code-point lists (keeps Coq's string type out of the extraction) *)
Definition s_None : str := Eval vm_compute in s2l "None".
Definition s_unable : str := Eval vm_compute in s2l "unable to open ".
Definition s_dot_space : str := Eval vm_compute in s2l ". ".
Definition s_UTF8 : str := Eval vm_compute in s2l "UTF-8".
Definition strerror_text (e : option str) : str :=
  match e with Some s => s | None => s_None end.
(* "unable to open %s. %s" % (filename, error.strerror) *)
Definition open_error_message (filename : str) (e : option str) : str :=
  s_unable ++ filename ++ s_dot_space ++ strerror_text e.
Definition c_w : char := 119%N.

(* io.py:73-84 _open *)
Definition open_ (st : ost) (t : target) (mode : str) (enc : option str)
                 (texmfoutput : option str) (isfile : bool) (kp : proc) : open_out * ost :=
  match t with
  | TFile h => (OpenOk h, st)
  | TName filename =>
    let '(a, st') :=
      if existsb (N.eqb c_w) mode
      then open_or_create st filename mode enc texmfoutput
      else open_existing st filename mode enc isfile kp in
    (match a with
     | AOk h => OpenOk h
     | AEnv e => OpenErr (open_error_message filename e)
     | AOther => OpenCrash
     end, st')
  end.

(* io.py:87-94 open_raw drops its encoding argument; open_unicode defaults it to UTF-8 *)
Definition open_raw (st : ost) (t : target) (mode : str) (encoding : option str) := open_ st t mode None.
Definition open_unicode (st : ost) (t : target) (mode : str) (encoding : option str) :=
  open_ st t mode (Some (match encoding with Some e => e | None => s_UTF8 end)).

(* "the message names the file": msg contains filename *)
Fixpoint infix (needle hay : str) : bool :=
  startswith hay needle || match hay with [] => false | _ :: t => infix needle t end.
