(* Props/C03.v -- "BST style programs execute with BibTeX stack-language semantics".
   Only statements, each closed by `exact <lemma>`, its assumptions printed, and Examples
   showing the hypotheses are met by non-trivial values.
   [fmt] is names.format_name and [cw] the charwidths table: every theorem holds for all of them.
   [rec]/[wh] (how nested code and while$ loops are run) are universally quantified in the
   per-built-in laws; [exec n] / [while_loop n] are the instances the interpreter uses. *)
From Pybtex Require Import Base.Prelude Base.PyChar Base.PyStr Model.BibtexStr Model.Wrap Model.Names Model.NameFormat Model.Bst Model.BstReal
  Spec.BstSem Spec.BstDoc Spec.BstTyping Proofs.Bst Proofs.BstSort Proofs.BstSem Proofs.BstLaws Proofs.BstTyping Proofs.BstOrder Proofs.BstDoc Proofs.BstDocSound Proofs.BstReal Proofs.BstCommands.
From Pybtex Require Model.Citations Spec.Citations Model.Engines.
From Coq Require Import Permutation Sorted.

(* --- more fuel never changes the outcome of a run that ended (normally or with an error) *)
Theorem exec_fuel_mono : forall fmt cw n m st p, n <= m ->
  exec fmt cw n st p <> OutOfFuel -> exec fmt cw m st p = exec fmt cw n st p.
Proof. exact Proofs.Bst.exec_fuel_mono. Qed.
Print Assumptions exec_fuel_mono.

Theorem while_fuel_mono : forall fmt cw n m st p f, n <= m ->
  while_loop fmt cw n st p f <> OutOfFuel -> while_loop fmt cw m st p f = while_loop fmt cw n st p f.
Proof. exact Proofs.Bst.while_fuel_mono. Qed.
Print Assumptions while_fuel_mono.

(* --- the outcome is a function of program and state alone *)
Theorem exec_deterministic : forall fmt cw n m st p r1 r2,
  exec fmt cw n st p = r1 -> exec fmt cw m st p = r2 -> r1 <> OutOfFuel -> r2 <> OutOfFuel -> r1 = r2.
Proof. exact Proofs.Bst.exec_deterministic. Qed.
Print Assumptions exec_deterministic.

(* --- stack manipulation *)
Theorem swap_swap : forall fmt cw n st name a b r,
  vlookup name (st_vars st) = Some (OBuiltin B_swap) -> st_stack st = a :: b :: r ->
  exec fmt cw (S (S n)) st [IId name; IId name] = Ok st.
Proof. exact Proofs.Bst.swap_swap. Qed.
Print Assumptions swap_swap.

Theorem duplicate_pop : forall fmt cw n st dup pp a r,
  vlookup dup (st_vars st) = Some (OBuiltin B_duplicate) ->
  vlookup pp (st_vars st) = Some (OBuiltin B_pop) -> st_stack st = a :: r ->
  exec fmt cw (S (S n)) st [IId dup; IId pp] = Ok st.
Proof. exact Proofs.Bst.duplicate_pop. Qed.
Print Assumptions duplicate_pop.

Theorem swap_law : forall fmt cw rec wh st a b r, st_stack st = a :: b :: r ->
  builtin_step fmt cw rec wh B_swap st = Ok (set_stack st (b :: a :: r)).
Proof. exact Proofs.Bst.swap_law. Qed.
Print Assumptions swap_law.

(* every built-in that takes an operand reports BibTeX's "pop from empty stack" *)
Theorem underflow_law : forall fmt cw rec wh st b, st_stack st = [] ->
  In b [B_gt; B_lt; B_eq; B_concat; B_assign; B_plus; B_minus; B_add_period; B_change_case;
        B_chr_to_int; B_duplicate; B_empty; B_format_name; B_if; B_int_to_chr; B_int_to_str;
        B_missing; B_num_names; B_pop; B_purify; B_substring; B_swap; B_text_length;
        B_text_prefix; B_top; B_warning; B_while; B_width; B_write] ->
  builtin_step fmt cw rec wh b st = PyErr E_BST (-1).
Proof. exact Proofs.Bst.underflow_law. Qed.
Print Assumptions underflow_law.

(* --- arithmetic and comparison: the element below the top is the left operand *)
Theorem plus_law : forall fmt cw rec wh st x y r, st_stack st = VInt x :: VInt y :: r ->
  builtin_step fmt cw rec wh B_plus st = Ok (set_stack st (VInt (y + x) :: r)).
Proof. exact Proofs.Bst.plus_law. Qed.
Print Assumptions plus_law.

Theorem minus_law : forall fmt cw rec wh st x y r, st_stack st = VInt x :: VInt y :: r ->
  builtin_step fmt cw rec wh B_minus st = Ok (set_stack st (VInt (y - x) :: r)).
Proof. exact Proofs.Bst.minus_law. Qed.
Print Assumptions minus_law.

Theorem plus_comm : forall fmt cw rec wh st x y r,
  builtin_step fmt cw rec wh B_plus (set_stack st (VInt x :: VInt y :: r)) =
  builtin_step fmt cw rec wh B_plus (set_stack st (VInt y :: VInt x :: r)).
Proof. exact Proofs.Bst.plus_comm. Qed.
Print Assumptions plus_comm.

Theorem less_law : forall fmt cw rec wh st x y r, st_stack st = VInt x :: VInt y :: r ->
  builtin_step fmt cw rec wh B_lt st = Ok (set_stack st (VInt (if (y <? x)%Z then 1 else 0) :: r)).
Proof. exact Proofs.Bst.less_law. Qed.
Print Assumptions less_law.

Theorem more_law : forall fmt cw rec wh st x y r, st_stack st = VInt x :: VInt y :: r ->
  builtin_step fmt cw rec wh B_gt st = Ok (set_stack st (VInt (if (x <? y)%Z then 1 else 0) :: r)).
Proof. exact Proofs.Bst.more_law. Qed.
Print Assumptions more_law.

Theorem equals_int_law : forall fmt cw rec wh st x y r, st_stack st = VInt x :: VInt y :: r ->
  builtin_step fmt cw rec wh B_eq st = Ok (set_stack st (VInt (if (y =? x)%Z then 1 else 0) :: r)).
Proof. exact Proofs.Bst.equals_int_law. Qed.
Print Assumptions equals_int_law.

Theorem equals_str_law : forall fmt cw rec wh st s t r, st_stack st = VStr s :: VStr t :: r ->
  builtin_step fmt cw rec wh B_eq st = Ok (set_stack st (VInt (if str_eqb t s then 1 else 0) :: r)).
Proof. exact Proofs.Bst.equals_str_law. Qed.
Print Assumptions equals_str_law.

(* --- concatenation *)
Theorem concat_law : forall fmt cw rec wh st s t r, st_stack st = VStr s :: VStr t :: r ->
  builtin_step fmt cw rec wh B_concat st = Ok (set_stack st (VStr (t ++ s) :: r)).
Proof. exact Proofs.Bst.concat_law. Qed.
Print Assumptions concat_law.

Theorem concat_assoc : forall fmt cw n st star a b c,
  vlookup star (st_vars st) = Some (OBuiltin B_concat) ->
  exec fmt cw (5 + n) st [IStr a; IStr b; IId star; IStr c; IId star] = Ok (push (VStr (a ++ b ++ c)) st) /\
  exec fmt cw (5 + n) st [IStr a; IStr b; IStr c; IId star; IId star] = Ok (push (VStr (a ++ b ++ c)) st).
Proof. exact Proofs.Bst.concat_assoc. Qed.
Print Assumptions concat_assoc.

(* --- control flow *)
Theorem if_true : forall fmt cw rec wh st f1 f2 z r, st_stack st = f1 :: f2 :: VInt z :: r -> (0 < z)%Z ->
  builtin_step fmt cw rec wh B_if st = exec_value rec (set_stack st r) f2.
Proof. exact Proofs.Bst.if_true. Qed.
Print Assumptions if_true.

Theorem if_false : forall fmt cw rec wh st f1 f2 z r, st_stack st = f1 :: f2 :: VInt z :: r -> (z <= 0)%Z ->
  builtin_step fmt cw rec wh B_if st = exec_value rec (set_stack st r) f1.
Proof. exact Proofs.Bst.if_false. Qed.
Print Assumptions if_false.

Theorem while_law : forall fmt cw rec wh st f p r, st_stack st = f :: p :: r ->
  builtin_step fmt cw rec wh B_while st = wh (set_stack st r) p f.
Proof. exact Proofs.Bst.while_law. Qed.
Print Assumptions while_law.

(* one turn of the loop: run the condition, pop it, stop on <= 0, else run the body and loop *)
Theorem while_unfold : forall fmt cw n st p f,
  while_loop fmt cw (S n) st p f =
  bind (exec_value (exec fmt cw n) st p) (fun st1 =>
  bind (pop st1) (fun '(v, st2) =>
    match v with
    | VInt z => if (z <=? 0)%Z then Ok st2
                else bind (exec_value (exec fmt cw n) st2 f) (fun st3 => while_loop fmt cw n st3 p f)
    | _ => Crash
    end)).
Proof. exact Proofs.Bst.while_unfold. Qed.
Print Assumptions while_unfold.

(* --- assignment: global variables *)
Theorem assign_then_read_global_int : forall fmt cw rec wh st x old z r,
  st_stack st = VRef x :: VInt z :: r -> alookup str_eqb x (st_vars st) = Some (OInt old) ->
  exists st', builtin_step fmt cw rec wh B_assign st = Ok st' /\ st_stack st' = r /\
    alookup str_eqb x (st_vars st') = Some (OInt (VInt z)) /\
    exec_obj fmt cw rec wh (OInt (VInt z)) st' = Ok (push (VInt z) st') /\
    (forall y, y <> x -> alookup str_eqb y (st_vars st') = alookup str_eqb y (st_vars st)) /\
    st_evars st' = st_evars st.
Proof. exact Proofs.Bst.assign_then_read_global_int. Qed.
Print Assumptions assign_then_read_global_int.

Theorem assign_then_read_global_str : forall fmt cw rec wh st x old s r,
  st_stack st = VRef x :: VStr s :: r -> alookup str_eqb x (st_vars st) = Some (OStr old) ->
  exists st', builtin_step fmt cw rec wh B_assign st = Ok st' /\ st_stack st' = r /\
    alookup str_eqb x (st_vars st') = Some (OStr (VStr s)) /\
    exec_obj fmt cw rec wh (OStr (VStr s)) st' = Ok (push (VStr s) st') /\
    (forall y, y <> x -> alookup str_eqb y (st_vars st') = alookup str_eqb y (st_vars st)) /\
    st_evars st' = st_evars st.
Proof. exact Proofs.Bst.assign_then_read_global_str. Qed.
Print Assumptions assign_then_read_global_str.

(* --- assignment: entry variables live in the frame of the current citation only
       (entry_var_frames_disjoint is the sixth conjunct) *)
Theorem assign_then_read_entry_int : forall fmt cw rec wh st x name key e z r,
  st_stack st = VRef x :: VInt z :: r -> alookup str_eqb x (st_vars st) = Some (OEInt name) ->
  st_cur st = Some (key, e) ->
  exists st', builtin_step fmt cw rec wh B_assign st = Ok st' /\ st_stack st' = r /\ st_vars st' = st_vars st /\
    st_cur st' = st_cur st /\
    exec_obj fmt cw rec wh (OEInt name) st' = Ok (push (VInt z) st') /\
    (forall key2, key2 <> key -> frame st' key2 = frame st key2) /\
    (forall name2, name2 <> name -> alookup str_eqb name2 (frame st' key) = alookup str_eqb name2 (frame st key)).
Proof. exact Proofs.Bst.assign_then_read_entry_int. Qed.
Print Assumptions assign_then_read_entry_int.

Theorem assign_then_read_entry_str : forall fmt cw rec wh st x name key e s r,
  st_stack st = VRef x :: VStr s :: r -> alookup str_eqb x (st_vars st) = Some (OEStr name) ->
  st_cur st = Some (key, e) ->
  exists st', builtin_step fmt cw rec wh B_assign st = Ok st' /\ st_stack st' = r /\ st_vars st' = st_vars st /\
    st_cur st' = st_cur st /\
    exec_obj fmt cw rec wh (OEStr name) st' = Ok (push (VStr s) st') /\
    (forall key2, key2 <> key -> frame st' key2 = frame st key2) /\
    (forall name2, name2 <> name -> alookup str_eqb name2 (frame st' key) = alookup str_eqb name2 (frame st key)).
Proof. exact Proofs.Bst.assign_then_read_entry_str. Qed.
Print Assumptions assign_then_read_entry_str.

(* assignment is typed: an integer variable refuses a string (Python raises ValueError) *)
Theorem assign_type_error : forall fmt cw rec wh st x old s r,
  st_stack st = VRef x :: VStr s :: r -> alookup str_eqb x (st_vars st) = Some (OInt old) ->
  builtin_step fmt cw rec wh B_assign st = Crash.
Proof. exact Proofs.Bst.assign_type_error. Qed.
Print Assumptions assign_type_error.

(* --- ITERATE / REVERSE run the function once per citation, in citation / reverse citation order
       (made observable by the function { cite$ write$ }) *)
Theorem iterate_order : forall fmt cw n st d f cite write,
  vlookup f (st_vars st) = Some (OFun [IId cite; IId write]) ->
  vlookup cite (st_vars st) = Some (OBuiltin B_cite) ->
  vlookup write (st_vars st) = Some (OBuiltin B_write) ->
  st_db st = Some d ->
  (forall k, In k (st_cites st) -> alookup str_eqb k (r_entries d) <> None) ->
  exists st', run_command fmt cw (3 + n) st (Cmd nm_iterate [[IId f]]) = Ok st' /\
    st_buf st' = st_buf st ++ map VStr (st_cites st) /\ st_cites st' = st_cites st.
Proof. exact Proofs.Bst.iterate_order. Qed.
Print Assumptions iterate_order.

Theorem reverse_order : forall fmt cw n st d f cite write,
  vlookup f (st_vars st) = Some (OFun [IId cite; IId write]) ->
  vlookup cite (st_vars st) = Some (OBuiltin B_cite) ->
  vlookup write (st_vars st) = Some (OBuiltin B_write) ->
  st_db st = Some d ->
  (forall k, In k (st_cites st) -> alookup str_eqb k (r_entries d) <> None) ->
  exists st', run_command fmt cw (3 + n) st (Cmd nm_reverse [[IId f]]) = Ok st' /\
    st_buf st' = st_buf st ++ map VStr (rev (st_cites st)) /\ st_cites st' = st_cites st.
Proof. exact Proofs.Bst.reverse_order. Qed.
Print Assumptions reverse_order.

(* --- SORT: when every citation has a sort.key$, the citation list becomes a stable,
       sorted (Python string order) permutation of itself; nothing else changes *)
Theorem sort_stable_permutation : forall fmt cw fuel st,
  (forall c, In c (st_cites st) -> key_of st c <> None) ->
  exists ks st',
    map snd ks = st_cites st /\ Forall (fun p => key_of st (snd p) = Some (fst p)) ks /\
    run_command fmt cw fuel st (Cmd nm_sort []) = Ok st' /\
    st' = set_cites st (map snd (stable_sort ks)) /\
    Permutation ks (stable_sort ks) /\
    StronglySorted key_le (stable_sort ks) /\
    (forall k, filter (has_key k) (stable_sort ks) = filter (has_key k) ks) /\
    Permutation (st_cites st) (st_cites st').
Proof. exact Proofs.BstSort.sort_stable_permutation. Qed.
Print Assumptions sort_stable_permutation.

(* SORT then ITERATE: the function sees the citations in the stable order of their sort keys *)
Theorem sort_then_iterate : forall fmt cw n st d f cite write,
  vlookup f (st_vars st) = Some (OFun [IId cite; IId write]) ->
  vlookup cite (st_vars st) = Some (OBuiltin B_cite) ->
  vlookup write (st_vars st) = Some (OBuiltin B_write) ->
  st_db st = Some d ->
  (forall k, In k (st_cites st) -> alookup str_eqb k (r_entries d) <> None) ->
  (forall c, In c (st_cites st) -> key_of st c <> None) ->
  exists ks st',
    map snd ks = st_cites st /\ Forall (fun p => key_of st (snd p) = Some (fst p)) ks /\
    run fmt cw (3 + n) st [Cmd nm_sort []; Cmd nm_iterate [[IId f]]] = Ok st' /\
    st_buf st' = st_buf st ++ map VStr (map snd (stable_sort ks)) /\
    StronglySorted key_le (stable_sort ks) /\
    (forall k, filter (has_key k) (stable_sort ks) = filter (has_key k) ks) /\
    Permutation (st_cites st) (st_cites st').
Proof. exact Proofs.BstOrder.sort_then_iterate. Qed.
Print Assumptions sort_then_iterate.

Theorem sort_unset_key_crashes : forall fmt cw fuel st c rest,
  st_cites st = c :: rest -> alookup str_eqb nm_sort_key_ (frame st c) = None ->
  run_command fmt cw fuel st (Cmd nm_sort []) = Crash.
Proof. exact Proofs.BstSort.sort_unset_key_crashes. Qed.
Print Assumptions sort_unset_key_crashes.

(* the order SORT uses is a total order on strings *)
Theorem str_leb_total_order : forall a b c,
  str_leb a a = true /\ (str_leb a b = false -> str_leb b a = true) /\
  (str_leb a b = true -> str_leb b c = true -> str_leb a c = true) /\
  (str_leb a b = true -> str_leb b a = true -> a = b).
Proof.
  exact (fun a b c => conj (str_leb_refl a) (conj (str_leb_total a b) (conj (str_leb_trans a b c) (str_leb_antisym a b)))).
Qed.
Print Assumptions str_leb_total_order.

(* --- write$ / newline$ *)
Theorem write_law : forall fmt cw rec wh st v r, st_stack st = v :: r ->
  builtin_step fmt cw rec wh B_write st = Ok (set_out (set_stack st r) (st_buf st ++ [v]) (st_lines st)).
Proof. exact Proofs.Bst.write_law. Qed.
Print Assumptions write_law.

Theorem write_newline_spec : forall fmt cw rec wh st buffer w,
  st_buf st = map VStr buffer -> wrap (concat buffer) 79 [c_space; c_space] = Ok w ->
  exists st', builtin_step fmt cw rec wh B_newline st = Ok st' /\ st_buf st' = [] /\
    st_lines st' = st_lines st ++ [w; [c_nl]] /\ st_stack st' = st_stack st /\
    output_of st' = output_of st ++ w ++ [c_nl].
Proof. exact Proofs.Bst.write_newline_spec. Qed.
Print Assumptions write_newline_spec.


(* --- the interpreter model computes exactly the documented big-step semantics (Spec/BstSem.v):
       whatever a run with some fuel returns is derivable, and every derivable run is found with
       enough fuel.  while$ and if$ are given there by inference rules, without fuel. *)
Theorem exec_sound : forall fmt cw n st p st', exec fmt cw n st p = Ok st' -> bigsteps fmt cw (model_simple fmt cw) st p st'.
Proof. exact Proofs.BstSem.exec_sound. Qed.
Print Assumptions exec_sound.

Theorem exec_complete : forall fmt cw st p st', bigsteps fmt cw (model_simple fmt cw) st p st' -> exists n, exec fmt cw n st p = Ok st'.
Proof. exact Proofs.BstSem.exec_complete. Qed.
Print Assumptions exec_complete.

(* --- the documented behaviour of the code-free built-ins (Spec/BstDoc.v: one rule per built-in, written from
       the BibTeX documentation, for operands of the documented kinds) is what the model does in one step ... *)
Theorem doc_step : forall fmt cw rec wh b st st',
  builtin_doc fmt cw b st st' -> builtin_step fmt cw rec wh b st = Ok st'.
Proof. exact Proofs.BstDoc.doc_step. Qed.
Print Assumptions doc_step.

(* conversely, on operands of the kinds the type checker accepts, a successful step of a code-free built-in IS an
   instance of its documented rule: on well-typed operands the model and the documentation coincide step by step *)
Theorem doc_sound_step : forall fmt cw G ent tys rec wh call cid b s s1 st st',
  check_builtin G ent tys call cid b s = Some s1 -> control b = false ->
  state_ok G ent tys st -> sabs (st_stack st) s ->
  builtin_step fmt cw rec wh b st = Ok st' -> builtin_doc fmt cw b st st'.
Proof. exact Proofs.BstDoc.doc_sound_step. Qed.
Print Assumptions doc_sound_step.

(* ... hence every run derivable in the big-step semantics over the documented rules (no reference to the
   model's built-in code at all) is a run of the interpreter *)
Theorem doc_complete : forall fmt cw st p st',
  bigsteps fmt cw (builtin_doc fmt cw) st p st' -> exists n, exec fmt cw n st p = Ok st'.
Proof. exact Proofs.BstDoc.doc_complete. Qed.
Print Assumptions doc_complete.

(* --- program-level doc_sound: the typing is threaded through the whole derivation.  Every terminating run of a
       program accepted by the type checker, from a well-formed state, with any fuel, is derivable in the big-step
       semantics over the DOCUMENTED rules (Spec/BstDoc.v) -- no rule refers to the model's built-in code.
       With doc_complete: on well-typed programs the interpreter implements exactly the documented language. *)
Theorem doc_sound : forall fmt cw G ent tys cf s p s',
  (forall n f, fmt n f <> Crash) -> ctx_ok G = true ->
  check G ent tys cf s p = Some s' ->
  forall n st st', state_ok G ent tys st -> sabs (st_stack st) s ->
  exec fmt cw n st p = Ok st' ->
  bigsteps fmt cw (builtin_doc fmt cw) st p st'.
Proof. exact Proofs.BstDocSound.doc_sound. Qed.
Print Assumptions doc_sound.

Theorem doc_sound_real : forall cw G ent tys cf s p s',
  ctx_ok G = true -> check G ent tys cf s p = Some s' ->
  forall n st st', state_ok G ent tys st -> sabs (st_stack st) s ->
  exec_real cw n st p = Ok st' ->
  bigsteps real_fmt cw (builtin_doc real_fmt cw) st p st'.
Proof. exact Proofs.BstReal.doc_sound_real. Qed.
Print Assumptions doc_sound_real.

Theorem while_sound : forall fmt cw n st p f st',
  while_loop fmt cw n st p f = Ok st' -> whilerel fmt cw (model_simple fmt cw) st p f st'.
Proof. exact Proofs.BstSem.while_sound. Qed.
Print Assumptions while_sound.


(* --- the remaining built-ins, on operands of the documented kinds: which operand is which, and
       which string primitive (C12's / C11's subject) computes the result *)
Theorem substring_law : forall fmt cw rec wh st len start s r, st_stack st = VInt len :: VInt start :: VStr s :: r ->
  builtin_step fmt cw rec wh B_substring st = Ok (set_stack st (VStr (bibtex_substring s start len) :: r)).
Proof. exact Proofs.BstLaws.substring_law. Qed.
Print Assumptions substring_law.

Theorem text_prefix_law : forall fmt cw rec wh st n s r, st_stack st = VInt n :: VStr s :: r ->
  builtin_step fmt cw rec wh B_text_prefix st = bind (bibtex_prefix s n) (fun p => Ok (set_stack st (VStr p :: r))).
Proof. exact Proofs.BstLaws.text_prefix_law. Qed.
Print Assumptions text_prefix_law.

Theorem text_length_law : forall fmt cw rec wh st s r, st_stack st = VStr s :: r ->
  builtin_step fmt cw rec wh B_text_length st = bind (bibtex_len s) (fun n => Ok (set_stack st (VInt (Z.of_nat n) :: r))).
Proof. exact Proofs.BstLaws.text_length_law. Qed.
Print Assumptions text_length_law.

Theorem purify_law : forall fmt cw rec wh st s r, st_stack st = VStr s :: r ->
  builtin_step fmt cw rec wh B_purify st = bind (bibtex_purify s) (fun p => Ok (set_stack st (VStr p :: r))).
Proof. exact Proofs.BstLaws.purify_law. Qed.
Print Assumptions purify_law.

Theorem width_law : forall fmt cw rec wh st s r, st_stack st = VStr s :: r ->
  builtin_step fmt cw rec wh B_width st = bind (bibtex_width cw s) (fun w => Ok (set_stack st (VInt w :: r))).
Proof. exact Proofs.BstLaws.width_law. Qed.
Print Assumptions width_law.

Theorem num_names_law : forall fmt cw rec wh st s r, st_stack st = VStr s :: r ->
  builtin_step fmt cw rec wh B_num_names st =
  bind (split_name_list s) (fun ps => Ok (set_stack st (VInt (Z.of_nat (length ps)) :: r))).
Proof. exact Proofs.BstLaws.num_names_law. Qed.
Print Assumptions num_names_law.

Theorem change_case_law : forall fmt cw rec wh st c m s r, st_stack st = VStr (c :: m) :: VStr s :: r ->
  builtin_step fmt cw rec wh B_change_case st =
  match mode_of c with
  | Some k => bind (change_case s k) (fun t => Ok (set_stack st (VStr t :: r)))
  | None => PyErr E_BST (-1)
  end.
Proof. exact Proofs.BstLaws.change_case_law. Qed.
Print Assumptions change_case_law.

Theorem format_name_law : forall fmt cw rec wh st f k names r parts,
  st_stack st = VStr f :: VInt k :: VStr names :: r -> split_name_list names = Ok parts ->
  builtin_step fmt cw rec wh B_format_name st =
  if ((1 <=? k) && (k <=? Z.of_nat (length parts)))%Z
  then bind (fmt (nth (Z.to_nat (k - 1)) parts []) f) (fun t => Ok (set_stack st (VStr t :: r)))
  else PyErr E_BST (-1).
Proof. exact Proofs.BstLaws.format_name_law. Qed.
Print Assumptions format_name_law.

Theorem add_period_law : forall fmt cw rec wh st s r, st_stack st = VStr s :: r ->
  builtin_step fmt cw rec wh B_add_period st =
  Ok (set_stack st (VStr (match s with [] => [] | _ => if ends_with_terminator s then s else s ++ [46%N] end) :: r)).
Proof. exact Proofs.BstLaws.add_period_law. Qed.
Print Assumptions add_period_law.

Theorem empty_law : forall fmt cw rec wh st s r, st_stack st = VStr s :: r ->
  builtin_step fmt cw rec wh B_empty st = Ok (set_stack st (VInt (if forallb is_space s then 1 else 0) :: r)).
Proof. exact Proofs.BstLaws.empty_law. Qed.
Print Assumptions empty_law.

Theorem missing_law : forall fmt cw rec wh st v r, st_stack st = v :: r ->
  builtin_step fmt cw rec wh B_missing st = Ok (set_stack st (VInt (match v with VMissing _ => 1 | _ => 0 end) :: r)).
Proof. exact Proofs.BstLaws.missing_law. Qed.
Print Assumptions missing_law.

Theorem chr_to_int_law : forall fmt cw rec wh st c r, st_stack st = VStr [c] :: r ->
  builtin_step fmt cw rec wh B_chr_to_int st = Ok (set_stack st (VInt (Z.of_N c) :: r)).
Proof. exact Proofs.BstLaws.chr_to_int_law. Qed.
Print Assumptions chr_to_int_law.

Theorem chr_to_int_error : forall fmt cw rec wh st s r, st_stack st = VStr s :: r -> length s <> 1 ->
  builtin_step fmt cw rec wh B_chr_to_int st = PyErr E_BST (-1).
Proof. exact Proofs.BstLaws.chr_to_int_error. Qed.
Print Assumptions chr_to_int_error.

Theorem int_to_chr_law : forall fmt cw rec wh st z r, st_stack st = VInt z :: r -> (0 <= z <= 1114111)%Z ->
  builtin_step fmt cw rec wh B_int_to_chr st = Ok (set_stack st (VStr [Z.to_N z] :: r)).
Proof. exact Proofs.BstLaws.int_to_chr_law. Qed.
Print Assumptions int_to_chr_law.

Theorem int_to_chr_error : forall fmt cw rec wh st z r, st_stack st = VInt z :: r -> (z < 0 \/ 1114111 < z)%Z ->
  builtin_step fmt cw rec wh B_int_to_chr st = PyErr E_BST (-1).
Proof. exact Proofs.BstLaws.int_to_chr_error. Qed.
Print Assumptions int_to_chr_error.

Theorem int_to_str_law : forall fmt cw rec wh st z r, st_stack st = VInt z :: r ->
  builtin_step fmt cw rec wh B_int_to_str st = Ok (set_stack st (VStr (Z_to_str z) :: r)).
Proof. exact Proofs.BstLaws.int_to_str_law. Qed.
Print Assumptions int_to_str_law.

Theorem cite_law : forall fmt cw rec wh st key e, st_cur st = Some (key, e) ->
  builtin_step fmt cw rec wh B_cite st = Ok (push (VStr key) st).
Proof. exact Proofs.BstLaws.cite_law. Qed.
Print Assumptions cite_law.

Theorem type_law : forall fmt cw rec wh st key e, st_cur st = Some (key, e) ->
  builtin_step fmt cw rec wh B_type st = Ok (push (VStr (e_type e)) st).
Proof. exact Proofs.BstLaws.type_law. Qed.
Print Assumptions type_law.

Theorem top_law : forall fmt cw rec wh st v r s, st_stack st = v :: r -> py_str v = Ok s ->
  builtin_step fmt cw rec wh B_top st = Ok (add_print (set_stack st r) (s ++ [c_nl])).
Proof. exact Proofs.BstLaws.top_law. Qed.
Print Assumptions top_law.

Theorem warning_law : forall fmt cw rec wh st v r, st_stack st = v :: r ->
  builtin_step fmt cw rec wh B_warning st = Ok (add_warn (set_stack st r) [WUser v]).
Proof. exact Proofs.BstLaws.warning_law. Qed.
Print Assumptions warning_law.

(* --- type soundness: a program accepted by the checker of Spec/BstTyping.v (integers, strings / missing
       fields, function literals, quoted variables; ALL built-ins -- call.type$ is checked for every entry type [tys]
       of the database, stack$ / top$ / int.to.str$ only where no function value or quoted variable would be
       printed --; user functions followed; int.to.chr$ : integer -> string; if$ branches must agree, while$ conditions leave one integer, bodies nothing), run from a
       well-formed state, never raises a foreign Python exception -- whatever the fuel -- and when it ends
       normally the stack has the computed shape and the state is well-formed again.
       Hypothesis on the library function: format_name itself raises no foreign exception. *)
Theorem welltyped_no_crash : forall fmt cw G ent tys cf s p s',
  (forall n f, fmt n f <> Crash) -> ctx_ok G = true ->
  check G ent tys cf s p = Some s' ->
  forall n st, state_ok G ent tys st -> sabs (st_stack st) s ->
  exec fmt cw n st p <> Crash /\
  (forall st', exec fmt cw n st p = Ok st' -> state_ok G ent tys st' /\ sabs (st_stack st') s').
Proof. exact Proofs.BstTyping.welltyped_no_crash. Qed.
Print Assumptions welltyped_no_crash.

(* --- the interpreter with format.name$ computed by C11's validated model of names.py (Model/BstReal.v:
       [real_fmt] = NameFormat.format_name): on string operands the built-in is exactly C11's format_name_n, the
       function Props/C11.v proves the tie / abbreviation / grammar rules about (both errors are BibTeX errors) *)
Theorem format_name_law_real : forall cw rec wh st f k names r,
  st_stack st = VStr f :: VInt k :: VStr names :: r ->
  match NameFormat.format_name_n names k f with
  | Ok (t, _) => builtin_step real_fmt cw rec wh B_format_name st = Ok (set_stack st (VStr t :: r))
  | PyErr _ _ => exists c l, builtin_step real_fmt cw rec wh B_format_name st = PyErr c l
  | Crash => builtin_step real_fmt cw rec wh B_format_name st = Crash
  | OutOfFuel => builtin_step real_fmt cw rec wh B_format_name st = OutOfFuel
  end.
Proof. exact Proofs.BstReal.format_name_law_real. Qed.
Print Assumptions format_name_law_real.

(* type soundness without any hypothesis about name formatting (C11's format_name_no_crash) *)
Theorem welltyped_no_crash_real : forall cw G ent tys cf s p s',
  ctx_ok G = true -> check G ent tys cf s p = Some s' ->
  forall n st, state_ok G ent tys st -> sabs (st_stack st) s ->
  exec_real cw n st p <> Crash /\
  (forall st', exec_real cw n st p = Ok st' -> state_ok G ent tys st' /\ sabs (st_stack st') s').
Proof. exact Proofs.BstReal.welltyped_no_crash_real. Qed.
Print Assumptions welltyped_no_crash_real.

Theorem state_ok_start : forall G tys st, ctx_ok G = true -> st_vars st = G -> st_evars st = [] -> st_buf st = [] ->
  state_ok G false tys st.
Proof. exact Proofs.BstTyping.state_ok_start. Qed.
Print Assumptions state_ok_start.


(* --- the commands: what each adds to which table ------------------------------------------------------------
   [fresh names vars]: the names are pairwise different up to letter case and none is bound in [vars]. *)
(* ENTRY: fields, the implicit crossref, entry integers, entry strings are appended, in this order *)
Theorem entry_declares : forall fmt cw fuel st fields ints strs,
  fresh (fields ++ [nm_crossref] ++ ints ++ strs) (st_vars st) ->
  run_command fmt cw fuel st (Cmd nm_entry [map IId fields; map IId ints; map IId strs]) =
  Ok (set_vars st (st_vars st ++ map (fun n => (lower n, OField n)) fields ++ [(nm_crossref, OCrossref)]
                            ++ map (fun n => (lower n, OEInt n)) ints ++ map (fun n => (lower n, OEStr n)) strs)).
Proof. exact Proofs.BstCommands.entry_declares. Qed.
Print Assumptions entry_declares.

(* ... and a name that is already bound (built-in, variable, function, earlier field -- also "crossref") is BibTeX's
   "already declared" error *)
Theorem declare_bound : forall mk n r st o, alookup str_eqb (lower n) (st_vars st) = Some o ->
  declare mk (IId n :: r) st = PyErr E_BST (-1).
Proof. exact Proofs.BstCommands.declare_bound. Qed.
Print Assumptions declare_bound.

Theorem function_declares : forall fmt cw fuel st f body, alookup str_eqb (lower f) (st_vars st) = None ->
  run_command fmt cw fuel st (Cmd nm_function [[IId f]; body]) = Ok (set_vars st (st_vars st ++ [(lower f, OFun body)])).
Proof. exact Proofs.BstCommands.function_declares. Qed.
Print Assumptions function_declares.

Theorem function_redeclared : forall fmt cw fuel st f body o, alookup str_eqb (lower f) (st_vars st) = Some o ->
  run_command fmt cw fuel st (Cmd nm_function [[IId f]; body]) = PyErr E_BST (-1).
Proof. exact Proofs.BstCommands.function_redeclared. Qed.
Print Assumptions function_redeclared.

(* INTEGERS / STRINGS append a new global holding 0 / "" for each (fresh) name ... *)
Theorem integers_declares : forall fmt cw fuel st names, fresh names (st_vars st) ->
  run_command fmt cw fuel st (Cmd nm_integers [map IId names]) =
  Ok (set_vars st (st_vars st ++ map (fun n => (lower n, OInt (VInt 0))) names)).
Proof. exact Proofs.BstCommands.integers_declares. Qed.
Print Assumptions integers_declares.

Theorem strings_declares : forall fmt cw fuel st names, fresh names (st_vars st) ->
  run_command fmt cw fuel st (Cmd nm_strings [map IId names]) =
  Ok (set_vars st (st_vars st ++ map (fun n => (lower n, OStr (VStr []))) names)).
Proof. exact Proofs.BstCommands.strings_declares. Qed.
Print Assumptions strings_declares.

(* ... and re-declaring a bound name (a variable, a function, a built-in) is the "already declared" error, as for ENTRY
   and FUNCTION and as in BibTeX (this was refuted before fix C03-F2: INTEGERS {swap$} silently replaced the built-in) *)
Theorem integers_redeclaration_is_error : forall fmt cw fuel st n r o, alookup str_eqb (lower n) (st_vars st) = Some o ->
  run_command fmt cw fuel st (Cmd nm_integers [IId n :: r]) = PyErr E_BST (-1) /\
  run_command fmt cw fuel st (Cmd nm_strings [IId n :: r]) = PyErr E_BST (-1).
Proof. exact Proofs.BstCommands.integers_redeclaration_is_error. Qed.
Print Assumptions integers_redeclaration_is_error.

Theorem macro_declares : forall fmt cw fuel st name value,
  run_command fmt cw fuel st (Cmd nm_macro [[IId name]; [IStr value]]) =
  Ok (set_macros st (aset lit_eqb (LStr name) (LStr value) (st_macros st))).
Proof. exact Proofs.BstCommands.macro_declares. Qed.
Print Assumptions macro_declares.

Theorem execute_runs : forall fmt cw fuel st f,
  run_command fmt cw fuel st (Cmd nm_execute [[IId f]]) = exec fmt cw fuel st [IId f].
Proof. exact Proofs.BstCommands.execute_runs. Qed.
Print Assumptions execute_runs.

(* READ installs what the database reader found: citation list, entries, preamble, reports *)
Theorem read_installs : forall fmt cw fuel st d more, st_reads st = d :: more ->
  run_command fmt cw fuel st (Cmd nm_read []) =
  Ok (add_warn (set_cites (set_db st (Some d) more) (r_cites d)) (repeat WRead (r_warnings d))).
Proof. exact Proofs.BstCommands.read_installs. Qed.
Print Assumptions read_installs.

(* READ then ITERATE: with C06's reader (engine_read = C05's command_read over the entries of the files) the function
   visits exactly C05's resolution -- the explicit citations (wildcard expanded, first spelling kept) followed by the
   cross-referenced parents that reach the threshold, minus the keys that are not in the database -- in that order.
   Hypothesis left as a bridge: every selected citation has an entry in the READ data (C06's stored_entries vs C05's
   bd_entries membership). *)
Theorem read_then_iterate_visits_resolved : forall fmt cw n st db m more f cite write,
  let d := Engines.engine_read db (st_cites st) m in
  let E := Citations.bd_entries (Citations.read_db (Some (st_cites st)) (map Engines.proj db)) in
  let ex := Spec.Citations.explicit_spec E (st_cites st) in
  st_reads st = d :: more ->
  vlookup f (st_vars st) = Some (OFun [IId cite; IId write]) ->
  vlookup cite (st_vars st) = Some (OBuiltin B_cite) ->
  vlookup write (st_vars st) = Some (OBuiltin B_write) ->
  (forall k, In k (r_cites d) -> alookup str_eqb k (r_entries d) <> None) ->
  exists st', run fmt cw (3 + n) st [Cmd nm_read []; Cmd nm_iterate [[IId f]]] = Ok st' /\
    st_buf st' = st_buf st ++
      map VStr (filter (fun c => Citations.ed_mem c E) (ex ++ Spec.Citations.crossrefs_spec E ex m)).
Proof. exact Proofs.BstCommands.read_then_iterate_visits_resolved. Qed.
Print Assumptions read_then_iterate_visits_resolved.

(* ---------------------------------------------------------------------------------- *)
(* non-vacuity: the hypotheses are met by the interpreter's real initial state, and the
   statements compute the expected values *)
Definition fmt0 : str -> str -> res str := fun _ _ => Ok [].
Definition cw0 : char -> Z := fun _ => 500%Z.
Definition st0 := initial_state [s2l "b"; s2l "a"; s2l "c"] [].

Example builtins_bound :
  vlookup (s2l "swap$") (st_vars st0) = Some (OBuiltin B_swap) /\
  vlookup (s2l "SWAP$") (st_vars st0) = Some (OBuiltin B_swap) /\
  vlookup (s2l "duplicate$") (st_vars st0) = Some (OBuiltin B_duplicate) /\
  vlookup (s2l "pop$") (st_vars st0) = Some (OBuiltin B_pop) /\
  vlookup (s2l "*") (st_vars st0) = Some (OBuiltin B_concat) /\
  vlookup (s2l "cite$") (st_vars st0) = Some (OBuiltin B_cite) /\
  vlookup (s2l "write$") (st_vars st0) = Some (OBuiltin B_write).
Proof. vm_compute. repeat split. Qed.

Example swap_swap_example :
  exec fmt0 cw0 10 (set_stack st0 [VInt 1; VStr (s2l "x")]) [IId (s2l "swap$")] =
    Ok (set_stack st0 [VStr (s2l "x"); VInt 1]) /\
  exec fmt0 cw0 10 (set_stack st0 [VInt 1; VStr (s2l "x")]) [IId (s2l "swap$"); IId (s2l "swap$")] =
    Ok (set_stack st0 [VInt 1; VStr (s2l "x")]).
Proof. vm_compute. split; reflexivity. Qed.

Example arithmetic_example :
  option_map st_stack (match exec fmt0 cw0 20 st0 [IInt 2; IInt 5; IId (s2l "-"); IInt 2; IInt 5; IId (s2l "<");
                                             IInt 5; IInt 2; IId (s2l ">"); IStr (s2l "a"); IStr (s2l "b"); IId (s2l "*")]
                       with Ok s => Some s | _ => None end)
  = Some [VStr (s2l "ab"); VInt 1; VInt 1; VInt (-3)].
Proof. vm_compute. reflexivity. Qed.

(* a bounded loop: #3 'gi := { gi } { gi #1 - 'gi := "x" write$ } while$  writes three x *)
Example while_example :
  let prog := [Cmd (s2l "INTEGERS") [[IId (s2l "gi")]];
               Cmd (s2l "FUNCTION") [[IId (s2l "f")];
                 [IInt 3; IQuote (s2l "gi"); IId (s2l ":=");
                  IFun [IId (s2l "gi")];
                  IFun [IId (s2l "gi"); IInt 1; IId (s2l "-"); IQuote (s2l "gi"); IId (s2l ":="); IStr (s2l "x"); IId (s2l "write$")];
                  IId (s2l "while$"); IId (s2l "newline$")]];
               Cmd (s2l "EXECUTE") [[IId (s2l "f")]]] in
  option_map output_of (match run fmt0 cw0 50 st0 prog with Ok s => Some s | _ => None end) = Some (s2l "xxx" ++ [c_nl])
  /\ run fmt0 cw0 3 st0 prog = OutOfFuel.
Proof. vm_compute. split; reflexivity. Qed.

(* ITERATE / SORT / REVERSE over three entries whose sort keys are their titles *)
Definition ent (k t : string) : str * entry := (s2l k, mkEntry (s2l k) (s2l "misc") [(s2l "title", s2l t)] None).
Definition rd := mkRead [s2l "b"; s2l "a"; s2l "c"] [ent "b" "z"; ent "a" "y"; ent "c" "y"] [] 0.
Example iterate_sort_reverse_example :
  let prog := [Cmd (s2l "ENTRY") [[IId (s2l "title")]; []; []];
               Cmd (s2l "FUNCTION") [[IId (s2l "presort")]; [IId (s2l "title"); IQuote (s2l "sort.key$"); IId (s2l ":=")]];
               Cmd (s2l "FUNCTION") [[IId (s2l "show")]; [IId (s2l "cite$"); IId (s2l "write$")]];
               Cmd (s2l "READ") [];
               Cmd (s2l "ITERATE") [[IId (s2l "show")]];
               Cmd (s2l "ITERATE") [[IId (s2l "presort")]];
               Cmd (s2l "SORT") [];
               Cmd (s2l "ITERATE") [[IId (s2l "show")]];
               Cmd (s2l "REVERSE") [[IId (s2l "show")]]] in
  option_map st_buf (match run fmt0 cw0 50 (initial_state [s2l "b"; s2l "a"; s2l "c"] [rd]) prog with Ok s => Some s | _ => None end)
  = Some (map (fun k => VStr (s2l k)) ["b"; "a"; "c";   "a"; "c"; "b";   "b"; "c"; "a"]%string).
Proof. vm_compute. reflexivity. Qed.

Example sort_hypothesis_example :
  let st := set_evars st0 [(s2l "b", [(nm_sort_key_, VStr (s2l "z"))]); (s2l "a", [(nm_sort_key_, VStr (s2l "y"))]);
                           (s2l "c", [(nm_sort_key_, VMissing (s2l "title"))])] in
  (forall c, In c (st_cites st) -> key_of st c <> None) /\
  option_map st_cites (match run_command fmt0 cw0 0 st (Cmd nm_sort []) with Ok s => Some s | _ => None end)
    = Some [s2l "c"; s2l "a"; s2l "b"].
Proof.
  split; [|vm_compute; reflexivity].
  intros c [<-|[<-|[<-|[]]]]; vm_compute; discriminate.
Qed.

Example newline_example :
  wrap (concat [s2l "ab"; s2l "c"]) 79 [c_space; c_space] = Ok (s2l "abc").
Proof. vm_compute. reflexivity. Qed.

(* a derivation in the big-step semantics: #1 { "t" } { "e" } if$ leaves "t" *)
Example bigstep_example :
  bigsteps fmt0 cw0 (model_simple fmt0 cw0) st0 [IInt 1; IFun [IStr (s2l "t")]; IFun [IStr (s2l "e")]; IId (s2l "if$")]
           (push (VStr (s2l "t")) st0).
Proof.
  eapply exec_sound with (n := 10). vm_compute. reflexivity.
Qed.

(* the checker accepts a program with a bounded loop, nested literals, assignment and string built-ins, in the
   interpreter's initial context extended by INTEGERS {gi} STRINGS {gs}; the context is sane *)
Definition G1 := Eval vm_compute in
  vset (s2l "gs") (OStr (VStr [])) (vset (s2l "gi") (OInt (VInt 0)) initial_vars).
Definition prog1 :=
  [IInt 3; IQuote (s2l "gi"); IId (s2l ":=");
   IFun [IId (s2l "gi"); IInt 0; IId (s2l ">")];
   IFun [IId (s2l "gi"); IInt 1; IId (s2l "-"); IQuote (s2l "gi"); IId (s2l ":=");
         IStr (s2l "ab{c}"); IId (s2l "gi"); IId (s2l "text.prefix$"); IId (s2l "purify$");
         IStr (s2l "u"); IId (s2l "change.case$"); IId (s2l "write$")];
   IId (s2l "while$");
   IId (s2l "gi"); IFun [IStr (s2l "yes")]; IFun [IInt 65; IId (s2l "int.to.chr$")]; IId (s2l "if$");
   IId (s2l "duplicate$"); IId (s2l "*"); IQuote (s2l "gs"); IId (s2l ":="); IId (s2l "newline$")].
Example welltyped_example :
  ctx_ok G1 = true /\ check G1 false [] 40 [] prog1 = Some [] /\
  (* ... and it is not accepted when an operand has the wrong kind *)
  check G1 false [] 40 [] [IStr (s2l "a"); IInt 1; IId (s2l "+")] = None /\
  check G1 false [] 40 [] [IInt 2147483648; IId (s2l "int.to.chr$")] = Some [AStr] /\
  check G1 false [] 40 [] [IInt 65; IId (s2l "int.to.chr$")] = Some [AStr].
Proof. vm_compute. repeat split. Qed.
Example welltyped_run_example :
  let st := set_vars (initial_state [] []) G1 in
  option_map output_of (match exec fmt0 cw0 60 st prog1 with Ok s => Some s | _ => None end)
  = Some (s2l "ABA" ++ [c_nl]).
Proof. vm_compute. reflexivity. Qed.

(* a derivation over the documented rules: #2 #5 - leaves -3 *)
Example doc_example :
  bigsteps fmt0 cw0 (builtin_doc fmt0 cw0) st0 [IInt 2; IInt 5; IId (s2l "-")]
           (set_stack (push (VInt 5) (push (VInt 2) st0)) [VInt (2 - 5)]).
Proof.
  eapply BS_cons; [apply BS_int|]. eapply BS_cons; [apply BS_int|]. eapply BS_cons; [|apply BS_nil].
  eapply BS_builtin with (b := B_minus); [vm_compute; reflexivity|reflexivity|].
  apply D_minus. reflexivity.
Qed.

(* the real formatter at work inside the interpreter: a forced tie ~~ stays a tie, a discretionary ~ after a long
   part becomes a space *)
Example format_name_real_example :
  option_map st_stack (match exec_real cw0 20 st0
     [IStr (s2l "Donald Ervin Knuth"); IInt 1; IStr (s2l "{ff~~}{ll}"); IId (s2l "format.name$");
      IStr (s2l "Donald Ervin Knuth"); IInt 1; IStr (s2l "{ff~}{ll}"); IId (s2l "format.name$")]
   with Ok s => Some s | _ => None end)
  = Some [VStr (s2l "Donald~Ervin Knuth"); VStr (s2l "Donald~Ervin~Knuth")].
Proof. vm_compute. reflexivity. Qed.

(* ENTRY in the interpreter's initial state: the hypothesis of entry_declares is met, and ENTRY {crossref} is an error *)
Example entry_example :
  fresh ([s2l "title"; s2l "Author"] ++ [nm_crossref] ++ [s2l "n"] ++ [s2l "label"]) (st_vars st0) /\
  run_command fmt0 cw0 0 st0 (Cmd nm_entry [[IId nm_crossref]; []; []]) = PyErr E_BST (-1).
Proof. split; [|vm_compute; reflexivity]. cbn [app fresh]. repeat split; try (vm_compute; reflexivity); vm_compute; intuition discriminate. Qed.
