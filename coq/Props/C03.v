(* Props/C03.v -- "BST style programs execute with BibTeX stack-language semantics". *)
From Pybtex Require Import Base.Prelude Base.PyChar Base.PyStr Model.BibtexStr Model.Wrap Model.Bst Proofs.Bst.

Theorem exec_nil : forall fmt cw fuel st, exec fmt cw fuel st [] = Ok st.
Proof. exact Proofs.Bst.exec_nil. Qed.
Print Assumptions exec_nil.
