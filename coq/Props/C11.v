(* Props/C11.v -- "format.name$ formats names as BibTeX does".
   Only statements, each closed by `exact <lemma>`, its assumptions printed, and Examples
   showing the hypotheses are met by non-trivial values.
   Model: Model/NameFormat.v (pybtex/bibtex/names.py, builtins.py format.name$);
   independent definitions (balanced, level1_letter_runs, legal_group, interleave, seps_rule): Spec/NameFormat.v. *)
From Pybtex Require Import Base.Prelude Base.PyChar Base.PyStr Model.BibtexStr Model.Names Model.NameFormat
  Spec.NameFormat Proofs.NameFormatParse Proofs.NameFormatFmt Proofs.NameFormatGrammar Proofs.NameFormatAbbrev Proofs.NameFormatRules Proofs.NameFormatAbbrevBraced.

(* the format parser terminates within its fuel and raises no foreign exception: every string
   is either parsed or rejected with a pybtex error *)
Theorem parse_total : forall f,
  (exists ps, parse_format f = Ok ps) \/ (exists c l, parse_format f = PyErr c l).
Proof. exact Proofs.NameFormatFmt.parse_total. Qed.
Print Assumptions parse_total.

(* malformed format strings are rejected with an error: unbalanced braces; a {...} part whose
   brace-level-1 letters are not one of f ff l ll v vv j jj (caselessly) or occur in two runs *)
Theorem malformed_rejected : forall f,
  ~ balanced f \/ forallb legal_group (level1_letter_runs f) = false ->
  exists c l, parse_format f = PyErr c l.
Proof. exact Proofs.NameFormatFmt.malformed_rejected. Qed.
Print Assumptions malformed_rejected.

(* join: tokens interleaved with separators, where the separator after token i of n is the tie
   iff i = n-2 (before the last token) or i = 0 and the first token has fewer than 3 text
   characters; for n <= 2 every separator is the tie.  (An error only from bibtex_len of the
   first token: "too many nested braces".) *)
Theorem join_ties : forall (ws : list str) tie sp,
  join_words ws tie sp =
  if Nat.leb 3 (length ws)
  then do n <- bibtex_len (hd [] ws); Ok (interleave ws (seps_rule (length ws) (Nat.ltb n 3) tie sp))
  else Ok (interleave ws (repeat tie (pred (length ws)))).
Proof. exact join_ties_eq. Qed.
Print Assumptions join_ties.

(* a {...} part with letter c is emitted only if the corresponding name part is non-empty; then
   it is pre-text, the tokens (full, or abbreviated hyphen-aware with the part's delimiter)
   joined by the explicit separator or by the tie-or-space rule (with a period when
   abbreviating), post-text, and the discretionary tie: "~" gives a tie iff the formatted part
   has fewer than 3 text characters, else a space; "~~" always a tie *)
Theorem part_emitted_rule : forall np p c names, np_char np = Some c -> get_names c p = Ok names ->
  (names = [] -> format_name_part np p = Ok []) /\
  (names <> [] -> forall out, format_name_part np p = Ok out ->
     exists toks joined disc,
       (if np_abbr np then map_res (fun n => bibtex_abbreviate n (np_delim np)) names = Ok toks else toks = names) /\
       length toks = length names /\
       match np_delim np with
       | Some d => joined = join d toks
       | None => join_words toks (dots (np_abbr np) ++ [c_tilde]) (dots (np_abbr np) ++ [c_space]) = Ok joined
       end /\
       disc_rule (np_tie np) (np_pre np ++ joined ++ np_post np) disc /\
       out = np_pre np ++ joined ++ np_post np ++ disc).
Proof. exact part_rule. Qed.
Print Assumptions part_emitted_rule.

(* formatting any person (arbitrary token lists) with any format string never raises a foreign
   exception and never exhausts the model's fuel (this was false before fix 3ca07e7: {FF}) *)
Theorem format_no_crash : forall f p,
  (exists out, format_person f p = Ok out) \/ (exists c l, format_person f p = PyErr c l).
Proof. exact format_person_no_crash. Qed.
Print Assumptions format_no_crash.

(* the same for format_name(name, format) and for the format.name$ built-in: with C04's
   person_of_string_total (Person() never raises a foreign exception) nothing is assumed any more *)
Theorem format_name_no_crash : forall (name f : str),
  (exists out, format_name name f = Ok out) \/ (exists c l, format_name name f = PyErr c l).
Proof. exact format_name_no_crash_thm. Qed.
Print Assumptions format_name_no_crash.

Theorem format_name_n_no_crash : forall (f names : str) n,
  (exists out, format_name_n names n f = Ok out) \/ (exists c l, format_name_n names n f = PyErr c l).
Proof. exact format_name_n_no_crash_thm. Qed.
Print Assumptions format_name_n_no_crash.

(* the name index: out of range is a BibTeX error (was IndexError / wrap-around before fix
   703bfb1), in range selects the n-th name of the list *)
Theorem format_name_n_range : forall names n f l, split_name_list names = Ok l ->
  ((n < 1)%Z \/ (Z.of_nat (length l) < n)%Z -> format_name_n names n f = PyErr E_NONAME (-1)) /\
  ((1 <= n <= Z.of_nat (length l))%Z -> format_name_n names n f = format_name (nth (Z.to_nat (n - 1)) l []) f).
Proof. exact Proofs.NameFormatFmt.format_name_n_range. Qed.
Print Assumptions format_name_n_range.

(* ---- growth ---- *)
(* brace-level-0 text is kept verbatim and in order: the Text parts of the parse are exactly the
   level-0 characters of the format string (Text.format returns the text unchanged) *)
Theorem level0_verbatim : forall f ps, parse_format f = Ok ps ->
  concat (map part_text ps) = level0_text f 0 /\ (forall t p, format_part (PText t) p = Ok t).
Proof. exact level0_verbatim_full. Qed.
Print Assumptions level0_verbatim.

(* every format string of the grammar (level-0 characters; parts made of pre-text, one legal
   letter group, optional {separator}, post-text, with nested balanced groups in the texts) is accepted *)
Theorem wellformed_accepted : forall f, wf_format f -> exists ps, parse_format f = Ok ps.
Proof. exact wellformed_accepted_thm. Qed.
Print Assumptions wellformed_accepted.

(* and a well-formed part is split into exactly its pre-text, lower-cased letters, separator and post-text *)
Theorem wellformed_group_parsed : forall (pre ls dl post r : str),
  verb pre -> legal_letters ls = true -> verb post ->
  (walk dl 0 = Some 0 ->
   parse_name_part (pre ++ ls ++ c_lbrace :: dl ++ c_rbrace :: post ++ c_rbrace :: r) = Ok ((pre, Some (lower ls), Some dl, post), r)) /\
  (is_lbrace (hd 0%N post) = false ->
   parse_name_part (pre ++ ls ++ post ++ c_rbrace :: r) = Ok ((pre, Some (lower ls), None, post), r)) /\
  parse_name_part (pre ++ c_rbrace :: r) = Ok ((pre, None, None, []), r).
Proof. exact group_parsed. Qed.
Print Assumptions wellformed_group_parsed.

(* NamePart.__init__ on such a tuple: the letter, abbreviation iff a single letter, and the
   trailing ties of the post-text: none / "~" / "~~" are detected and removed *)
Theorem letters_and_ties : forall pre v dl q, format_chars_ok false v = true -> no_trailing_tilde q ->
  mk_name_part (pre, Some v, dl, q) = Ok (mkNP pre (Some (hd 0%N v)) (Nat.eqb (length v) 1) dl q 0) /\
  mk_name_part (pre, Some v, dl, q ++ [c_tilde]) = Ok (mkNP pre (Some (hd 0%N v)) (Nat.eqb (length v) 1) dl q 1) /\
  mk_name_part (pre, Some v, dl, q ++ [c_tilde; c_tilde]) = Ok (mkNP pre (Some (hd 0%N v)) (Nat.eqb (length v) 1) dl q 2).
Proof. exact letters_and_ties_thm. Qed.
Print Assumptions letters_and_ties.

(* hyphen-aware abbreviation: for a word without an opening brace, the first letters of the
   non-empty hyphen-separated pieces, joined by the part's delimiter (".-" by default) *)
Theorem abbrev_hyphen : forall w d, no_lbrace w = true ->
  bibtex_abbreviate w d =
  Ok (join (delim_or_default d) (filter nonempty (map (fun piece => first_alpha (strip piece)) (split_char c_hyphen w [])))).
Proof. exact abbrev_hyphen_thm. Qed.
Print Assumptions abbrev_hyphen.

(* ---- round 2: the rules over BibTeX's text length (Spec/BibtexStrSpec.text_len, tied to
        bibtex_len by C12's len_spec): measuring anything else -- len(), say -- contradicts these ---- *)

(* join = interleaving by the Spec rule, the first token measured in BibTeX text characters *)
Theorem join_ties_spec : forall (ws : list str) tie sp out, join_words ws tie sp = Ok out ->
  out = interleave ws (seps_rule (length ws) (Nat.ltb (text_len (hd [] ws)) 3) tie sp).
Proof. exact join_ties_text_len. Qed.
Print Assumptions join_ties_spec.

(* the Spec rule in words: the separator after token i of n is the tie exactly before the last
   token and after a short first token *)
Theorem sep_rule_meaning : forall n b (tie sp : str) i, tie <> sp ->
  (sep_rule n b tie sp i = tie <-> (S (S i) = n \/ (i = 0 /\ b = true))).
Proof. exact sep_rule_meaning_thm. Qed.
Print Assumptions sep_rule_meaning.

(* the whole rule for a part with a letter and a non-empty name part *)
Theorem part_format_spec : forall np p c names out, np_char np = Some c -> get_names c p = Ok names ->
  names <> [] -> format_name_part np p = Ok out ->
  exists toks disc,
    (if np_abbr np then map_res (fun n => bibtex_abbreviate n (np_delim np)) names = Ok toks else toks = names) /\
    length toks = length names /\
    disc_spec (np_tie np) (np_pre np ++ joined_spec np toks ++ np_post np) disc /\
    out = np_pre np ++ joined_spec np toks ++ np_post np ++ disc.
Proof. exact part_format_spec_thm. Qed.
Print Assumptions part_format_spec.

(* end to end, no explicit separator: the tokens (with a period each when abbreviating) are
   separated by a tie exactly after a first token of BibTeX text length < 3 and before the last
   token, by a space elsewhere *)
Theorem tie_rule_end_to_end : forall np p c names out, np_char np = Some c -> get_names c p = Ok names ->
  np_delim np = None -> names <> [] -> format_name_part np p = Ok out ->
  exists toks disc,
    (if np_abbr np then map_res (fun n => bibtex_abbreviate n None) names = Ok toks else toks = names) /\
    length toks = length names /\
    out = np_pre np
          ++ interleave toks (seps_rule (length toks) (Nat.ltb (text_len (hd [] toks)) 3)
                                        (dots (np_abbr np) ++ [c_tilde]) (dots (np_abbr np) ++ [c_space]))
          ++ np_post np ++ disc.
Proof. exact tie_rule_end_to_end_thm. Qed.
Print Assumptions tie_rule_end_to_end.

(* an explicit separator -- the EMPTY one is a case of its own, not "no separator" -- is what
   stands between the tokens (and between the hyphen-separated letters of an abbreviated token):
   no tie, space or period is inserted; with "{}" the tokens are simply concatenated *)
Theorem explicit_separator_used : forall np p c names d out, np_char np = Some c -> get_names c p = Ok names ->
  np_delim np = Some d -> names <> [] -> format_name_part np p = Ok out ->
  exists toks disc,
    (if np_abbr np then map_res (fun n => bibtex_abbreviate n (Some d)) names = Ok toks else toks = names) /\
    out = np_pre np ++ join d toks ++ np_post np ++ disc /\
    (d = [] -> out = np_pre np ++ concat toks ++ np_post np ++ disc).
Proof. exact explicit_separator_used_thm. Qed.
Print Assumptions explicit_separator_used.

(* and the parser keeps "{}" (Some "") apart from no separator (None) *)
Theorem empty_separator_distinct : forall (pre ls post r : str),
  verb pre -> legal_letters ls = true -> verb post -> is_lbrace (hd 0%N post) = false ->
  parse_name_part (pre ++ ls ++ c_lbrace :: c_rbrace :: post ++ c_rbrace :: r) = Ok ((pre, Some (lower ls), Some [], post), r) /\
  parse_name_part (pre ++ ls ++ post ++ c_rbrace :: r) = Ok ((pre, Some (lower ls), None, post), r).
Proof. exact empty_separator_distinct_thm. Qed.
Print Assumptions empty_separator_distinct.

(* the discretionary tie: the part's output is its body followed by nothing (no trailing tie),
   by a tie iff the body has fewer than 3 BibTeX text characters, else a space ("~"), or by a
   tie always ("~~") *)
Theorem discretionary_tie_rule : forall np p c names out, np_char np = Some c -> get_names c p = Ok names ->
  names <> [] -> format_name_part np p = Ok out ->
  exists body disc, out = body ++ disc /\
    match np_tie np with
    | 1 => disc = if Nat.ltb (text_len body) 3 then [c_tilde] else [c_space]
    | 2 => disc = [c_tilde]
    | _ => disc = []
    end.
Proof. exact discretionary_tie_rule_thm. Qed.
Print Assumptions discretionary_tie_rule.

(* hyphen-aware abbreviation of ANY balanced word (braces, special characters): the word is its
   pieces joined by hyphens, every piece balanced (so the splitting hyphens are at brace level 0),
   and the result interleaves the delimiter between the non-empty letters, each the first letter or
   special character among the text characters of its stripped piece (C12: split_never_in_braces,
   first_letter_spec) *)
Theorem abbrev_hyphen_braced : forall w d out, Spec.BibtexStrSpec.balanced w -> bibtex_abbreviate w d = Ok out ->
  (w = [] /\ out = []) \/
  exists pieces letters,
    w = join [c_hyphen] pieces /\ Forall Spec.BibtexStrSpec.balanced pieces /\
    Forall2 letter_of pieces letters /\
    out = join (delim_or_default d) (filter nonempty letters).
Proof. exact abbrev_hyphen_braced_thm. Qed.
Print Assumptions abbrev_hyphen_braced.

(* C11's and C12's independent notions of brace balance are the same *)
Theorem balanced_specs_agree : forall s, balanced s <-> Spec.BibtexStrSpec.balanced s.
Proof. exact balanced_agree. Qed.
Print Assumptions balanced_specs_agree.

(* ---- non-vacuity ---- *)
Example unbalanced_example : ~ balanced (s2l "{ff") /\ ~ balanced (s2l "ff}") /\ balanced (s2l "{{x}ff{.}~}").
Proof. unfold balanced. vm_compute. repeat split; congruence. Qed.
Example bad_letters_example :
  forallb legal_group (level1_letter_runs (s2l "{ll}{fl}")) = false /\
  forallb legal_group (level1_letter_runs (s2l "{ff ll}")) = false /\
  forallb legal_group (level1_letter_runs (s2l "{fff}")) = false /\
  forallb legal_group (level1_letter_runs (s2l "{ {x}FF{ab}, ~}{, jj}")) = true.
Proof. vm_compute. auto. Qed.
Example join_example :
  join_words [s2l "a"; s2l "long"; s2l "long"; s2l "road"] [c_tilde] [c_space] = Ok (s2l "a~long long~road") /\
  join_words [s2l "very"; s2l "long"; s2l "phrase"] [c_tilde] [c_space] = Ok (s2l "very long~phrase").
Proof. vm_compute. auto. Qed.
Example part_example :
  (do ps <- parse_format (s2l "{f.~}{vv~}{ll}{, jj}"); do pr <- person_of_string (s2l "Jean-Pierre de la Fontaine, Jr"); Ok (ps, fst pr))
  <> Crash /\
  format_name (s2l "Charles Louis Xavier Joseph de la Vallee Poussin") (s2l "{vv~}{ll}{, jj}{, f.}")
  = Ok (s2l "de~la Vallee~Poussin, C.~L. X.~J.", false).
Proof. vm_compute. split; [congruence|reflexivity]. Qed.
Example range_example :
  format_name_n (s2l "A B and C D") 3 (s2l "{ll}") = PyErr E_NONAME (-1) /\
  format_name_n (s2l "A B and C D") 0 (s2l "{ll}") = PyErr E_NONAME (-1) /\
  format_name_n (s2l "A B and C D") 2 (s2l "{ff~}{ll}") = Ok (s2l "C~D", false).
Proof. vm_compute. auto. Qed.
Example wf_example : wf_format (s2l "{f.~}") /\ wf_format (s2l "a{{x}ll{-}~~}").
Proof.
  split.
  - apply (wf_grp (s2l "f.~") []); [|constructor].
    apply (wfg_default [] (s2l "f") (s2l ".~")); [constructor|reflexivity| |reflexivity].
    repeat (apply verb_char; [reflexivity|]). constructor.
  - apply wf_char; [reflexivity|reflexivity|].
    apply (wf_grp (s2l "{x}ll{-}~~") []); [|constructor].
    apply (wfg_sep (s2l "{x}") (s2l "ll") (s2l "-") (s2l "~~")); [|reflexivity|reflexivity|].
    + apply (verb_group (s2l "x") []); [reflexivity|constructor].
    + repeat (apply verb_char; [reflexivity|]). constructor.
Qed.
Example group_example :
  parse_format (s2l "x{{a}FF{-}, ~}") =
  Ok [PText (s2l "x"); PName (mkNP (s2l "{a}") (Some 102%N) false (Some (s2l "-")) (s2l ", ") 1)].
Proof. vm_compute. reflexivity. Qed.
Example abbrev_example :
  bibtex_abbreviate (s2l "Jean-Pierre") None = Ok (s2l "J.-P") /\ bibtex_abbreviate (s2l "Jean--Pierre") (Some []) = Ok (s2l "JP")
  /\ no_lbrace (s2l "Jean-Pierre") = true.
Proof. vm_compute. auto. Qed.
(* a first token that is long for len() but short for BibTeX (one special character): tie *)
Example text_len_not_len_example :
  format_name (s2l "{\\'E} Bb Cc Dd Ee") (s2l "{ff}") = Ok (s2l "{\\'E}~Bb Cc~Dd", false) /\
  format_name (s2l "Abc Bb Cc Dd Ee") (s2l "{ff}") = Ok (s2l "Abc Bb Cc~Dd", false) /\
  text_len (s2l "{\\'E}") = 1 /\ length (s2l "{\\'E}") = 6.
Proof. vm_compute. auto. Qed.
Example empty_separator_example :
  format_name (s2l "Jean-Pierre Marie Xu") (s2l "{f{}}") = Ok (s2l "JPM", false) /\
  format_name (s2l "Jean-Pierre Marie Xu") (s2l "{f}") = Ok (s2l "J.-P.~M", false) /\
  format_name (s2l "Jean-Pierre Marie Xu") (s2l "{ff{}}") = Ok (s2l "Jean-PierreMarie", false) /\
  format_name (s2l "Ab Cd Xu") (s2l "{f~}|{f~~}|{ff~}") = Ok (s2l "A.~C |A.~C~|Ab~Cd ", false).
Proof. vm_compute. auto. Qed.
Example abbrev_braced_example :
  bibtex_abbreviate (s2l "{\\'E}douard-{Jean-Paul}") None = Ok (s2l "{\\'E}.-J") /\
  Spec.BibtexStrSpec.balanced (s2l "{\\'E}douard-{Jean-Paul}").
Proof. vm_compute. auto. Qed.
