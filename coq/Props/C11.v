(* Props/C11.v -- format.name$ formats names as BibTeX does.  Statements only. *)
From Pybtex Require Import Base.Prelude Base.PyChar Base.PyStr Model.BibtexStr Model.Names Model.NameFormat Proofs.NameFormat.

Theorem empty_format : parse_format [] = Ok [].
Proof. exact parse_empty_format. Qed.
Print Assumptions empty_format.
