(* Props/C07.v -- Python-engine bibliography: complete, ordered, uniquely labelled, lossless.
   Only statements, each closed by `exact <lemma>`, its assumptions printed, and Examples showing
   that the hypotheses are met by non-trivial values.  Models: Model/Template.v (the template
   engine over flat rich text), Model/Styles.v (labels, sorting, BaseStyle), Model/Citations.v
   (C05: citation resolution). *)
From Pybtex Require Import Base.Prelude Base.PyChar Base.PyStr Model.RtTypes Model.Citations Model.Template Model.Styles
  Proofs.Template Proofs.TemplateEmit Proofs.TemplateFuel Proofs.Styles Proofs.StylesEmit Proofs.NameStyles Proofs.StylesRound2.
Require Import Coq.Sorting.Permutation Coq.Sorting.Sorted.

(* exactly one formatted entry per resolved citation (the citations resolved as in C05:
   wildcard expansion, cross-referenced parents, citations without an entry dropped) *)
Theorem one_entry_per_citation : forall cf tbl tp db cites out,
  format_bibliography cf tbl tp db cites = TOk out ->
  length out = length (fst (resolved db cites (cf_mincross cf))) /\
  Permutation (map fe_key out) (fst (resolved db cites (cf_mincross cf))).
Proof. exact one_entry_per_citation_lemma. Qed.
Print Assumptions one_entry_per_citation.

(* sorting style none: citation order *)
Theorem order_none : forall cf tbl tp db cites out,
  cf_sort cf = SNone -> format_bibliography cf tbl tp db cites = TOk out ->
  map fe_key out = fst (resolved db cites (cf_mincross cf)).
Proof. exact order_none_lemma. Qed.
Print Assumptions order_none.

(* sorting style author_year_title: the output is the resolved entries permuted into
   non-decreasing order of (author/editor key, year, title) (Python's tuple / str order), and
   entries with equal keys keep the order in which they were cited *)
Theorem order_author_year_title : forall cf tbl tp db cites out,
  cf_sort cf = SAuthorYearTitle -> format_bibliography cf tbl tp db cites = TOk out ->
  exists es sorted,
    map e_key es = fst (resolved db cites (cf_mincross cf)) /\ map fe_key out = map e_key sorted /\
    Permutation es sorted /\
    StronglySorted (fun a b => key_leb (sorting_key a) (sorting_key b) = true) sorted /\
    forall a, filter (fun e => key_eqb (sorting_key e) (sorting_key a)) sorted
              = filter (fun e => key_eqb (sorting_key e) (sorting_key a)) es.
Proof. exact order_ayt_lemma. Qed.
Print Assumptions order_author_year_title.

(* the order used is a total preorder whose equivalence is equality of the key triples *)
Theorem sorting_order_is_total_order : forall a b c : sortkey,
  key_leb a a = true /\ (key_leb a b = false -> key_leb b a = true) /\
  (key_leb a b = true -> key_leb b c = true -> key_leb a c = true) /\
  (key_leb a b = true -> key_leb b a = true -> a = b).
Proof. exact key_leb_order. Qed.
Print Assumptions sorting_order_is_total_order.

(* label style number: the labels are the decimal numerals 1..n in output order, pairwise distinct *)
Theorem number_labels_in_order : forall cf tbl tp db cites out,
  cf_label cf = LNumber -> format_bibliography cf tbl tp db cites = TOk out ->
  map fe_label out = map nat_str (seq 1 (length out)) /\ NoDup (map fe_label out).
Proof. exact number_labels_lemma. Qed.
Print Assumptions number_labels_in_order.

(* nat_str is the decimal representation: reading the digits back gives the number *)
Theorem number_label_is_decimal : forall n, nat_str n = uint_str (Nat.to_uint n) /\ Nat.of_uint (Nat.to_uint n) = n.
Proof. exact nat_str_is_decimal. Qed.
Print Assumptions number_label_is_decimal.

(* label style alpha: suffix letters a, b, ... in order of appearance, only for repeated labels *)
Theorem alpha_suffix_spec : forall ls i l,
  nth_error ls i = Some l ->
  nth_error (disambiguate ls) i =
  Some (if Nat.eqb (count_occ_str ls l) 1 then l
        else l ++ [(97 + N.of_nat (count_occ_str (firstn i ls) l))%N]).
Proof. exact disambiguate_nth. Qed.
Print Assumptions alpha_suffix_spec.

(* FULL STATEMENT (refuted, finding F12):
   forall es ls, alpha_labels es = Ok ls -> NoDup ls. *)
Theorem alpha_labels_distinct_refuted : exists es ls, alpha_labels es = Ok ls /\ ~ NoDup ls.
Proof. exact alpha_distinct_refuted_lemma. Qed.
Print Assumptions alpha_labels_distinct_refuted.

(* the strongest true variant: distinct unless some base label is another base label plus one character *)
Theorem alpha_labels_distinct_partial : forall es bases ls,
  mapR format_label es = Ok bases -> alpha_labels es = Ok ls ->
  (forall l l' c, In l bases -> In l' bases -> l <> l' ++ [c]) ->
  NoDup ls.
Proof. exact alpha_labels_partial_lemma. Qed.
Print Assumptions alpha_labels_distinct_partial.

(* a sentence with add_period that is not empty ends with one of . ? ! *)
Theorem sentence_terminated : forall c cf cp sep cs v,
  eval c (TSentence cf cp true sep cs) = TOk v -> vflat v <> [] -> ends_term (vflat v) = true.
Proof. exact sentence_terminated_lemma. Qed.
Print Assumptions sentence_terminated.

(* FULL STATEMENT (refuted, finding F24): every entry ends with a sentence terminator.  A template of
   the shape of unsrt's `misc` evaluates to the empty text when none of its fields is present *)
Theorem entry_terminated_refuted : exists c, eval_top c misc_like = TOk [] /\ ends_term [] = false.
Proof. exact entry_terminated_refuted_lemma. Qed.
Print Assumptions entry_terminated_refuted.

(* a FieldIsMissing error names the entry being formatted and a field (or role) that is defined
   neither in the entry nor along its cross-references *)
Theorem missing_field_error_names_field_and_entry : forall c t fl k,
  eval c t = TMissing fl k ->
  k = e_key (c_entry c) /\ (field_undefined c fl \/ role_undefined c fl).
Proof. exact eval_missing_sound_lemma. Qed.
Print Assumptions missing_field_error_names_field_and_entry.

(* a required leaf (outside every `optional`, not in a later alternative of first_of) whose field is
   undefined: the template does not evaluate to a text *)
Theorem missing_required_reported : forall c t n,
  required t n -> undefined c n -> forall v, eval c t <> TOk v.
Proof. exact required_missing_lemma. Qed.
Print Assumptions missing_required_reported.

(* ... and then no bibliography is produced at all *)
Theorem missing_required_fails_bibliography : forall cf tbl tp db cites e t n,
  In e (entries_of db (fst (resolved db cites (cf_mincross cf)))) ->
  template_of tp e = Some t -> required t n ->
  undefined (mkC e (Some db) tbl (cf_names cf) (cf_abbr cf)) n ->
  forall out, format_bibliography cf tbl tp db cites <> TOk out.
Proof. exact missing_required_fails. Qed.
Print Assumptions missing_required_fails_bibliography.

(* brace-protected text keeps its case: the documented case and dash transformations
   (lower, upper, capitalize, capfirst, dashify, a sentence's capfirst/capitalize/add_period) leave the
   subsequence of protected characters untouched *)
Theorem protected_case_kept : forall a f g, apply_afunc a f = TOk g -> filter protected g = filter protected f.
Proof. exact apply_afunc_protected. Qed.
Print Assumptions protected_case_kept.
Theorem protected_case_kept_in_sentence : forall cf cp ap sep vs,
  filter protected (sentence_vals cf cp ap sep vs) = filter protected (join_vals sep None None vs).
Proof. exact sentence_vals_protected. Qed.
Print Assumptions protected_case_kept_in_sentence.


(* ---- every field the style prints appears in the rendered text ---- *)

(* `live c t f`: f is the value of a field / names leaf of t that is printed: not under a failed
   `optional`, in the chosen alternative of every first_of.  `chars` folds the case and forgets the
   markup; `infix` is contiguous occurrence.  Every live leaf occurs in the text the template evaluates
   to, up to the case transformations (capfirst / capitalize / lower / upper of sentences). *)
Theorem eval_emits_leaves : forall c t f v,
  live c t f -> eval c t = TOk v -> infix (chars f) (chars (vflat v)).
Proof. exact eval_emits_leaves_stmt. Qed.
Print Assumptions eval_emits_leaves.

(* ... and so in every formatted entry of a produced bibliography, which is the evaluation of its
   entry's template *)
Theorem bibliography_emits_leaves : forall cf tbl tp db cites out x,
  format_bibliography cf tbl tp db cites = TOk out -> In x out ->
  exists e t,
    In e (entries_of db (fst (resolved db cites (cf_mincross cf)))) /\ fe_key x = e_key e /\
    template_of tp e = Some t /\
    eval_top (mkC e (Some db) tbl (cf_names cf) (cf_abbr cf)) t = TOk (fe_text x) /\
    forall f, live (mkC e (Some db) tbl (cf_names cf) (cf_abbr cf)) t f -> infix (chars f) (chars (fe_text x)).
Proof. exact bibliography_emits_leaves_lemma. Qed.
Print Assumptions bibliography_emits_leaves.

(* the value of a field leaf: the stored value (own field, persons of that role, or inherited through
   crossref), parsed by Text.from_latex unless raw, with the apply function on top *)
Theorem field_leaf_value : forall c n a raw g,
  eval_field c n a raw = TOk (VT g) ->
  exists v f,
    find_field (ff_fuel (c_db c)) (c_db c) (c_entry c) n [] = Some (Some v) /\
    (if raw then f = plain v else from_latex (c_dec c) v = TOk f) /\
    apply_afunc a f = TOk g.
Proof. exact eval_field_spec. Qed.
Print Assumptions field_leaf_value.

(* Text.from_latex keeps every character of the (decoded) value except the braces, in order *)
Theorem from_latex_keeps_characters : forall s level f,
  parse_latex s level = TOk f -> map fst f = map ACh (filter not_brace s).
Proof. exact parse_latex_chars. Qed.
Print Assumptions from_latex_keeps_characters.

(* the documented case transformations change nothing but the case *)
Theorem case_transformations_fold : forall a f g,
  a <> ADashify -> apply_afunc a f = TOk g -> chars g = chars f.
Proof. exact apply_afunc_chars. Qed.
Print Assumptions case_transformations_fold.

(* the documented dash transformation: everything but the unprotected hyphens is kept in order,
   and no unprotected hyphen is left (each run has become one ndash symbol) *)
Theorem dashify_spec : forall f,
  nodash (f_dashify f) = nodash f /\ Forall (fun p => is_dash p = false) (f_dashify f).
Proof. exact dashify_spec_lemma. Qed.
Print Assumptions dashify_spec.

(* label style alpha in a bibliography: base labels of the entries in output order, disambiguated *)
Theorem alpha_labels_of_bibliography : forall cf tbl tp db cites out,
  cf_label cf = LAlpha -> format_bibliography cf tbl tp db cites = TOk out ->
  exists sorted bases,
    map fe_key out = map e_key sorted /\ mapR format_label sorted = Ok bases /\
    map fe_label out = disambiguate bases.
Proof. exact alpha_labels_of_bibliography_lemma. Qed.
Print Assumptions alpha_labels_of_bibliography.


(* ---- totality ---- *)

(* the cross-reference chain of Entry._find_field terminates within the model's fuel (|db|+2: the entry,
   pairwise different database entries, one call that finds its entry already visited), so evaluating
   a template never runs out of fuel: every outcome is a text, FieldIsMissing, another error or a crash *)
Theorem find_field_total : forall db e name, find_field (ff_fuel db) db e name [] <> None.
Proof. exact find_field_fuel. Qed.
Print Assumptions find_field_total.
Theorem eval_never_out_of_fuel : forall c t, eval c t <> TFuel.
Proof. exact eval_no_fuel_lemma. Qed.
Print Assumptions eval_never_out_of_fuel.


(* ---- round 2 ---- *)

(* n = 0: an empty citation list, or an empty database with no citations, gives the empty bibliography
   (it is produced, not an error), and nothing is formatted when nothing is resolved *)
Theorem empty_citations_empty_bibliography : forall cf tbl tp db, format_bibliography cf tbl tp db (Some []) = TOk [].
Proof. exact empty_citations_lemma. Qed.
Print Assumptions empty_citations_empty_bibliography.
Theorem empty_database_empty_bibliography : forall cf tbl tp cites,
  (forall c, cites = Some c -> c = []) -> format_bibliography cf tbl tp [] cites = TOk [].
Proof. exact empty_database_lemma. Qed.
Print Assumptions empty_database_empty_bibliography.
Theorem no_citation_no_entry : forall cf tbl tp db cites out,
  format_bibliography cf tbl tp db cites = TOk out -> fst (resolved db cites (cf_mincross cf)) = [] -> out = [].
Proof. exact no_citation_no_entry_lemma. Qed.
Print Assumptions no_citation_no_entry.

(* the name styles plain and lastfirst (modelled in Model/Template.format_name, not dumped): every name
   token of the person -- first and middle names abbreviated when abbreviate_names, all others in full --
   appears in the style's order, with nothing but the style's separators (space, tie, ", ") before,
   between and after *)
Theorem name_tokens_emitted : forall tbl ns abbr p f,
  format_name tbl ns abbr p = TOk f ->
  exists fi mi pl la li,
    rich_names tbl (p_first p) = TOk fi /\ rich_names tbl (p_middle p) = TOk mi /\
    rich_names tbl (p_prelast p) = TOk pl /\ rich_names tbl (p_last p) = TOk la /\
    rich_names tbl (p_lineage p) = TOk li /\
    woven (name_tokens ns abbr fi mi pl la li) f.
Proof. exact name_tokens_emitted_lemma. Qed.
Print Assumptions name_tokens_emitted.
(* "abbreviated": a token without delimiter that consists of letters becomes first letter + period *)
Theorem abbreviated_token : forall f,
  forallb (fun p => negb (is_delim p)) f = true -> f_abbreviate f = abbr_seg f.
Proof. exact abbreviate_simple_token. Qed.
Print Assumptions abbreviated_token.

(* the sort key (a total function: sorting_key never raises) ignores the case of the person part exactly
   as the code does -- str.lower of the joined names -- and nothing else: braces stay, year and title are
   compared as written (Examples below) *)
Theorem sort_key_ignores_case_of_names : forall ps,
  persons_key (map lower_person ps) = persons_key ps /\ lower (persons_key ps) = persons_key ps.
Proof. exact persons_key_case_lemma. Qed.
Print Assumptions sort_key_ignores_case_of_names.

(* an entry ends with a sentence terminator -- the two exceptions are exactly the hypotheses: the entry
   is empty (F24), or its last non-empty block is not terminated, i.e. a trailing bare word (F30) *)
Theorem entry_terminated : forall c cs vs v,
  evals c cs = TOk vs -> eval c (TToplevel cs) = TOk v -> vflat v <> [] ->
  (forall w, last_truthy vs = Some w -> ends_term (vflat w) = true) ->
  ends_term (vflat v) = true.
Proof. exact toplevel_terminated_lemma. Qed.
Print Assumptions entry_terminated.
Theorem words_block_terminated : forall c sep cs vs v,
  evals c cs = TOk vs -> eval c (TWords sep cs) = TOk v -> vflat v <> [] ->
  (forall w, last_truthy vs = Some w -> ends_term (vflat w) = true) ->
  ends_term (vflat v) = true.
Proof. exact words_terminated_lemma. Qed.
Print Assumptions words_block_terminated.
(* F30 witness: toplevel [sentence [title], words ['In', sentence [booktitle]]] with an empty booktitle *)
Theorem trailing_bare_word_refuted :
  exists r, eval_top in_ctx in_like = TOk r /\ fstr r = [84; 46; 60; 110; 101; 119; 98; 108; 111; 99; 107; 62; 73; 110]%N /\
            r <> [] /\ ends_term r = false.
Proof. exact trailing_bare_word_refuted_lemma. Qed.
Print Assumptions trailing_bare_word_refuted.

(* FC14a (C14): names(role) reads the entry's own persons; the database is never consulted, so a role
   inherited through crossref is reported missing although field(role) finds it *)
Theorem names_ignores_database : forall e db db' tbl ns ab role s s2 ls,
  eval (mkC e db tbl ns ab) (TNames role s s2 ls) = eval (mkC e db' tbl ns ab) (TNames role s s2 ls).
Proof. exact names_ignores_database. Qed.
Print Assumptions names_ignores_database.
Theorem names_inherit_refuted :
  let c := mkC fc14_child (Some [fc14_child; fc14_parent]) [] NSPlain false in
  eval c (TField s_editor AId false) = TOk (VT (plain [69%N])) /\
  eval c (TNames s_editor [] None None) = TMissing s_editor [99%N].
Proof. exact names_inherit_refuted_lemma. Qed.
Print Assumptions names_inherit_refuted.

(* ---- non-vacuity ---- *)
Definition ex_person : person := mkP [[74; 111]%N] [] [[118; 111; 110]%N] [[90; 101; 100]%N] [].
Definition ex_tpl : tnode :=
  TToplevel [TSentence false false true (plain [c_comma; c_space]) [TNames s_author (plain [c_comma; c_space]) None None];
             TSentence false false true (plain [c_comma; c_space]) [TField s_title ACapitalize false; TOptionalField s_year AId false]].
Definition ex_db : list entry :=
  [mkE [98%N] [109; 105; 115; 99]%N [(s_title, [116; 104; 101; 32; 123; 66; 123; 67; 125; 125; 32; 116; 79; 79]%N); (s_year, [49; 57]%N)] [(s_author, [ex_person])];
   mkE [97%N] [109; 105; 115; 99]%N [(s_title, [97; 98; 63]%N)] [(s_author, [ex_person])]].
Definition ex_tp : templates := [([98%N], Some ex_tpl); ([97%N], Some ex_tpl)].
Definition ex_cfg : config := mkCfg SAuthorYearTitle LAlpha NSPlain false 2 true.

Example bibliography_example :
  option_map (map (fun x => (fe_key x, fe_label x, fstr (fe_text x))))
    (match format_bibliography ex_cfg [] ex_tp ex_db None with TOk o => Some o | _ => None end)
  = Some [([97%N], [118; 90]%N, s2l "Jo<nbsp>von Zed.<newblock>Ab?");
          ([98%N], [118; 90; 49; 57]%N, s2l "Jo<nbsp>von Zed.<newblock>The BC too, 19.")].
Proof. vm_compute. reflexivity. Qed.

Example required_example :
  required ex_tpl s_title /\ undefined (mkC (mkE [99%N] [] [] [(s_author, [ex_person])]) None [] NSPlain false) s_title
  /\ eval (mkC (mkE [99%N] [] [] [(s_author, [ex_person])]) None [] NSPlain false) ex_tpl = TMissing s_title [99%N].
Proof.
  split; [|split; [split|]]; try (vm_compute; reflexivity).
  eapply RqToplevel; [right; left; reflexivity|]. eapply RqSentence; [left; reflexivity|]. constructor.
Qed.

Example partial_hypothesis_example :
  exists bases ls, mapR format_label ex_db = Ok bases /\ alpha_labels ex_db = Ok ls /\
                   (forall l l' c, In l bases -> In l' bases -> l <> l' ++ [c]) /\ ls = [[118; 90; 49; 57]%N; [118; 90]%N].
Proof.
  eexists. eexists. split; [vm_compute; reflexivity|]. split; [vm_compute; reflexivity|]. split; [|reflexivity].
  intros l l' ch [<-|[<-|[]]] [<-|[<-|[]]]; intros E; apply (f_equal (@length _)) in E; rewrite app_length in E; cbn in E; try lia.
Qed.

Example sentence_example :
  eval (mkC (mkE [99%N] [] [(s_title, [97; 98]%N)] []) None [] NSPlain false)
       (TSentence true false true (plain [c_comma; c_space]) [TField s_title AId false; TLit true (plain [120%N])])
  = TOk (VT (plain [65; 98; 44; 32; 120; 46]%N)).
Proof. vm_compute. reflexivity. Qed.

Example live_example :
  let c := mkC (mkE [98%N] [] [(s_title, [116; 104; 101; 32; 123; 66; 125]%N)] [(s_author, [ex_person])]) None [] NSPlain false in
  live c ex_tpl (plain [84; 104; 101; 32]%N ++ [(ACh 66%N, [MProt])]) /\
  exists v, eval c ex_tpl = TOk v /\ fstr (vflat v) = s2l "Jo<nbsp>von Zed.<newblock>The B.".
Proof.
  split.
  - eapply LvToplevel; [right; left; reflexivity|]. eapply LvSentence; [left; reflexivity|]. constructor. vm_compute. reflexivity.
  - eexists. split; vm_compute; reflexivity.
Qed.

Example crossref_cycle_example :
  let par := mkE [112%N] [] [(s_crossref, [112%N])] [] in
  eval (mkC (mkE [120%N] [] [(s_crossref, [112%N])] []) (Some [par]) [] NSPlain false) (TField s_title AId false)
  = TMissing s_title [120%N].
Proof. vm_compute. reflexivity. Qed.

Example name_tokens_example :
  option_map fstr (match format_name [] NSLastFirst true (mkP [[74; 101; 97; 110; 45; 80; 97; 117; 108]%N] [[81; 46]%N] [[100; 101]%N] [[76; 97]%N; [90; 101; 100]%N] [[74; 114]%N]) with TOk f => Some f | _ => None end)
  = Some (s2l "de<nbsp>La<nbsp>Zed, Jr, J.-P.<nbsp>Q.").
Proof. vm_compute. reflexivity. Qed.

(* braces are not removed from the sort key; year and title are case-sensitive *)
Example sort_key_keeps_braces :
  sorting_key (mkE [97%N] [] [(s_title, [123; 65; 125]%N)] [(s_author, [mkP [] [] [] [[123; 66; 125]%N] []])])
  = ([123; 98; 125; 32; 32; 32; 32]%N, [], [123; 65; 125]%N).
Proof. vm_compute. reflexivity. Qed.

Example entry_terminated_example :
  exists vs v, evals in_ctx [TSentence false false true (plain [c_comma; c_space]) [TField s_title AId false]] = TOk vs /\
    eval in_ctx (TToplevel [TSentence false false true (plain [c_comma; c_space]) [TField s_title AId false]]) = TOk v /\
    vflat v <> [] /\ (forall w, last_truthy vs = Some w -> ends_term (vflat w) = true).
Proof.
  eexists. eexists. split; [vm_compute; reflexivity|]. split; [vm_compute; reflexivity|]. split; [discriminate|].
  intros w H. vm_compute in H. inversion H. reflexivity.
Qed.
