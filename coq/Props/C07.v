(* Props/C07.v -- Python-engine bibliography: complete, ordered, uniquely labelled, lossless.
   Only statements. *)
From Pybtex Require Import Base.Prelude Base.PyChar Base.PyStr Model.RtTypes Model.Citations Model.Template Model.Styles Proofs.Styles.

Theorem number_labels_one_per_entry : forall (es : list entry), length (number_labels es) = length es.
Proof. exact (@number_labels_length entry). Qed.
Print Assumptions number_labels_one_per_entry.
