(* Props/C01.v -- ".bib parsing is faithful and independent of surface syntax".
   Only statements; proofs are in Proofs/BibValues.v.  The model is Model/BibParser.v.
   What is proved here are the building blocks of the round trip (values, normalisation,
   field order, duplicates, months, preamble); the whole-file statement
   parse_bib (render layout d) = denote d is NOT proved: it is checked on every run by the
   correspondence run and the oracle denote_py (harness/props/c01.py). *)
From Pybtex Require Import Base.Prelude Base.PyChar Base.PyStr Model.BibtexStr Model.Names
  Model.Scanner Model.BibParser Proofs.BibValues.

(* values are whitespace-normalised: normalize_whitespace(s) is exactly the
   whitespace-separated words of s joined by single spaces (all 29 whitespace code points,
   CR LF included) *)
Theorem normalize_whitespace_spec : forall s, normalize_whitespace s = join [c_space] (split_ws s).
Proof. exact normalize_whitespace_words. Qed.
Print Assumptions normalize_whitespace_spec.

(* VALUE ROUND TRIP, one part: after any amount of whitespace, a braced value {body} or a
   quoted value "body" -- body brace-balanced, nested at most 100 deep, and for the quoted
   form without a double quote outside braces -- is read back as exactly body, whatever
   follows, and the scanner stands right behind the closing delimiter.  (Both spellings
   denote the same string: surface independence for the quoting choice.) *)
Theorem value_part_roundtrip : forall m st quoted ws body rest,
  forallb is_space ws = true -> walk quoted body 0 = Some 0 ->
  sc_rest (p_sc st) = ws ++ (if quoted then c_quote else c_lbrace) :: body ++ (if quoted then c_quote else c_rbrace) :: rest ->
  exists sc', parse_value_part m st = Ret body (set_sc st sc') /\ sc_rest sc' = rest.
Proof. exact value_part_delimited. Qed.
Print Assumptions value_part_roundtrip.

(* VALUE ROUND TRIP, '#' concatenation: a non-empty sequence of braced / quoted parts, each
   preceded by any whitespace and followed by any whitespace before the next '#', followed by
   anything that (after whitespace) is not '#', makes parse_value set current_value to
   exactly the list of the bodies -- every split of a value into concatenated parts, every
   quoting choice per part and every amount of whitespace (CR LF included) around '#'
   denote the same list, whose concatenation is the field value.  PARTIAL: bare-number and
   macro parts are not covered by this theorem (left to the tie / oracle). *)
Theorem value_roundtrip_partial : forall m (ps : list dpart) st c t,
  ps <> [] -> Forall wf_dpart ps -> is_space c = false -> c <> c_hash ->
  sc_rest (p_sc st) = render_dparts ps ++ c :: t ->
  exists sc', parse_value m st = Ret tt (set_value (set_sc st sc') (map dpart_body ps)) /\ sc_rest sc' = c :: t.
Proof. exact value_roundtrip_lemma. Qed.
Print Assumptions value_roundtrip_partial.

(* FIELD ORDER: fields (other than author/editor) whose names differ pairwise ignoring case
   are all kept, in source order, under the spelling they were written with, each value
   being the concatenation of its parts, whitespace-normalised; no problem is reported *)
Theorem field_order : forall fields s,
  (forall f, In f fields -> is_person_field (lower (fst f)) = false) ->
  NoDup (map (fun f => lower (fst f)) fields) ->
  process_fields Capture fields [] [] [] s
  = Ret (map (fun f => (fst f, normalize_whitespace (concat (snd f)))) fields, []) s.
Proof. exact field_order_lemma. Qed.
Print Assumptions field_order.

(* DUPLICATES: in general exactly the first field of each case-insensitive name is kept
   ([keep_first]: a subsequence in source order, without two names equal ignoring case),
   and each later duplicate is reported once *)
Theorem duplicate_field_first_wins : forall fields seen fs ps s,
  (forall f, In f fields -> is_person_field (lower (fst f)) = false) ->
  process_fields Capture fields seen fs ps s
  = Ret (fs ++ map field_value (keep_first seen fields), ps)
        (add_errs s (repeat (data_err E_DUPFIELD) (count_dups seen fields)))
  /\ NoDup (map (fun f => lower (fst f)) (keep_first seen fields))
  /\ (forall f, In f (keep_first seen fields) -> In f fields /\ ~ In (lower (fst f)) seen).
Proof.
  intros fields seen fs ps s H. split; [exact (process_fields_spec fields seen fs ps s H)|].
  split; [exact (keep_first_nodup fields seen)|exact (keep_first_fresh fields seen)].
Qed.
Print Assumptions duplicate_field_first_wins.

(* the first of two entries whose keys are equal ignoring case wins: the later one is
   reported and leaves the database unchanged; a new key is appended with the type
   lower-cased and its written spelling kept *)
Theorem repeated_key_first_wins : forall key typ fs ps d s,
  (existsb (fun e => str_eqb (lower (en_key e)) (lower key)) (db_entries d) = true ->
     exists d', add_entry Capture key typ fs ps d s = Ret d' (add_err s (data_err E_REPEATED))
                /\ db_entries d' = db_entries d /\ db_preamble d' = db_preamble d) /\
  (existsb (fun e => str_eqb (lower (en_key e)) (lower key)) (db_entries d) = false ->
     exists d' dirty, add_entry Capture key typ fs ps d s = Ret d' s
                /\ db_entries d' = db_entries d ++ [mkEntry key (lower typ) typ fs ps dirty]).
Proof. intros. split; [apply add_entry_repeated|apply add_entry_new]. Qed.
Print Assumptions repeated_key_first_wins.

(* the twelve month macros are predefined in a fresh reader and found whatever the letter
   case of the use (jan, JAN, Jan ...) *)
Theorem months_predefined : forall m text name v, In (lower name, v) month_macros ->
  substitute_macro m name (pst_init text month_macros) = Ret v (pst_init text month_macros).
Proof. exact months_predefined_lemma. Qed.
Print Assumptions months_predefined.

(* @preamble values are collected in order, concatenated and whitespace-normalised *)
Theorem preamble_collected : forall m n v d s, exists d', process m (CPreamble n v) d s = Ret d' s /\
  map snd (db_preamble d') = map snd (db_preamble d) ++ [normalize_whitespace (concat v)] /\ db_entries d' = db_entries d.
Proof. exact preamble_collected_lemma. Qed.
Print Assumptions preamble_collected.

(* non-vacuity / examples *)
Example ex_dparts :
  let ps : list dpart := [(s2l " ", false, s2l "a {b}", s2l "
 "); ([], true, s2l "c", s2l " ")] in
  Forall wf_dpart ps /\ render_dparts ps = s2l " {a {b}}
 #""c"" ".
Proof. vm_compute. split; [repeat constructor|reflexivity]. Qed.
Example ex_normalize : normalize_whitespace (s2l "  two   words
 next ") = s2l "two words next".
Proof. vm_compute. reflexivity. Qed.
Example ex_value_wf : walk false (s2l "a {B {c}} d") 0 = Some 0 /\ walk true (s2l "q{""}x") 0 = Some 0
  /\ walk true (s2l "q""x") 0 = None.
Proof. vm_compute. auto. Qed.
Example ex_months : In (lower (s2l "JaN"), s2l "January") month_macros.
Proof. vm_compute. auto. Qed.
Definition ex_db (t : string) :=
  match parse_bib Capture (s2l t) with
  | Ret d s => Some (db_entries d, map snd (db_preamble d), length (p_errs s))
  | _ => None
  end.
Example ex_surface_independence :
  ex_db "@string{mm = ""Em""} @Book{k1, Title = {A  b} # mm, year = 1999,}"%string
  = ex_db "junk @STRING(MM={Em})
@comment{x} @Book (k1,
 Title=""A""#{  b}
 #mm  ,year=""1999"")"%string /\ ex_db "@a{k, x = jan}"%string <> None.
Proof. vm_compute. split; [reflexivity|discriminate]. Qed.
