(* Props/C01.v -- ".bib parsing is faithful and independent of surface syntax".
   Only statements; proofs are in Proofs/BibValues.v.  The model is Model/BibParser.v.
   What is proved here are the building blocks of the round trip (values, normalisation,
   field order, duplicates, months, preamble); the whole-file statement
   parse_bib (render layout d) = denote d is NOT proved: it is checked on every run by the
   correspondence run and the oracle denote_py (harness/props/c01.py). *)
From Pybtex Require Import Base.Prelude Base.PyChar Base.PyStr Model.BibtexStr Model.Names
  Model.Scanner Model.BibParser Proofs.BibValues Proofs.BibEntry Proofs.BibFile.

(* values are whitespace-normalised: normalize_whitespace(s) is exactly the
   whitespace-separated words of s joined by single spaces (all 29 whitespace code points,
   CR LF included) *)
Theorem normalize_whitespace_spec : forall s, normalize_whitespace s = join [c_space] (split_ws s).
Proof. exact normalize_whitespace_words. Qed.
Print Assumptions normalize_whitespace_spec.

(* normalisation keeps the words (maximal runs of non-whitespace characters, each non-empty) exactly,
   and normalising again changes nothing: a value already read is a fixed point *)
Theorem normalize_whitespace_keeps_words : forall s,
  split_ws (normalize_whitespace s) = split_ws s /\ Forall is_word (split_ws s).
Proof. intros s. split; [exact (split_ws_normalized s)|exact (split_ws_words s)]. Qed.
Print Assumptions normalize_whitespace_keeps_words.

Theorem normalize_whitespace_idempotent : forall s,
  normalize_whitespace (normalize_whitespace s) = normalize_whitespace s.
Proof. exact normalize_whitespace_idem. Qed.
Print Assumptions normalize_whitespace_idempotent.

(* VALUE ROUND TRIP, one part: after any amount of whitespace, a braced value {body} or a
   quoted value "body" -- body brace-balanced, nested at most 100 deep, and for the quoted
   form without a double quote outside braces -- is read back as exactly body, whatever
   follows, and the scanner stands right behind the closing delimiter.  (Both spellings
   denote the same string: surface independence for the quoting choice.) *)
Theorem value_part_roundtrip : forall m st quoted ws body rest,
  forallb is_space ws = true -> walk quoted body 0 = Some 0 ->
  sc_rest (p_sc st) = ws ++ (if quoted then c_quote else c_lbrace) :: body ++ (if quoted then c_quote else c_rbrace) :: rest ->
  exists sc', parse_value_part m st = Ret body (set_sc st sc') /\ sc_rest sc' = rest.
Proof. exact value_part_delimited. Qed.
Print Assumptions value_part_roundtrip.

(* VALUE ROUND TRIP: a non-empty '#'-concatenation of parts -- braced {body}, quoted "body",
   bare number, macro name (defined in the current table, any letter case) -- each preceded
   by any whitespace and followed by any whitespace before the next '#', followed by a
   character that is not '#', not whitespace and not a name character (in a file: ',' or the
   closing delimiter), makes parse_value set current_value to exactly the list of what the
   parts denote (body / digits / macro expansion).  Hence every spelling of a value --
   quoting choice per part, split into concatenated parts, whitespace and CR LF around '#',
   case of macro names -- that denotes the same list reads as the same list. *)
Theorem value_roundtrip : forall m (ps : list gpart) st c t,
  ps <> [] -> Forall (wf_gpart (p_macros st)) ps -> is_space c = false -> c <> c_hash -> is_name_char c = false ->
  sc_rest (p_sc st) = render_gparts ps ++ c :: t ->
  exists sc', parse_value m st = Ret tt (set_value (set_sc st sc') (map (gpart_value (p_macros st)) ps)) /\ sc_rest sc' = c :: t.
Proof. exact value_roundtrip_general. Qed.
Print Assumptions value_roundtrip.

(* ENTRY ROUND TRIP (low level): after the '@', an entry written as
     ws type ws ( '{' | '(' ) ws key ws [ ',' [field ',' ... field] [','] ws ] ( '}' | ')' )
   -- type a NAME other than string/preamble/comment in any letter case, key any key of the
   delimiter's key pattern, each field  ws name ws '=' value  with value as in value_roundtrip,
   optional trailing comma, any whitespace (CR LF included) between tokens; both spellings
   '@a{k, ...}' and '@a{k}' (for '@a(k )' the key must be followed by whitespace) -- is read by
   parse_command as exactly (type as written, key, [(name as written, list of part values)])
   in source order, reports nothing, and leaves the scanner right behind the closing
   delimiter. *)
Theorem entry_roundtrip : forall m st brace ws0 typ ws1 ws2 key wsk comma fs trailing wsend rest,
  forallb is_space ws0 = true -> forallb is_space ws1 = true -> forallb is_space ws2 = true ->
  forallb is_space wsk = true -> forallb is_space wsend = true ->
  is_entry_type typ = true -> is_key brace key = true -> Forall (wf_sfield (p_macros st)) fs ->
  (comma = false -> fs = [] /\ (brace = true \/ wsk <> [])) ->
  sc_rest (p_sc st) = entry_text_gen brace ws0 typ ws1 ws2 key wsk comma fs trailing wsend rest ->
  exists st', parse_command m st = Ret (Some (CEntry typ (Some key) (map (field_result (p_macros st)) fs))) st'
    /\ sc_rest (p_sc st') = rest /\ p_errs st' = p_errs st /\ p_macros st' = p_macros st.
Proof. exact entry_reads_gen. Qed.
Print Assumptions entry_roundtrip.

(* FILE ROUND TRIP -- the property's statement on its domain.  A file is a sequence of items:
   entries (as in entry_roundtrip, author / editor fields included), @string definitions and
   redefinitions, @preamble items, @comment items (keywords in any letter case, either
   delimiter), each preceded by arbitrary junk text without '@' and followed by such junk;
   macros may be defined, redefined and used (any letter case) later in the file; the months are
   predefined.  [denote_items2] is what the items denote, computed without any parser state:
   @string only extends the case-insensitive macro table; @preamble appends the normalised
   concatenation; an entry whose key is new (ignoring case) is appended with key, lower-cased
   type, written type, the first field of each name (ignoring case) in source order -- a plain
   field as its parts concatenated and whitespace-normalised, an author / editor field as the
   Persons (C04: person_tokens_spec, von_is_longest_run, ...) of the names split_name_list
   (C12: split_name_list_spec) finds in it -- and the problems: one 'duplicate field' per later
   duplicate, one 'bad name' per name with too many commas, one 'repeated entry' per entry
   whose key repeats an earlier one (which then changes nothing).
   THEOREM: reading the rendering in capture mode returns exactly that database and reports
   exactly those problems, in that order -- and nothing else.
   Domain (what wf_file / the hypothesis still exclude): macro uses that are undefined at the
   point of use; entries without a key; junk containing '@' (it would start a command);
   values that are not brace-balanced or nest deeper than 100; a parenthesised entry whose key
   is glued to ')'; names on which Person raises BibTeXError (more than 100 braces:
   [denote_items2] is then None).  Non-ASCII cased letters in keys: the model's lower is ASCII. *)
Theorem file_roundtrip : forall items tail v e,
  wf_file month_macros items -> no_at tail -> denote_items2 month_macros items ([], []) = Some (v, e) ->
  exists d s, parse_bib Capture (file_text2 items tail) = Ret d s /\ view d = v /\ p_errs s = map data_err e.
Proof. exact file_roundtrip_full. Qed.
Print Assumptions file_roundtrip.

(* SURFACE INDEPENDENCE: two files whose items denote the same database and problems -- whatever
   their delimiters, quoting, concatenation splits, letter case of keywords and macro uses,
   whitespace and line ends, trailing commas, junk text and @comment items -- are read as the
   same database with the same reports *)
Theorem surface_independence : forall items1 tail1 items2 tail2 v e,
  wf_file month_macros items1 -> no_at tail1 -> wf_file month_macros items2 -> no_at tail2 ->
  denote_items2 month_macros items1 ([], []) = Some (v, e) -> denote_items2 month_macros items2 ([], []) = Some (v, e) ->
  exists d1 s1 d2 s2, parse_bib Capture (file_text2 items1 tail1) = Ret d1 s1 /\
                      parse_bib Capture (file_text2 items2 tail2) = Ret d2 s2 /\ view d1 = view d2 /\ p_errs s1 = p_errs s2.
Proof. exact surface_independence_full. Qed.
Print Assumptions surface_independence.

(* FIELD ORDER: fields (other than author/editor) whose names differ pairwise ignoring case
   are all kept, in source order, under the spelling they were written with, each value
   being the concatenation of its parts, whitespace-normalised; no problem is reported *)
Theorem field_order : forall fields s,
  (forall f, In f fields -> is_person_field (lower (fst f)) = false) ->
  NoDup (map (fun f => lower (fst f)) fields) ->
  process_fields Capture fields [] [] [] s
  = Ret (map (fun f => (fst f, normalize_whitespace (concat (snd f)))) fields, []) s.
Proof. exact field_order_lemma. Qed.
Print Assumptions field_order.

(* DUPLICATES: in general exactly the first field of each case-insensitive name is kept
   ([keep_first]: a subsequence in source order, without two names equal ignoring case),
   and each later duplicate is reported once *)
Theorem duplicate_field_first_wins : forall fields seen fs ps s,
  (forall f, In f fields -> is_person_field (lower (fst f)) = false) ->
  process_fields Capture fields seen fs ps s
  = Ret (fs ++ map field_value (keep_first seen fields), ps)
        (add_errs s (repeat (data_err E_DUPFIELD) (count_dups seen fields)))
  /\ NoDup (map (fun f => lower (fst f)) (keep_first seen fields))
  /\ (forall f, In f (keep_first seen fields) -> In f fields /\ ~ In (lower (fst f)) seen).
Proof.
  intros fields seen fs ps s H. split; [exact (process_fields_spec fields seen fs ps s H)|].
  split; [exact (keep_first_nodup fields seen)|exact (keep_first_fresh fields seen)].
Qed.
Print Assumptions duplicate_field_first_wins.

(* the first of two entries whose keys are equal ignoring case wins: the later one is
   reported and leaves the database unchanged; a new key is appended with the type
   lower-cased and its written spelling kept *)
Theorem repeated_key_first_wins : forall key typ fs ps d s,
  (existsb (fun e => str_eqb (lower (en_key e)) (lower key)) (db_entries d) = true ->
     exists d', add_entry Capture key typ fs ps d s = Ret d' (add_err s (data_err E_REPEATED))
                /\ db_entries d' = db_entries d /\ db_preamble d' = db_preamble d) /\
  (existsb (fun e => str_eqb (lower (en_key e)) (lower key)) (db_entries d) = false ->
     exists d' dirty, add_entry Capture key typ fs ps d s = Ret d' s
                /\ db_entries d' = db_entries d ++ [mkEntry key (lower typ) typ fs ps dirty]).
Proof. intros. split; [apply add_entry_repeated|apply add_entry_new]. Qed.
Print Assumptions repeated_key_first_wins.

(* the twelve month macros are predefined in a fresh reader and found whatever the letter
   case of the use (jan, JAN, Jan ...) *)
Theorem months_predefined : forall m text name v, In (lower name, v) month_macros ->
  substitute_macro m name (pst_init text month_macros) = Ret v (pst_init text month_macros).
Proof. exact months_predefined_lemma. Qed.
Print Assumptions months_predefined.

(* @preamble values are collected in order, concatenated and whitespace-normalised *)
Theorem preamble_collected : forall m n v d s, exists d', process m (CPreamble n v) d s = Ret d' s /\
  map snd (db_preamble d') = map snd (db_preamble d) ++ [normalize_whitespace (concat v)] /\ db_entries d' = db_entries d.
Proof. exact preamble_collected_lemma. Qed.
Print Assumptions preamble_collected.

(* non-vacuity / examples *)
Definition ex_items : list (str * sitem) :=
  [ (s2l "junk, ", IString true [] (s2l "STRING") [] (s2l " ") (s2l "mm") (s2l " ") [ ([], SDelim true (s2l "Em"), []) ]);
    (s2l "
", IComment true [] (s2l "Comment") []);
    (s2l " ignored } text ", IEntry false (s2l " ") (s2l "Book") [] (s2l " ") (s2l "k:1") [] true
        [ (s2l "
  ", s2l "Title", s2l " ", [ (s2l " ", SDelim true (s2l "A  {B}"), s2l " "); ([], SMacro (s2l "MM"), []); (s2l "
 ", SNumber (s2l "12"), s2l " ") ]);
          ([], s2l "TITLE", [], [ ([], SMacro (s2l "jan"), []) ]);
          ([], s2l "Author", [], [ ([], SDelim false (s2l "von Eck, Carl and A, B, C, D"), []) ]) ] true (s2l "
"));
    (s2l " % ", IEntry true [] (s2l "misc") [] [] (s2l "K:1") [] false [] false []);
    ([], IPreamble true [] (s2l "preamble") [] [ ([], SDelim false (s2l " p  q "), []) ]);
    ([], IEntry true [] (s2l "misc") [] [] (s2l "k2") [] false [] false []) ].
Example ex_file :
  file_text2 ex_items (s2l "
") = s2l "junk, @STRING{ mm =""Em""}
@Comment{ ignored } text @ Book( k:1,
  Title = ""A  {B}"" #MM#
 12 ,TITLE=jan,Author={von Eck, Carl and A, B, C, D},
) % @misc{K:1}@preamble{{ p  q }}@misc{k2}
"
  /\ denote_items2 month_macros ex_items ([], [])
     = Some (([ (s2l "k:1", s2l "book", s2l "Book", [(s2l "Title", s2l "A {B}Em12")],
                 [(s2l "Author", [mkPerson [s2l "Carl"] [] [s2l "von"] [s2l "Eck"] [];
                                  mkPerson [s2l "C"] [s2l "D"] [] [s2l "A"] [s2l "B"]])]);
                (s2l "k2", s2l "misc", s2l "misc", [], []) ], [s2l "p q"]),
             [E_DUPFIELD; E_NAME; E_REPEATED]).
Proof. vm_compute. split; reflexivity. Qed.
Example ex_file_wf : wf_file month_macros ex_items.
Proof.
  cbn [wf_file ex_items]. unfold no_at, sp.
  repeat split; try reflexivity; try discriminate; try (intros x Hx; cbn in Hx; repeat (destruct Hx as [<-|Hx]; [reflexivity|]); contradiction);
      try (repeat constructor; try reflexivity; try discriminate; cbn; congruence); try (intros H; discriminate H); auto.
Qed.
Example ex_normalize : normalize_whitespace (s2l "  two   words
 next ") = s2l "two words next".
Proof. vm_compute. reflexivity. Qed.
Example ex_value_wf : walk false (s2l "a {B {c}} d") 0 = Some 0 /\ walk true (s2l "q{""}x") 0 = Some 0
  /\ walk true (s2l "q""x") 0 = None.
Proof. vm_compute. auto. Qed.
Example ex_months : In (lower (s2l "JaN"), s2l "January") month_macros.
Proof. vm_compute. auto. Qed.
Definition ex_db (t : string) :=
  match parse_bib Capture (s2l t) with
  | Ret d s => Some (db_entries d, map snd (db_preamble d), length (p_errs s))
  | _ => None
  end.
Example ex_surface_independence :
  ex_db "@string{mm = ""Em""} @Book{k1, Title = {A  b} # mm, year = 1999,}"%string
  = ex_db "junk @STRING(MM={Em})
@comment{x} @Book (k1,
 Title=""A""#{  b}
 #mm  ,year=""1999"")"%string /\ ex_db "@a{k, x = jan}"%string <> None.
Proof. vm_compute. split; [reflexivity|discriminate]. Qed.
